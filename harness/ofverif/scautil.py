"""Shared adapters, canonicalisation and textbook evaluators for the tax-scale domain (C08, C09).

Numbers travel as exact rationals `p` / `p/q`; a bracket is `t:r`; a scale is the comma separated
list of its brackets *in insertion order* (`-` = none); both sides build it with `add_bracket`.

Numeric policy (DESIGN section 4): inputs live on a dyadic lattice (integer thresholds, rates
in 2^-4 Z, bases in 2^-2 Z, factors in 2^-3 Z) where the float arithmetic of the code is exact,
except for (a) the `factor + eps` perturbation of the thresholds in `MarginalRateTaxScale.calc`
(the value is snapped to the lattice after checking that it lies within 2^-20 of it) and
(b) true divisions (`LinearAverageRateTaxScale.calc`, `inverse`, `to_average`), which are
compared numerically with the tolerance 2^-20 (`canon_equal`).
"""
from __future__ import annotations

from fractions import Fraction as F

EPS64 = 2.0 ** -52
TOL = F(1, 2 ** 20)
LATTICE = 2 ** 12          # snapping lattice for un-rounded marginal-rate values

# ----------------------------------------------------------------------------------------
# text


def fr(x) -> str:
    if type(x) is not F:
        x = F(x)
    return str(x.numerator) if x.denominator == 1 else f"{x.numerator}/{x.denominator}"


def pfr(s: str) -> F:
    return F(s)


def fmt_scale(brs) -> str:
    return ",".join(f"{fr(t)}:{fr(r)}" for t, r in brs) if brs else "-"


def parse_scale(s: str):
    if s == "-":
        return []
    out = []
    for b in s.split(","):
        t, r = b.split(":")
        out.append((F(t), F(r)))
    return out


def fmt_vals(vs) -> str:
    vs = list(vs)
    return ",".join(fr(v) for v in vs) if vs else "-"


def parse_vals(s: str):
    return [] if s == "-" else [F(v) for v in s.split(",")]


def parse_rd(s: str):
    return None if s == "-" else int(s)


def exact(x) -> F:
    """the rational a float *is*"""
    return F(float(x))


def snap(x, den: int = LATTICE) -> F:
    """nearest point of the lattice Z/den when within 2^-20 of it, else the raw value"""
    v = exact(x)
    s = F(round(v * den), den)
    return s if abs(v - s) <= TOL else v


def eps_eff(f: F) -> F:
    """the perturbation the code really applies to the factor: fl(f + 2^-52) - f"""
    return F(float(f) + EPS64) - F(f)


# ----------------------------------------------------------------------------------------
# real objects

KINDS = {"mr": "MarginalRateTaxScale", "la": "LinearAverageRateTaxScale",
         "ma": "MarginalAmountTaxScale", "sa": "SingleAmountTaxScale"}


def mk(kind: str, ins):
    """real scale built with add_bracket in the given order (floats, like the YAML loader gives);
    every other scale carries non-default name / option / unit metadata (never part of a result)"""
    from openfisca_core import taxscales
    cls = getattr(taxscales, KINDS[kind])
    if (len(ins) + sum(t.numerator for t, _ in ins)) % 2:
        s = cls(name="scale", option="main-option", unit="currency")
    else:
        s = cls()
    # like the YAML loader, which yields int for `threshold: 100` and float for `100.0`: on a third of the scales the
    # integral thresholds and rates are passed as Python ints
    as_int = (len(ins) + sum(r.numerator for _, r in ins)) % 3 == 0
    for t, r in ins:
        if as_int:
            s.add_bracket(int(t) if t.denominator == 1 else float(t), int(r) if r.denominator == 1 else float(r))
        else:
            s.add_bracket(float(t), float(r))
    return s


def opt_str(t: str):
    """protocol token -> Python value of a descriptive attribute: `~` = None, `@e` = the empty string"""
    return None if t == "~" else "" if t == "@e" else t


def show_opt(v) -> str:
    return "~" if v is None else "@e" if v == "" else str(v)


def show_meta(s) -> str:
    return f"{show_opt(s.name)}|{show_opt(s.option)}|{show_opt(s.unit)}"


def split_bases(text: str):
    """(kind, bases): `i:` prefix = integer array on the implementation side (kind "i"), `f:` = float32
    array (kind "f"), no prefix = float64 (kind "", falsy)"""
    if text.startswith("i:"):
        return "i", parse_vals(text[2:])
    if text.startswith("f:"):
        return "f", parse_vals(text[2:])
    return "", parse_vals(text)


def arr(bases, kind=""):
    import numpy
    if kind == "f":
        return numpy.array([float(b) for b in bases], dtype=numpy.float32)
    if kind:
        dt = numpy.int32 if len(bases) % 2 else numpy.int64
        return numpy.array([int(b) for b in bases], dtype=dt)
    return numpy.array([float(b) for b in bases], dtype=numpy.float64)


def brackets_of(s) -> list:
    """observable brackets of a real scale, as the rationals its floats are (inf kept as text)"""
    vals = s.rates if hasattr(s, "rates") else s.amounts
    out = []
    for t, r in zip(s.thresholds, vals):
        out.append(("inf" if float(t) == float("inf") else exact(t), exact(r)))
    if len(s.thresholds) != len(vals):
        out.append(("len-mismatch", F(len(s.thresholds) - len(vals))))
    return out


def show_brackets(brs) -> str:
    return ",".join(f"{t if isinstance(t, str) else fr(t)}:{fr(r)}" for t, r in brs) if brs else "-"


def snapshot(s):
    """deep, order-sensitive picture of a scale used for the non-mutation clause"""
    vals = s.rates if hasattr(s, "rates") else s.amounts
    return ([repr(float(t)) for t in s.thresholds], [repr(float(r)) for r in vals])


# ----------------------------------------------------------------------------------------
# textbook definitions over Fraction (independent of the Lean model)


def spec_build(ins):
    """the scale a bracket multiset denotes: distinct thresholds in increasing order, the
    rates / amounts given for one threshold added up"""
    d: dict = {}
    for t, r in ins:
        d[t] = d.get(t, F(0)) + r
    return sorted(d.items())


def spec_mr(brs, b: F, f: F = F(1)) -> F:
    """sum over brackets of rate x length of the part of (-inf, b] inside [f t_i, f t_i+1)"""
    tot = F(0)
    for i, (t, r) in enumerate(brs):
        lo = f * t
        hi = f * brs[i + 1][0] if i + 1 < len(brs) else None
        top = b if hi is None else min(b, hi)
        tot += r * max(F(0), top - lo)
    return tot


def half_even(x: F, d: int) -> F:
    q = x * 10 ** d
    fl = q.numerator // q.denominator
    rem = q - fl
    if rem < F(1, 2):
        n = fl
    elif rem > F(1, 2):
        n = fl + 1
    else:
        n = fl if fl % 2 == 0 else fl + 1
    return F(n, 10 ** d)


def is_tie(x: F, d: int) -> bool:
    q = x * 10 ** d
    return q - (q.numerator // q.denominator) == F(1, 2)


def spec_mr_rounded(brs, b: F, f: F, d: int):
    """same with thresholds, bracket parts and bracket taxes rounded to d decimals; None when
    a scaled threshold sits exactly on a rounding tie (the eps perturbation decides it)"""
    ths = [f * t for t, _ in brs]
    if any(is_tie(t, d) for t in ths):
        return None
    ths = [half_even(t, d) for t in ths]
    tot = F(0)
    for i, (_, r) in enumerate(brs):
        hi = ths[i + 1] if i + 1 < len(brs) else None
        top = b if hi is None else min(b, hi)
        tot += half_even(r * half_even(max(F(0), top - ths[i]), d), d)
    return tot


def spec_ma(brs, b: F) -> F:
    return sum((a for t, a in brs if t < b), F(0))


def spec_sa(brs, b: F, right: bool) -> F:
    out = F(0)
    for i, (t, a) in enumerate(brs):
        nxt = brs[i + 1][0] if i + 1 < len(brs) else None
        if not right and t <= b and (nxt is None or b < nxt):
            out = a
        if right and t < b and (nxt is None or b <= nxt):
            out = a
    return out


def spec_la(brs, b: F):
    """base x interpolated rate on [t_0, t_last); None outside"""
    for i in range(len(brs) - 1):
        (t, r), (t2, r2) = brs[i], brs[i + 1]
        if t <= b < t2:
            return b * (r + (r2 - r) * (b - t) / (t2 - t))
    return None


# ----------------------------------------------------------------------------------------
# comparison of the two output streams

def _num_tokens(s: str):
    """split a canonical answer into structure and numbers"""
    import re
    nums = []

    def rep(m):
        nums.append(F(m.group(0)))
        return "#"
    shape = re.sub(r"-?\d+(?:/\d+)?", rep, s)
    return shape, nums


def approx_equal(a: str, b: str, tol: F = TOL) -> bool:
    if a == b:
        return True
    sa, na = _num_tokens(a)
    sb, nb = _num_tokens(b)
    if sa != sb or len(na) != len(nb):
        return False
    return all(abs(x - y) <= tol for x, y in zip(na, nb))
