"""Regenerate lean/OFCore/OFCore/Generated.lean from the tree under test.

Only `ast.parse` is used (the package is not imported): the literal tables the proofs depend
on are read from the source text, so a theorem proved "by cases over the table" is re-checked
against what the code says now.
"""
from __future__ import annotations

import ast
import os


def _unit_name(node: ast.AST) -> str:
    # DateUnit.WEEKDAY -> "weekday"
    if isinstance(node, ast.Attribute) and isinstance(node.value, ast.Name) and node.value.id == "DateUnit":
        return node.attr.lower()
    raise ValueError(f"unexpected unit expression: {ast.dump(node)}")


def _find_func(tree: ast.AST, name: str) -> ast.FunctionDef:
    for node in ast.walk(tree):
        if isinstance(node, ast.FunctionDef) and node.name == name:
            return node
    raise ValueError(f"function {name} not found")


def _return_value(fn: ast.FunctionDef) -> ast.AST:
    for node in ast.walk(fn):
        if isinstance(node, ast.Return) and node.value is not None:
            return node.value
    raise ValueError(f"no return in {fn.name}")


def extract(repo: str) -> dict:
    out: dict = {}
    helpers = ast.parse(open(os.path.join(repo, "openfisca_core/periods/helpers.py")).read())
    ret = _return_value(_find_func(helpers, "unit_weights"))
    if not isinstance(ret, ast.Dict):
        raise ValueError("unit_weights() does not return a dict literal")
    out["unit_weights"] = [(_unit_name(k), ast.literal_eval(v)) for k, v in zip(ret.keys, ret.values)]
    du = ast.parse(open(os.path.join(repo, "openfisca_core/periods/date_unit.py")).read())
    for prop in ("isoformat", "isocalendar"):
        ret = _return_value(_find_func(du, prop))
        if not isinstance(ret, ast.Tuple):
            raise ValueError(f"DateUnit.{prop} does not return a tuple literal")
        out[prop] = [_unit_name(e) for e in ret.elts]
    sim = ast.parse(open(os.path.join(repo, "openfisca_core/simulations/simulation.py")).read())
    msl = None
    for node in ast.walk(sim):
        if isinstance(node, ast.Assign):
            for t in node.targets:
                if isinstance(t, ast.Attribute) and t.attr == "max_spiral_loops":
                    msl = ast.literal_eval(node.value)
        if isinstance(node, ast.AnnAssign) and isinstance(node.target, ast.Attribute) and node.target.attr == "max_spiral_loops" and node.value is not None:
            msl = ast.literal_eval(node.value)
    if msl is None:
        raise ValueError("max_spiral_loops default not found")
    out["max_spiral_loops"] = int(msl)
    return out


def render(tbl: dict) -> str:
    def strs(xs):
        return "[" + ", ".join('"%s"' % x for x in xs) + "]"
    uw = "[" + ", ".join('("%s", %d)' % (k, v) for k, v in tbl["unit_weights"]) + "]"
    return (
        "-- REGENERATED from the tree under test by harness/ofverif/extract.py on every run. Do not edit.\n"
        "namespace OFCore.Generated\n"
        f"def unitWeightTable : List (String × Int) := {uw}\n"
        f"def isoformatUnits : List String := {strs(tbl['isoformat'])}\n"
        f"def isocalendarUnits : List String := {strs(tbl['isocalendar'])}\n"
        f"def maxSpiralLoops : Nat := {tbl['max_spiral_loops']}\n"
        "end OFCore.Generated\n"
    )


def regenerate(repo: str, lean_root: str) -> tuple[bool, str]:
    """Returns (changed, text). Raises ValueError when the source no longer has the expected shape."""
    text = render(extract(repo))
    path = os.path.join(lean_root, "OFCore", "Generated.lean")
    old = open(path).read() if os.path.exists(path) else None
    if old != text:
        with open(path, "w") as f:
            f.write(text)
        return True, text
    return False, text


if __name__ == "__main__":
    import sys
    print(render(extract(sys.argv[1] if len(sys.argv) > 1 else "/repo")))
