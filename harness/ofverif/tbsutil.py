"""Tax-benefit systems built programmatically from a plain description (C12, reusable by C13, C19, C20 …).

A *system spec* is a JSON-able dict:

    {"pk": "person", "pp": "persons",                       # key / plural of the person entity
     "groups": [{"key": "household", "plural": "households",
                 "roles": [{"key": "parent", "plural": "parents", "max": 2,
                            "sub": ["first_parent", "second_parent"]},     # sub-roles (max = their number)
                           {"key": "child", "plural": "children", "max": None, "sub": []}]}],
     "vars": [{"name": "salary", "entity": "person",         # key of the entity
               "type": "float" | "int" | "bool" | "str" | "date" | ["enum", "member", "names"],
               "unit": "month" | "year" | "day" | "week" | "weekday" | "eternity",   # definition period
               "default": 0,        # float/int: number, bool, str, date: proleptic ordinal, enum: member index
               "rule": "absent" | "dispatch" | "divide",     # the variable's `set_input` attribute
               "end": "YYYY-MM-DD"}]}                        # optional: the variable's (inclusive) `end` date

`make_system(spec)` returns a real `TaxBenefitSystem` (cached per spec); nothing of the repository's test
fixtures is needed.  `read_simulation(sim, spec)` returns the observable content of a simulation
(ids, counts, memberships, roles, every known input vector) as plain Python data with exact values.

The second half of the module is the blank-free prefix notation in which trees (documents, specs)
travel to the Lean driver `ofdrv_doc` (see lean/OFCore/OFCore/Drv/Doc.lean):

    n | t | f | i<int>; | r<num>/<den>; | s<hex of ASCII>; | d<ordinal of a datetime.date>; | [ item* ] | { (key item)* }
    key = s<hex>; | i<int>;
"""
from __future__ import annotations

import datetime as dt
import json
from fractions import Fraction

EPOCH_ORD = dt.date(1970, 1, 1).toordinal()       # 719163, numpy's datetime64 origin
TYPE_DEFAULTS = {"float": 0, "int": 0, "bool": False, "str": "", "date": EPOCH_ORD}

# two entity structures close to the country template, used as building blocks by the generators
HOUSEHOLD = {"key": "household", "plural": "households", "roles": [
    {"key": "parent", "plural": "parents", "max": 2, "sub": ["first_parent", "second_parent"]},
    {"key": "child", "plural": "children", "max": None, "sub": []}]}
FAMILY = {"key": "family", "plural": "families", "roles": [
    {"key": "head", "plural": None, "max": 1, "sub": []},
    {"key": "other", "plural": "others", "max": None, "sub": []}]}


def role(key, plural=None, max=None, sub=()):
    return {"key": key, "plural": plural, "max": max, "sub": list(sub)}


def group(key, plural, roles):
    return {"key": key, "plural": plural, "roles": list(roles)}


def var(name, entity, vtype, unit="month", default=None, rule="absent", end=None):
    """One variable description; `default=None` takes the value type's own default (enum: member 0);
    `end` = the date ("YYYY-MM-DD", inclusive) after which the variable no longer exists."""
    if default is None:
        default = 0 if isinstance(vtype, list) else TYPE_DEFAULTS[vtype]
    d = {"name": name, "entity": entity, "type": vtype, "unit": unit, "default": default, "rule": rule}
    if end is not None:
        d["end"] = end
    return d


def system_spec(groups, variables, pk="person", pp="persons"):
    return {"pk": pk, "pp": pp, "groups": list(groups), "vars": list(variables)}


def flat_roles(g) -> list:
    """`GroupEntity.flattened_roles`, as keys."""
    out = []
    for r in g["roles"]:
        out += list(r["sub"]) if r["sub"] else [r["key"]]
    return out


def role_doc_key(r) -> str:
    """The key under which a document lists the holders of a role (`role.plural or role.key`)."""
    return r["plural"] or r["key"]


def role_max(r):
    return len(r["sub"]) if r["sub"] else r["max"]


def all_types_variables(entity_key: str, prefix: str, enum_names=("red", "green", "blue")) -> list:
    """One variable of every value type (definition period month, date: eternity) plus the three
    `set_input` rules and the other definition periods, for one entity."""
    p = prefix
    return [
        var(p + "f", entity_key, "float"), var(p + "i", entity_key, "int"), var(p + "b", entity_key, "bool"),
        var(p + "s", entity_key, "str"), var(p + "d", entity_key, "date", "eternity"),
        var(p + "e", entity_key, list(enum_names), "month", 1),
        var(p + "dv", entity_key, "float", "month", rule="divide"),
        var(p + "ds", entity_key, "int", "month", rule="dispatch"),
        var(p + "y", entity_key, "float", "year"), var(p + "dy", entity_key, "int", "day"),
        var(p + "w", entity_key, "float", "week"), var(p + "wd", entity_key, "int", "weekday"),
        var(p + "ee", entity_key, list(enum_names), "eternity", 0),
        # variables with an `end`: on the first day of a period, inside a period, on a day, on a 1st of January
        var(p + "fe", entity_key, "float", "month", end="2018-02-01"), var(p + "ie", entity_key, "int", "month", end="2018-02-15"),
        var(p + "de", entity_key, "int", "day", end="2018-01-15"), var(p + "ye", entity_key, "float", "year", end="2018-01-01"),
    ]


# --------------------------------------------------------------------------------------
# real objects

_SYSTEMS: dict = {}


def make_system(spec: dict):
    """A real TaxBenefitSystem for the spec (cached; `import openfisca_core` must already resolve
    to the tree under test, see core.setup_repo_path)."""
    key = json.dumps(spec, sort_keys=True)
    hit = _SYSTEMS.get(key)
    if hit is not None:
        return hit
    import datetime
    from openfisca_core import entities, holders, indexed_enums, taxbenefitsystems, variables
    from openfisca_core.parameters import ParameterNode
    from openfisca_core.periods import DateUnit

    person = entities.Entity(spec["pk"], spec["pp"], "", "")
    ents = {spec["pk"]: person}
    groups = []
    for g in spec["groups"]:
        roles = []
        for r in g["roles"]:
            d = {"key": r["key"]}
            if r.get("plural"):
                d["plural"] = r["plural"]
            if r.get("max") is not None:
                d["max"] = r["max"]
            if r.get("sub"):
                d["subroles"] = list(r["sub"])
            roles.append(d)
        ge = entities.GroupEntity(g["key"], g["plural"], "", "", roles=roles)
        groups.append(ge)
        ents[g["key"]] = ge
    tbs = taxbenefitsystems.TaxBenefitSystem([person, *groups])
    tbs.parameters = ParameterNode("", data={})
    pytype = {"float": float, "int": int, "bool": bool, "str": str, "date": datetime.date}
    rules = {"absent": None, "dispatch": holders.set_input_dispatch_by_period,
             "divide": holders.set_input_divide_by_period}
    for n, v in enumerate(spec["vars"]):
        attrs = {"entity": ents[v["entity"]], "definition_period": DateUnit(v["unit"])}
        t = v["type"]
        if isinstance(t, list):
            enum = indexed_enums.Enum(f"OfvEnum{n}", {name: name for name in t})
            attrs.update(value_type=indexed_enums.Enum, possible_values=enum, default_value=list(enum)[v["default"]])
        else:
            attrs["value_type"] = pytype[t]
            d = v["default"]
            if t == "date":
                d = datetime.date.fromordinal(d)
            elif t == "float":
                d = float(d)
            attrs["default_value"] = d
        if rules[v["rule"]] is not None:
            attrs["set_input"] = rules[v["rule"]]
        if v.get("end"):
            attrs["end"] = v["end"]
        tbs.add_variable(type(v["name"], (variables.Variable,), attrs))
    if len(_SYSTEMS) > 48:
        _SYSTEMS.clear()
    _SYSTEMS[key] = tbs
    return tbs


def exact_value(x):
    """One array element as exact plain data: ('n', Fraction) float, ('i', int), ('b', bool), ('s', str),
    ('d', ordinal) date, ('x', repr) anything else."""
    import numpy as np
    if isinstance(x, (bool, np.bool_)):
        return ("b", bool(x))
    if isinstance(x, (int, np.integer)):
        return ("i", int(x))
    if isinstance(x, (float, np.floating)):
        f = float(x)
        if f != f or f in (float("inf"), float("-inf")):
            return ("x", repr(f))
        return ("n", Fraction(f))
    if isinstance(x, str):
        return ("s", x)
    if isinstance(x, dt.date):
        return ("d", x.toordinal())
    if isinstance(x, np.datetime64):
        try:
            return ("d", x.astype("datetime64[D]").astype(object).toordinal())
        except Exception:
            return ("x", str(x))
    return ("x", repr(x))


def read_vector(array) -> list:
    """Exact content of a holder array; enum arrays give ('e', index)."""
    from openfisca_core import indexed_enums
    import numpy as np
    if isinstance(array, indexed_enums.EnumArray):
        return [("e", int(k)) for k in np.asarray(array).tolist()]
    if array.dtype.kind == "M":
        return [exact_value(x) for x in array]
    return [exact_value(x) for x in array.tolist()] if array.dtype.kind == "O" else [exact_value(x) for x in array]


def read_simulation(sim, spec: dict) -> dict:
    """Everything observable the builder decides: per entity (in system order) ids, count,
    members_entity_id, members_role keys, members_position; per variable and known period the
    stored vector.  Only public attributes / methods of the simulation are used."""
    ents = []
    keys = [spec["pk"]] + [g["key"] for g in spec["groups"]]
    for k in keys:
        pop = sim.populations[k]
        e = {"key": k, "ids": [str(x) for x in list(pop.ids)], "count": int(pop.count), "memb": [], "roles": [], "pos": []}
        if k != spec["pk"]:
            e["memb"] = [int(x) for x in pop.members_entity_id]
            e["roles"] = [r.key for r in pop.members_role]
            e["pos"] = [int(x) for x in pop.members_position]
        ents.append(e)
    store = {}
    for v in spec["vars"]:
        holder = sim.get_holder(v["name"])
        for p in holder.get_known_periods():
            store[(v["name"], str(p))] = read_vector(holder.get_array(p))
    return {"ents": ents, "store": store}


# --------------------------------------------------------------------------------------
# driver notation


def hexs(s: str) -> str:
    return s.encode("ascii").hex()


def unhexs(h: str) -> str:
    return bytes.fromhex(h).decode("ascii")


def enc_key(k) -> str:
    if isinstance(k, bool):
        raise TypeError("bool key")
    if isinstance(k, int):
        return f"i{k};"
    return f"s{hexs(k)};"


def enc_tree(x) -> str:
    """Python data -> driver notation.  Floats must be dyadic (they are sent as exact fractions)."""
    if x is None:
        return "n"
    if x is True:
        return "t"
    if x is False:
        return "f"
    if isinstance(x, int):
        return f"i{x};"
    if isinstance(x, float):
        fr = Fraction(x)
        return f"r{fr.numerator}/{fr.denominator};"
    if isinstance(x, Fraction):
        return f"r{x.numerator}/{x.denominator};"
    if isinstance(x, str):
        return f"s{hexs(x)};"
    if isinstance(x, dt.date) and not isinstance(x, dt.datetime):
        return f"d{x.toordinal()};"
    if isinstance(x, (list, tuple)):
        return "[" + "".join(enc_tree(y) for y in x) + "]"
    if isinstance(x, dict):
        return "{" + "".join(enc_key(k) + enc_tree(v) for k, v in x.items()) + "}"
    raise TypeError(f"cannot encode {type(x).__name__}")


def dec_tree(s: str):
    """Driver notation -> Python data (`r` items come back as floats: they are dyadic)."""
    pos = 0

    def until_semicolon():
        nonlocal pos
        j = s.index(";", pos)
        tok = s[pos:j]
        pos = j + 1
        return tok

    def item():
        nonlocal pos
        c = s[pos]
        pos += 1
        if c == "n":
            return None
        if c == "t":
            return True
        if c == "f":
            return False
        if c == "i":
            return int(until_semicolon())
        if c == "r":
            p, q = until_semicolon().split("/")
            return float(Fraction(int(p), int(q)))
        if c == "s":
            return unhexs(until_semicolon())
        if c == "d":
            return dt.date.fromordinal(int(until_semicolon()))
        if c == "[":
            out = []
            while s[pos] != "]":
                out.append(item())
            pos += 1
            return out
        if c == "{":
            out = {}
            while s[pos] != "}":
                kc = s[pos]
                pos += 1
                k = int(until_semicolon()) if kc == "i" else unhexs(until_semicolon())
                out[k] = item()
            pos += 1
            return out
        raise ValueError(f"bad tree at {pos - 1}: {s[max(0, pos - 10):pos + 10]!r}")

    v = item()
    if pos != len(s):
        raise ValueError("trailing text in tree")
    return v


def enc_spec(spec: dict) -> str:
    return enc_tree(spec)
