"""C07 — every way of reading parameters returns the tree's current values.

Protocol (one self-contained process history per line, driver `ofdrv_pview`, see
lean/OFCore/OFCore/Drv/PView.lean for the full grammar):

    pview h <init> <op>;<op>;… <ntrees> <tree>…        -> <answer>|<answer>|…

    ra:<s>:<form>:<d>:<path>      view & parameter object & formula & traced formula  -> v&t&f&g^log
    rv / rt / rf                  one route only
    nr:<b>:<k>                    a Reform of system b whose apply() runs the next k operations
    md:<s>:<items>                reform.modify_parameters (u,<path>,<a>,<b|->,<v> updates, r,<k>, x; and reads the
                                  modifier makes while it runs: v,<sys>,<form>,<d>,<path> / a,… = all routes) -> ok~<nested>…
    ld:<s>:<k>[:<reads>]          system.load_parameters(<directory holding tree k>); the reads are made by the
                                  system's preprocess_parameters hook
    fx:<s>:<route>:<form>:<d>:<path>:<kind>:<keys>:<steps>      node[key vector]<steps>
    ao:<s>:<route>:<form>:<d>:<path>:<dates>:<steps>            node[datetime64 vector]<steps>

Dates are proleptic ordinals; values canonical tokens (ints, dyadic `p/q`, T/F); trees in the prefix
notation of `par t` (C06). System 0 is a plain TaxBenefitSystem; the others are real `Reform`
subclasses created by the history, whose `apply()` bodies are the operations that follow `nr`.
"""
from __future__ import annotations

import datetime as dt
import os
import random
import re
import shutil
import tempfile
from fractions import Fraction

from ..core import Case, Prop
from . import c06

D = dt.date.fromordinal
iso = c06.iso
Malformed = c06.Malformed
ROUTES = ("v", "t", "f", "g")


# --------------------------------------------------------------------------------------
# parsing (strict in the same way as the driver)



def _wrapped(proxy):
    """the node a TracingParameterNodeAtInstant wraps, read from the instance dictionary (never through `__getattr__`, which
    forwards to the node's CHILDREN): the private attribute of repair 5c4ca09, or the public one of earlier trees"""
    d = vars(proxy)
    for k in ("_TracingParameterNodeAtInstant__node", "parameter_node_at_instant"):
        if k in d:
            return d[k]
    for v in d.values():            # a tree under test that names it differently
        if hasattr(v, "_instant_str"):
            return v
    raise AttributeError("no wrapped node found in the tracing proxy")


def _nat(s: str) -> int:
    if not re.fullmatch(r"[0-9]+", s):
        raise Malformed(s)
    return int(s)


def _int(s: str) -> int:
    if not re.fullmatch(r"-?[0-9]+", s):
        raise Malformed(s)
    return int(s)


def p_path(s: str) -> list:
    return [] if s == "-" else s.split(".")


def p_list(s: str) -> list:
    return [] if s == "-" else s.split(",")


def parse_edit(s: str):
    f = s.split(",")
    if f[0] == "u" and len(f) == 5:
        if f[1] == "-" or f[4] == "":
            raise Malformed(s)
        if f[4] != "null":
            c06.check_tok(f[4])
        return ("u", p_path(f[1]), _int(f[2]), None if f[3] == "-" else _int(f[3]), f[4])
    if f[0] == "r" and len(f) == 2:
        return ("r", _nat(f[1]))
    if f[0] == "c" and len(f) == 4:
        if f[2] == "":
            raise Malformed(s)
        return ("c", p_path(f[1]), f[2], _nat(f[3]))
    if f == ["x"]:
        return ("x",)
    if f[0] in ("v", "a") and len(f) == 5:          # a read made while the modification is under way
        return (f[0], _nat(f[1]), _nat(f[2]), _int(f[3]), p_path(f[4]))
    raise Malformed(s)


def parse_steps(s: str):
    if s == "-":
        return []
    out = []
    for f in s.split("/"):
        kv = f.split("=")
        if len(kv) != 2:
            raise Malformed(f)
        if kv[0] == "f" and kv[1]:
            out.append(("f", kv[1]))
        elif kv[0] == "k":
            out.append(("k", p_list(kv[1])))
        elif kv[0] == "d":
            out.append(("d", [_int(x) for x in p_list(kv[1])]))
        else:
            raise Malformed(f)
    return out


def parse_keys(kind: str, keys: str):
    if kind == "n":
        return ("n", p_list(keys))
    if kind == "i":
        return ("i", [_int(x) for x in p_list(keys)])
    if kind in ("m", "c"):
        parts = keys.split("@")
        if len(parts) != 2:
            raise Malformed(keys)
        names = [] if parts[0] == "" else parts[0].split("~")
        return (kind, names, [_nat(x) for x in p_list(parts[1])])
    raise Malformed(kind)


def parse_op(s: str):
    f = s.split(":")
    k = f[0]
    if k == "ra" and len(f) == 5:
        return ("ra", _nat(f[1]), _nat(f[2]), _int(f[3]), p_path(f[4]))
    if k == "rv" and len(f) == 5:
        return ("rv", _nat(f[1]), _nat(f[2]), _int(f[3]), p_path(f[4]))
    if k == "rb" and len(f) == 5:
        return ("rb", _nat(f[1]), _nat(f[2]), _int(f[3]), p_path(f[4]))
    if k == "ex" and len(f) == 3:
        return ("ex", _nat(f[1]), _nat(f[2]))
    if k == "rt" and len(f) == 4:
        return ("rt", _nat(f[1]), _int(f[2]), p_path(f[3]))
    if k == "rf" and len(f) == 6:
        if f[2] not in ("0", "1"):
            raise Malformed(s)
        return ("rf", _nat(f[1]), f[2] == "1", _nat(f[3]), _int(f[4]), p_path(f[5]))
    if k == "nr" and len(f) == 3:
        return ("nr", _nat(f[1]), _nat(f[2]))
    if k == "cl" and len(f) == 2:
        return ("cl", _nat(f[1]))
    if k == "md" and len(f) == 3:
        return ("md", _nat(f[1]), [parse_edit(e) for e in f[2].split("+")])
    if k == "ld" and len(f) == 3:
        return ("ld", _nat(f[1]), _nat(f[2]), [])
    if k == "ld" and len(f) == 4:
        items = [parse_edit(e) for e in f[3].split("+")]
        if any(it[0] == "x" for it in items):
            raise Malformed(s)
        return ("ld", _nat(f[1]), _nat(f[2]), items)
    if k == "fx" and len(f) == 9:
        if f[2] not in ROUTES:
            raise Malformed(s)
        return ("fx", _nat(f[1]), f[2], _nat(f[3]), _int(f[4]), p_path(f[5]), parse_keys(f[6], f[7]), parse_steps(f[8]))
    if k == "ao" and len(f) == 8:
        if f[2] not in ROUTES:
            raise Malformed(s)
        return ("ao", _nat(f[1]), f[2], _nat(f[3]), _int(f[4]), p_path(f[5]), [_int(x) for x in p_list(f[6])], parse_steps(f[7]))
    raise Malformed(s)


def parse_line(line: str):
    f = line.split()
    if len(f) < 6 or f[0] != "pview" or f[1] != "h":
        raise Malformed(line[:40])
    init = None if f[2] == "-" else _nat(f[2])
    ops = [parse_op(o) for o in f[3].split(";")]
    n = _nat(f[4])
    toks = f[5:]
    trees, i = [], 0
    for _ in range(n):
        t, i = c06.parse_tree(toks, i)
        if t[0] != "N":
            raise Malformed("top")
        trees.append(t)
    if i != len(toks):
        raise Malformed("trailing")
    if init is not None and init >= n:
        raise Malformed("init")
    nsys = 1
    for o in ops:                      # the driver answers BAD when an index designates nothing
        if o[0] in ("nr", "cl"):
            if o[1] >= nsys:
                raise Malformed("system")
            nsys += 1                  # (a clone of a system without parameters raises: the driver then answers ERR and
                                       # creates nothing; such lines are not generated and later indices may be BAD)
        elif o[1] >= nsys:
            raise Malformed("system")
        if o[0] in ("ld", "ex") and o[2] >= n:
            raise Malformed("tree")
        if o[0] in ("md", "ld") and any(it[0] in ("v", "a") and it[1] >= nsys for it in o[-1]):
            raise Malformed("system")
    return init, ops, trees


# --------------------------------------------------------------------------------------
# reference semantics (naive, model-independent): what "the current tree defines at d"


def ref_tree(t):
    """parsed tree -> reference tree: P carries its overlays"""
    if t[0] == "P":
        return ("P", list(t[1]), ())
    if t[0] == "S":
        return t
    return ("N", [(k, ref_tree(s)) for k, s in t[1]])


def ref_update(t, path, upd):
    """the tree after `parameters.<path>.update(...)`; None when the path is not a parameter"""
    if not path:
        if t[0] != "P":
            return None
        return ("P", t[1], t[2] + (upd,))
    if t[0] == "S":
        # `scale.brackets[i].<field>.update(…)`: the field must be a child of the bracket
        if len(path) != 2 or not path[0].isdigit() or path[1] not in c06.FIELDS or int(path[0]) >= len(t[2]):
            return None
        ups = dict(t[3]) if len(t) > 3 else {}
        key = f"{int(path[0])}.{path[1]}"
        if not any(tok != "expected" for _d, tok in t[2][int(path[0])][c06.FIELDS.index(path[1])]) and key not in ups:
            return None
        ups[key] = ups.get(key, ()) + (upd,)
        return ("S", t[1], t[2], ups)
    if t[0] != "N":
        return None
    out, hit = [], False
    for k, s in t[1]:
        if k == path[0] and not hit:
            s2 = ref_update(s, path[1:], upd)
            if s2 is None:
                return None
            out.append((k, s2))
            hit = True
        else:
            out.append((k, s))
    return ("N", out) if hit else None


def ref_sub(t, path):
    for k in path:
        if t is None or t[0] != "N":
            return None
        t = dict(t[1]).get(k)
    return t


def ref_val(t, d):
    """nested python value of the tree at d: token | ('scale', str) | {name: …} | None (undefined)"""
    if t is None:
        return None
    if t[0] == "P":
        v = c06.overlay(t[1], list(t[2]), d)
        return None if v == "none" else v
    if t[0] == "S":
        _, kind, rows = c06.expect_scale(t[1], t[2], d, {k: list(v) for k, v in t[3].items()} if len(t) > 3 else None)
        return ("scale", kind + "[" + ",".join(f"{a}:{b}" for a, b in rows) + "]")
    out = {}
    for k, s in t[1]:
        v = ref_val(s, d)
        if v is not None:
            out[k] = v
    return out


def show_val(v) -> str:
    if v is None:
        return "none"
    if isinstance(v, dict):
        return "{" + ",".join(f"{k}={show_val(v[k])}" for k in sorted(v)) + "}"
    if isinstance(v, tuple):
        return v[1]
    return v


def num_tok(tok: str):
    if tok == "T":
        return "1"
    if tok == "F":
        return "0"
    return tok


def level_uniform(v: dict) -> bool:
    """all the nodes of a level are of one kind, and nodes carry the same key set (what fancy indexing
    needs: `check_node_vectorisable`)"""
    level = list(v.values())
    while level:
        if all(isinstance(x, str) for x in level):
            return True
        if not all(isinstance(x, dict) for x in level):
            return False
        ks = set(level[0])
        if any(set(x) != ks for x in level):
            return False
        level = [y for x in level for y in x.values()]
    return False


def show_row(v) -> str:
    if isinstance(v, dict):
        return "{" + ",".join(f"{k}={show_row(v[k])}" for k in sorted(v)) + "}"
    return num_tok(v)


def stringify(keyspec) -> list:
    if keyspec[0] == "n":
        return list(keyspec[1])
    if keyspec[0] == "i":
        return [str(i) for i in keyspec[1]]
    return [keyspec[1][i] if i < len(keyspec[1]) else "0" for i in keyspec[2]]


def expect_steps(rows, steps):
    """pointwise continuation of a vector read; None = not defined by the statement"""
    for st in steps:
        if not rows or not all(isinstance(r, dict) for r in rows):
            return None
        if st[0] == "f":
            if any(st[1] not in r for r in rows):
                return None
            rows = [r[st[1]] for r in rows]
        elif st[0] == "d":
            # chained as-of-date indexing: element i is, in row i, the child in force at the i-th date
            if len(st[1]) != len(rows) or not all(asof_domain(r) for r in rows):
                return None
            rows = [expect_asof(r, [t])[0] for r, t in zip(rows, st[1])]
        else:
            ks = st[1]
            if len(ks) != len(rows) or any(k not in r for k, r in zip(ks, rows)):
                return None
            rows = [r[k] for k, r in zip(ks, rows)]
    return rows


def after_date(name: str):
    if not name.startswith("after_"):
        return None
    p = name[6:].split("_")
    if len(p) != 3 or [len(x) for x in p] != [4, 2, 2] or not all(x.isdigit() for x in p):
        return None
    try:
        return dt.date(int(p[0]), int(p[1]), int(p[2])).toordinal()
    except ValueError:
        return None


def asof_domain(v) -> bool:
    """exactly one `before…` child, at least one `after_YYYY_MM_DD` child, distinct dates"""
    if not isinstance(v, dict) or not level_uniform(v):
        return False
    befores = [k for k in v if k.startswith("before")]
    others = [k for k in v if not k.startswith("before")]
    ds = [after_date(k) for k in others]
    return len(befores) == 1 and len(others) >= 1 and None not in ds and len(set(ds)) == len(ds)


def expect_asof(v: dict, dates: list):
    before = next(k for k in v if k.startswith("before"))
    afters = sorted((after_date(k), k) for k in v if not k.startswith("before"))
    out = []
    for t in dates:
        pick = before
        for dd, k in afters:
            if dd <= t:
                pick = k
        out.append(v[pick])
    return out


def ref_add(t, path, name, sub):
    """the tree after `parameters.<path>.add_child(name, sub)`; None when it raises"""
    if not path:
        if t[0] != "N" or name in dict(t[1]):
            return None
        return ("N", list(t[1]) + [(name, sub)])
    if t[0] != "N":
        return None
    out, hit = [], False
    for k, c in t[1]:
        if k == path[0] and not hit:
            c2 = ref_add(c, path[1:], name, sub)
            if c2 is None:
                return None
            out.append((k, c2))
            hit = True
        else:
            out.append((k, c))
    return ("N", out) if hit else None


class Ref:
    """the expected state of the process: tree OBJECTS (a reform refers to its baseline's object until one of
    them replaces its tree) and, per system, the object it refers to"""

    def __init__(self, init, trees):
        self.trees = [ref_tree(t) for t in trees]
        self.objs = [] if init is None else [self.trees[init]]
        self.refs = [None if init is None else 0]
        self.base = [None]

    @property
    def cur(self):
        return [None if r is None else self.objs[r] for r in self.refs]

    def root(self, s):
        while self.base[s] is not None:
            s = self.base[s]
        return s

    def sharing(self, s):
        return [i for i, r in enumerate(self.refs) if r is not None and r == self.refs[s]]

    def _install(self, s, t):
        self.objs.append(t)
        self.refs[s] = len(self.objs) - 1

    def apply(self, op):
        """True when the operation completes without raising"""
        if op[0] == "nr":
            self.refs.append(self.refs[op[1]])
            self.base.append(op[1])
        elif op[0] == "cl":
            if self.refs[op[1]] is None:
                return False
            self.objs.append(self.objs[self.refs[op[1]]])          # a copy: a new object
            self.refs.append(len(self.objs) - 1)
            self.base.append(self.base[op[1]])
        elif op[0] == "ld":
            t = self.trees[op[2]]
            for e in op[3]:              # what the preprocess_parameters hook did to the tree it was handed
                if e[0] == "u":
                    t = ref_update(t, e[1], (e[2], e[3], e[4]))
                elif e[0] == "c":
                    t = None if e[3] >= len(self.trees) else ref_add(t, e[1], e[2], self.trees[e[3]])
                elif e[0] == "r":
                    t = None if e[1] >= len(self.trees) else self.trees[e[1]]
                if t is None:
                    return False         # the hook raised: nothing is installed
            self._install(op[1], t)
        elif op[0] == "ex":
            s = op[1]
            r = self.refs[s]
            if r is None:
                return False
            if self.base[s] is not None:
                # a reform always gets a copy of its own first (repairs C14f/C14g): whoever referred to the same
                # object keeps the old one; only a root system's object is changed in place
                self.objs.append(self.objs[r])
                r = self.refs[s] = len(self.objs) - 1
            kids, ok = list(self.objs[r][1]), True
            for name, sub in self.trees[op[2]][1]:
                if name in dict(kids):
                    ok = False           # ValueError: what was merged before stays
                    break
                kids.append((name, sub))
            self.objs[r] = ("N", kids)
            return ok
        elif op[0] == "md":
            s = op[1]
            if self.base[s] is None or self.refs[s] is None:
                return False
            t = self.objs[self.refs[s]]      # the reform's own current tree: modifiers accumulate
            for e in op[2]:
                if e[0] in ("v", "a"):
                    continue
                if e[0] == "u":
                    t = ref_update(t, e[1], (e[2], e[3], e[4]))
                elif e[0] == "c":
                    t = None if e[3] >= len(self.trees) else ref_add(t, e[1], e[2], self.trees[e[3]])
                elif e[0] == "r":
                    t = None if e[1] >= len(self.trees) else self.trees[e[1]]
                else:
                    return True          # not a ParameterNode: silently nothing
                if t is None:
                    return False
            self._install(s, t)
        return True

    def value(self, s, path, d):
        t = self.cur[s]
        return None if t is None else ref_val(ref_sub(t, path), d)


# --------------------------------------------------------------------------------------
# the implementation adapter


def tok_of(v) -> str:
    import numpy as np
    if isinstance(v, np.generic):
        v = v.item()
    return c06.tok_of(v)


def show_snap(x) -> str:
    from openfisca_core.parameters import ParameterNodeAtInstant
    if x is None:
        return "none"
    if isinstance(x, ParameterNodeAtInstant):
        return "{" + ",".join(f"{k}={show_snap(x[k])}" for k in sorted(x)) + "}"
    cls = type(x).__name__
    if cls in c06.KIND_OF_CLASS:
        vals = x.amounts if hasattr(x, "amounts") else x.rates
        return c06.KIND_OF_CLASS[cls] + "[" + ",".join(f"{tok_of(t)}:{tok_of(r)}" for t, r in zip(x.thresholds, vals)) + "]"
    return tok_of(x)


def show_rec(row) -> str:
    import numpy as np
    if isinstance(row, np.void) and row.dtype.names:
        return "{" + ",".join(f"{k}={show_rec(row[k])}" for k in sorted(row.dtype.names)) + "}"
    return tok_of(row)


def show_rows(x) -> str:
    import numpy as np
    from openfisca_core.parameters import VectorialParameterNodeAtInstant
    from openfisca_core.tracers import TracingParameterNodeAtInstant
    if isinstance(x, TracingParameterNodeAtInstant):
        x = _wrapped(x)
    if isinstance(x, VectorialParameterNodeAtInstant):
        x = x.vector
    if isinstance(x, np.ndarray) and x.ndim == 1:
        return "[" + ",".join(show_rec(r) for r in x) + "]"
    if isinstance(x, np.ndarray):
        return f"shape{x.shape}"
    return "scalar:" + tok_of(x)


def write_dir(tree, data, rs: random.Random, top: str) -> None:
    """a YAML parameter directory holding the node `tree` (children as files or sub-directories)"""
    import yaml
    os.makedirs(top, exist_ok=True)
    for (name, sub) in tree[1]:
        if sub[0] == "N" and rs.random() < 0.5:
            write_dir(sub, data[name], rs, os.path.join(top, name))
        else:
            with open(os.path.join(top, name + ".yaml"), "w") as f:
                yaml.safe_dump(data[name], f)


def shuffled_data(tree, rs: random.Random):
    """the `data=` mapping of a node, children in a shuffled declaration order"""
    if tree[0] != "N":
        return c06.tree_data(tree, rs)
    kids = list(tree[1])
    rs.shuffle(kids)
    return {k: shuffled_data(s, rs) for k, s in kids}


_EXT_COUNTER = 0


class World:
    def __init__(self, trees, rs: random.Random):
        from openfisca_core import entities, taxbenefitsystems, variables
        from openfisca_core.periods import DateUnit
        self.trees, self.rs = trees, rs
        self.tmp = None
        self.sink = []
        self.sims = {}
        world = self
        person = entities.Entity("person", "persons", "", "")

        class ofv_probe(variables.Variable):
            value_type = float
            entity = person
            definition_period = DateUnit.DAY

            def formula(p, period, parameters):
                world.sink[-1](parameters, period)
                return p.filled_array(0.0)

        self.systems = [taxbenefitsystems.TaxBenefitSystem([person])]
        self.systems[0].add_variable(ofv_probe)

    def close(self):
        if self.tmp:
            shutil.rmtree(self.tmp, ignore_errors=True)

    def node(self, k: int):
        from openfisca_core.parameters import ParameterNode
        return ParameterNode("", data=shuffled_data(self.trees[k], self.rs))

    def directory(self, k: int) -> str:
        if self.tmp is None:
            self.tmp = tempfile.mkdtemp(prefix="ofv_c07_")
        top = tempfile.mkdtemp(dir=self.tmp)
        write_dir(self.trees[k], shuffled_data(self.trees[k], self.rs), self.rs, top)
        return top

    def load_extension(self, s: int, k: int) -> str:
        """system.load_extension(<an importable package whose parameters/ directory holds the children of tree k>).
        `os.listdir` is pinned to the declared order for that directory (the order of a directory listing is the
        environment's; the merge stops at the first name already present, so it matters)."""
        import sys as _sys
        import yaml
        global _EXT_COUNTER
        _EXT_COUNTER += 1
        if self.tmp is None:
            self.tmp = tempfile.mkdtemp(prefix="ofv_c07_")
        name = f"ofv_ext_{os.getpid()}_{_EXT_COUNTER}"
        pkg = os.path.join(self.tmp, name)
        pdir = os.path.join(pkg, "parameters")
        os.makedirs(pdir)
        open(os.path.join(pkg, "__init__.py"), "w").close()
        tree = self.trees[k]
        data = shuffled_data(tree, self.rs)
        order = []
        for (child, sub) in tree[1]:
            if sub[0] == "N" and self.rs.random() < 0.5:
                write_dir(sub, data[child], self.rs, os.path.join(pdir, child))
                order.append(child)
            else:
                with open(os.path.join(pdir, child + ".yaml"), "w") as f:
                    yaml.safe_dump(data[child], f)
                order.append(child + ".yaml")
        real_listdir = os.listdir

        def listdir(path="."):
            return list(order) if os.path.abspath(path) == os.path.abspath(pdir) else real_listdir(path)
        _sys.path.insert(0, self.tmp)
        os.listdir = listdir
        try:
            self.systems[s].load_extension(name)
            return "ok"
        except Exception:
            return "ERR"
        finally:
            os.listdir = real_listdir
            _sys.path.remove(self.tmp)
            for m in [m for m in _sys.modules if m == name or m.startswith(name + ".")]:
                del _sys.modules[m]

    def instant_arg(self, form: int, d: int):
        from openfisca_core import periods
        day = D(d)
        if form == 1:
            return periods.instant(iso(d))
        if form == 2:
            return periods.period(iso(d))
        if form == 3 and day.day == 1:
            return periods.period(f"{day.year:04d}-{day.month:02d}")
        if form == 4 and (day.month, day.day) == (1, 1):
            return periods.period(f"{day.year:04d}")
        if form == 5 and (day.month, day.day) == (1, 1):
            return day.year
        if form == 6 and day.day == 1:
            return f"{day.year:04d}-{day.month:02d}"
        if form == 7 and (day.month, day.day) == (1, 1):
            return f"{day.year:04d}"
        if form == 8 and day.day == 1:                       # a period of several months starting that day
            return periods.period(f"month:{day.year:04d}-{day.month:02d}:3")
        if form == 9:                                        # a period of several days starting that day
            return periods.period(f"day:{iso(d)}:10")
        return iso(d)

    def in_formula(self, s: int, traced: bool, d: int, body):
        """run `body(parameters, period)` inside a formula of a simulation on system s: a fresh one, or the one
        an earlier read created (possibly before the system's tree was changed), its cached result dropped"""
        from openfisca_core.simulations import SimulationBuilder
        sim = self.sims.get((s, traced)) if self.rs.random() < 0.5 else None
        if sim is None:
            sim = SimulationBuilder().build_default_simulation(self.systems[s], 1)
            sim.trace = traced
            self.sims[(s, traced)] = sim
        else:
            sim.delete_arrays("ofv_probe", iso(d))
        before = len(sim.tracer.trees) if traced else 0
        box = []
        self.sink.append(lambda parameters, period: box.append(body(parameters, period)))
        try:
            sim.calculate("ofv_probe", iso(d))
        finally:
            self.sink.pop()
        log = list(sim.tracer.trees[before].parameters) if traced else []
        return box[0], log

    # ---- reads

    def view_root(self, s, form, d):
        return self.systems[s].get_parameters_at_instant(self.instant_arg(form, d))

    def formula_arg(self, form, d, parameters, period):
        if form == 0:
            return parameters(iso(d))
        if form == 1:
            return parameters(period.start)
        return parameters(period)

    def walk(self, x, path):
        """`x.a.b`, each step by attribute or by item (`x["a"]` on a node at an instant or its tracing wrapper,
        `x.children["a"]` on a ParameterNode)"""
        from openfisca_core.parameters import ParameterNode, ParameterScale
        for k in path:
            r = self.rs.random()
            if isinstance(x, ParameterScale):
                x = x.brackets[int(k)] if r < 0.5 else x[int(k)]
            elif isinstance(x, ParameterNode):
                x = x.children[k] if r < 0.3 else getattr(x, k)
            elif r < 0.4:
                x = x[k]
            else:
                x = getattr(x, k)
        return x

    def read_view(self, s, form, d, path) -> str:
        try:
            return show_snap(self.walk(self.view_root(s, form, d), path))
        except Exception:
            return "ERR"

    def read_base_view(self, s, form, d, path) -> str:
        try:
            root = self.systems[s]._get_baseline_parameters_at_instant(self.instant_arg(form, d))
            return show_snap(self.walk(root, path))
        except Exception:
            return "ERR"

    def read_tree(self, s, d, path) -> str:
        try:
            obj = self.walk(self.systems[s].parameters, path)
            q = self.rs.choice([iso(d), D(d)])
            return show_snap(obj(q) if self.rs.random() < 0.5 else obj.get_at_instant(q))
        except Exception:
            return "ERR"

    def show_log(self, log, rows=False) -> str:
        out = []
        for n in log:
            o = dt.date.fromisoformat(str(n.period)).toordinal()
            out.append(f"{n.name}@{o}={show_rows(n.value) if rows else tok_of(n.value)}")
        return ",".join(out)

    def read_formula(self, s, traced, form, d, path) -> str:
        from openfisca_core.tracers import TracingParameterNodeAtInstant

        def body(parameters, period):
            try:
                x = self.walk(self.formula_arg(form, d, parameters, period), path)
            except Exception:
                return "ERR"
            if isinstance(x, TracingParameterNodeAtInstant):
                # the wrapper's own iteration and membership test must be the wrapped node's
                inner = _wrapped(x)
                try:
                    names = sorted(inner)
                    if sorted(x) != names or not all(k in x for k in names) or "__no_such_child__" in x:
                        return "WRAPPER-ITERATION-DIFFERS"
                except TypeError:
                    pass                                   # a vectorial node is not iterable, wrapped or not
                x = inner
            return show_snap(x)
        try:
            r, log = self.in_formula(s, traced, d, body)
        except Exception:
            return "ERR^"
        return r + "^" + self.show_log(log)

    # ---- vector reads

    def key_array(self, keyspec):
        import numpy as np
        from openfisca_core.indexed_enums import Enum, EnumArray
        if keyspec[0] == "n":
            ks = keyspec[1]
            if not ks:
                return np.array(ks, dtype=str)
            enc = self.rs.choice(["U", "U", "O", "S"])
            if enc == "O":                               # an object array of str
                arr = np.empty(len(ks), dtype=object)
                arr[:] = ks
                return arr
            if enc == "S" and all(k.isascii() and k for k in ks):
                return np.array([k.encode() for k in ks])   # a bytes array
            return np.array(ks)
        if keyspec[0] == "i":
            lo, hi = min(keyspec[1], default=0), max(keyspec[1], default=0)
            dts = ["int64", "int32", "int16"] + (["int8"] if -128 <= lo and hi < 128 else []) + \
                  (["uint8", "uint16", "uint64"] if 0 <= lo and hi < 256 else [])
            return np.array(keyspec[1], dtype=self.rs.choice(dts))
        names, idx = keyspec[1], keyspec[2]
        E = Enum("OfvKeys", {n: f"label {n}" for n in names})
        members = list(E)
        if keyspec[0] == "m":
            arr = np.empty(len(idx), dtype=object)
            for j, i in enumerate(idx):
                arr[j] = members[i]
            return arr
        if self.rs.random() < 0.5 and idx:
            return E.encode(np.array([names[i] for i in idx]))
        return EnumArray(np.array(idx, dtype=np.uint8), E)

    def date_array(self, dates):
        """the date vector as datetime64 of one of the units that denote exactly these days"""
        import numpy as np
        key = np.array([iso(x) for x in dates], dtype="datetime64[D]")
        days = [D(x) for x in dates]
        units = ["D", "D", "h", "m", "s", "ms", "us"]
        if all(1700 <= x.year <= 2200 for x in days):
            units.append("ns")
        if days and all(x.day == 1 for x in days):
            units.append("M")
            if all(x.month == 1 for x in days):
                units.append("Y")
        u = self.rs.choice(units)
        key = key.astype(f"datetime64[{u}]")
        if u in ("h", "m", "s", "ms", "us", "ns") and self.rs.random() < 0.5 and len(dates):
            key = key + np.timedelta64(self.rs.choice([1, 13, 23]), "h")     # a time of day within the same day
        return key

    def follow(self, x, steps, attr_only: bool):
        import numpy as np
        for st in steps:
            if st[0] == "f":
                x = getattr(x, st[1]) if attr_only or self.rs.random() < 0.5 else x[st[1]]
            elif st[0] == "d":
                x = x[self.date_array(st[1])]
            else:
                x = x[np.array(st[1], dtype=str) if not st[1] else np.array(st[1])]
        return x

    def twice(self, get, key, probe: bool) -> str:
        """the vector read `get()`; now and then: overwrite the array that came back and read again (a result must
        not share memory with what later reads are made from), and check that the key vector was left alone"""
        import numpy as np
        kept = np.array(key, copy=True)
        res = get()
        s1 = show_rows(res)
        if not (np.asarray(key).shape == kept.shape and bool(np.all(np.asarray(key) == kept))):
            return "KEY-VECTOR-CHANGED:" + s1
        if probe and self.rs.random() < 0.3:
            from openfisca_core.parameters import VectorialParameterNodeAtInstant
            from openfisca_core.tracers import TracingParameterNodeAtInstant
            arr = _wrapped(res) if isinstance(res, TracingParameterNodeAtInstant) else res
            arr = arr.vector if isinstance(arr, VectorialParameterNodeAtInstant) else arr
            if isinstance(arr, np.ndarray) and arr.size:
                arr[...] = np.zeros((), dtype=arr.dtype)
                s2 = show_rows(get())
                if s2 != s1:
                    return f"ALIASED:{s1}->{s2}"
        return s1

    def vec_read(self, s, route, form, d, path, key, steps, attr_only=False) -> str:
        if route == "v":
            try:
                return self.twice(lambda: self.follow(self.walk(self.view_root(s, form, d), path)[key], steps, attr_only), key, True)
            except Exception:
                return "ERR"
        if route == "t":
            try:
                return self.twice(lambda: self.follow(self.walk(self.systems[s].parameters, path)(iso(d))[key], steps, attr_only), key, True)
            except Exception:
                return "ERR"

        def body(parameters, period):
            try:
                # (not probed when traced: a second read would be a second entry of the tracer's log)
                return self.twice(lambda: self.follow(self.walk(self.formula_arg(form, d, parameters, period), path)[key], steps, attr_only),
                                  key, route != "g")
            except Exception:
                return "ERR"
        try:
            r, log = self.in_formula(s, route == "g", d, body)
        except Exception:
            return "ERR"
        if route == "g" and r != "ERR":
            return r + "^" + self.show_log(log, rows=True)
        return r

    # ---- modifications

    def nested_read(self, it) -> str:
        """a read made by user code in the middle of a modification"""
        kind, sy, form, d, path = it
        if kind == "v":
            return self.read_view(sy, form, d, path)
        v = self.read_view(sy, form, d, path)
        t = self.read_tree(sy, d, path)
        f = self.read_formula(sy, False, 2, d, path).split("^")[0]
        g = self.read_formula(sy, True, 2, d, path)
        return f"{v}&{t}&{f}&{g}"

    def modifier(self, items, nested: list):
        from openfisca_core import periods
        world = self

        def modifier(parameters):
            not_a_node = False
            for e in items:
                if e[0] in ("v", "a"):
                    nested.append(world.nested_read(e))
                elif not_a_node:
                    continue
                elif e[0] == "u":
                    p = world.walk(parameters, e[1])
                    v = c06.val_of(e[4], world.rs)
                    start = world.rs.choice([periods.instant(iso(e[2])), iso(e[2])])
                    if e[3] is None:
                        p.update(start=start, value=v)
                    elif e[2] <= e[3] and world.rs.random() < 0.5:
                        p.update(period=c06.period_arg(e[2], e[3], world.rs), value=v)
                    else:
                        p.update(start=start, stop=periods.instant(iso(e[3])), value=v)
                elif e[0] == "r":
                    parameters = world.node(e[1])
                elif e[0] == "c":
                    from openfisca_core.parameters import ParameterNode
                    full = ".".join(e[1] + [e[2]])
                    child = ParameterNode(full, data=shuffled_data(world.trees[e[3]], world.rs))
                    world.walk(parameters, e[1]).add_child(e[2], child)
                else:
                    not_a_node = True
            return None if not_a_node else parameters
        return modifier

    def run(self, ops, lo, hi, outs):
        """operations lo..hi-1 (inside apply() when called from a reform under construction)"""
        from openfisca_core import reforms
        i = lo
        while i < hi:
            op = ops[i]
            k = op[0]
            if k == "ra":
                _, s, form, d, path = op
                v = self.read_view(s, form, d, path)
                t = self.read_tree(s, d, path)
                f = self.read_formula(s, False, 2, d, path).split("^")[0]
                g = self.read_formula(s, True, 2, d, path)
                outs.append(f"{v}&{t}&{f}&{g}")
            elif k == "rv":
                outs.append(self.read_view(*op[1:]))
            elif k == "rt":
                outs.append(self.read_tree(*op[1:]))
            elif k == "rb":
                outs.append(self.read_base_view(*op[1:]))
            elif k == "ex":
                outs.append(self.load_extension(op[1], op[2]))
            elif k == "rf":
                outs.append(self.read_formula(*op[1:]))
            elif k == "fx":
                _, s, route, form, d, path, keyspec, steps = op
                try:
                    key = self.key_array(keyspec)
                except Exception:
                    raise Malformed("keys")
                outs.append(self.vec_read(s, route, form, d, path, key, steps))
            elif k == "ao":
                import numpy as np
                _, s, route, form, d, path, dates, steps = op
                key = self.date_array(dates)
                outs.append(self.vec_read(s, route, form, d, path, key, steps, attr_only=True))
            elif k == "ld":
                _, s, tk, items = op
                nested: list = []
                if items:
                    # the only user code that runs inside load_parameters: the preprocess_parameters hook (it reads, edits
                    # the tree it is handed and returns it, or returns another tree)
                    self.systems[s].preprocess_parameters = self.modifier(items, nested)
                try:
                    self.systems[s].load_parameters(self.directory(tk))
                    outs.append("~".join(["ok"] + nested))
                except Exception:
                    if not any(it[0] not in ("v", "a") for it in items):
                        raise                          # only an editing hook may refuse
                    outs.append("ERR")
                finally:
                    if items:
                        del self.systems[s].preprocess_parameters
            elif k == "md":
                _, s, items = op
                nested = []
                try:
                    self.systems[s].modify_parameters(self.modifier(items, nested))
                    outs.append("~".join(["ok"] + nested))
                except Exception:
                    outs.append("ERR")
            elif k == "cl":
                try:
                    new = self.systems[op[1]].clone()
                except Exception:
                    outs.append("ERR")
                else:
                    outs.append(f"new{len(self.systems)}")
                    self.systems.append(new)
            elif k == "nr":
                _, b, n_in = op
                n_in = min(n_in, hi - i - 1)
                world, start = self, i + 1
                idx = len(self.systems)
                outs.append(f"new{idx}")

                class OfvReform(reforms.Reform):
                    def apply(self):
                        world.systems.append(self)
                        world.run(ops, start, start + n_in, outs)

                OfvReform(self.systems[b])
                if len(self.systems) == idx:       # apply() was not reached
                    raise RuntimeError("reform not constructed")
                i += n_in
            i += 1


def impl(case: Case) -> str:
    try:
        init, ops, trees = parse_line(case.line)
    except Malformed:
        return "BAD"
    rs = random.Random((case.payload or {}).get("style", 0))
    w = World(trees, rs)
    try:
        if init is not None:
            if rs.random() < 0.5:
                w.systems[0].parameters = w.node(init)          # a fresh system: nothing memoised yet
            else:
                w.systems[0].load_parameters(w.directory(init))
        outs: list = []
        try:
            w.run(ops, 0, len(ops), outs)
        except Malformed:
            return "BAD"
        return "|".join(outs)
    finally:
        w.close()


# --------------------------------------------------------------------------------------
# the oracle: the property statement on the implementation's output


def _undef(x: str) -> bool:
    return x in ("none", "ERR")


def _same(got: str, want) -> bool:
    """`want` is a reference value (None = undefined at that date: `None` or an error are both fine)"""
    return _undef(got) if want is None else got == show_val(want)


def check_read(k, where, s, d, path, ans, want, vague, last_change):
    """one read answer (`ra`: the four routes; `rv`/`rt`/`rf`: one route) against the value `want` the tree in
    place defines (None = undefined there)"""
    body, _, log = ans.partition("^")
    parts = body.split("&") if k == "ra" else None
    if k == "ra":
        if len(parts) != 4:
            return ("shape", f"{where}: {ans}")
        v, t, f, g = parts
        # all access paths agree with parameters.<path>(date) on the current tree object
        for nm, x in (("view", v), ("formula", f), ("traced formula", g)):
            if not (x == t or (_undef(x) and _undef(t))):
                return ("view-stale" if (vague or _same(t, want)) else "routes-disagree",
                        f"{where}: system {s} at {iso(d)} path {'.'.join(path) or '<root>'}: the {nm} route gives {x}, "
                        f"parameters.<path>(date) on the current tree gives {t} (last change: {last_change})")
        if vague:
            return None
        if not _same(t, want):
            return ("tree-value", f"{where}: parameters.<path>({iso(d)}) of system {s} is {t}; the tree built by the "
                                  f"history defines {show_val(want)} (last change: {last_change})")
        if g != f:
            return ("traced-differs", f"{where}: traced {g} vs untraced {f}")
        if want is not None and not isinstance(want, (dict, tuple)):
            wlog = f"{'.'.join(path[:-1])}.{path[-1]}@{d}={want}"
            if log != wlog:
                return ("trace-log", f"{where}: the tracer recorded [{log}], the read was {wlog}")
        elif log != "" and isinstance(want, (dict, tuple)):
            return ("trace-log", f"{where}: the tracer recorded [{log}] for a read that returned no plain value")
    elif not vague:
        if not _same(body, want):
            sig = "tree-value" if k == "rt" else "view-stale"
            return (sig, f"{where}: system {s} at {iso(d)} path {'.'.join(path) or '<root>'} reads {body}; "
                         f"the current tree defines {show_val(want)} (last change: {last_change})")
    return None


def oracle(case: Case, out: str):
    if not case.claimed:
        return None
    try:
        init, ops, trees = parse_line(case.line)
    except Malformed:
        return None
    if out == "BAD":
        return ("shape", "a well-formed history was refused")
    answers = out.split("|")
    if len(answers) != len(ops):
        return ("shape", f"{len(answers)} answers for {len(ops)} operations")
    ref = Ref(init, trees)
    last_change = "construction"
    changed = False
    vague_sys: set = set()
    for i, (op, ans) in enumerate(zip(ops, answers)):
        k = op[0]
        where = f"op #{i} {case.line.split()[3].split(';')[i]}"
        # Whether a modifier starts from the reform's own tree or from its baseline's is property C14's
        # business (repair C14e): once a modifier ran on a reform whose tree differed from its baseline's,
        # the reference value of that system is not used any more, only the agreement of the routes.
        if k == "md" and ref.base[op[1]] is not None and ref.refs[op[1]] != ref.refs[ref.base[op[1]]] and ref.cur[op[1]] != ref.cur[ref.base[op[1]]]:
            vague_sys.add(op[1])
        vague = op[1] in vague_sys
        if k in ("nr", "cl", "ld", "md", "ex"):
            parts = ans.split("~")
            items = [it for it in op[-1] if it[0] in ("v", "a")] if k in ("ld", "md") else []
            if parts[0] == "ok" and items:
                # reads made while the modification was under way: every system still has its former tree
                if len(parts) != 1 + len(items):
                    return ("shape", f"{where}: {ans}")
                for it, na in zip(items, parts[1:]):
                    kind, sy, _form, d, path = it
                    r = check_read("ra" if kind == "a" else "rv", where + f" (nested read of system {sy})", sy, d, path, na,
                                   ref.value(sy, path, d), sy in vague_sys, last_change)
                    if r:
                        return r
            ok = ref.apply(op)
            if k == "md" and ok and parts[0] != "ok" and not vague:
                return ("modify-raised", f"{where}: modify_parameters raised")
            if k == "ld":
                vague_sys.discard(op[1])
            if k in ("nr", "cl") and op[1] in vague_sys:
                vague_sys.add(len(ref.cur) - 1)
            if k == "cl" and ok and parts[0] != f"new{len(ref.cur) - 1}":
                return ("clone-raised", f"{where}: system.clone() answered {ans}")
            if k in ("ld", "md", "ex"):
                last_change = where
                changed = True
            continue
        if k == "rb":                    # the view of the root of the chain of baselines
            _, s, _form, d, path = op
            root = ref.root(s)
            r = check_read("rv", where + f" (root baseline: system {root})", root, d, path, ans, ref.value(root, path, d),
                           root in vague_sys, last_change)
            if r:
                return r
            continue
        if k in ("ra", "rv", "rt", "rf"):
            if k == "ra":
                _, s, _form, d, path = op
            elif k == "rv":
                _, s, _form, d, path = op
            elif k == "rt":
                _, s, d, path = op
            else:
                _, s, _tr, _form, d, path = op
            r = check_read(k, where, s, d, path, ans, ref.value(s, path, d), vague, last_change)
            if r:
                return r
            continue
        # vector reads
        if k == "fx":
            _, s, route, _form, d, path, keyspec, steps = op
        else:
            _, s, route, _form, d, path, dates, steps = op
        if vague:
            continue
        node = ref.value(s, path, d)
        body, _, log = ans.partition("^")
        stale = route != "t" and changed     # a vector read through the memoised view after a change
        if k == "fx":
            ks = stringify(keyspec)
            defined = isinstance(node, dict) and level_uniform(node) and ks and all(x in node for x in ks)
            rows = expect_steps([node[x] for x in ks], steps) if defined else None
            kindname = "fancy"
        else:
            defined = asof_domain(node)
            rows = expect_steps(expect_asof(node, dates), steps) if defined else None
            kindname = "asof"
        if rows is None:
            continue                      # the statement does not say what comes out
        wtxt = "[" + ",".join(show_row(r) for r in rows) + "]"
        if body == "ERR":
            sig = "vector-subnode-raises" if steps and steps[0][0] == "f" else "view-stale" if stale else f"{kindname}-raises"
            return (sig, f"{where}: raised; element-wise the current tree gives {wtxt}")
        if body != wtxt and any(st[0] == "d" for st in steps) and body != "ERR":
            # F-C07d: a date vector applied to the result of a date vector read the first row only
            return ("asof-chained-first-row", f"{where}: got {body}; element-wise (row i of the first index, child in force at the "
                                              f"i-th date of the second) the current tree of system {s} at {iso(d)} gives {wtxt}")
        if body != wtxt:
            return ("view-stale" if stale else f"{kindname}-pointwise", f"{where}: got {body}; element-wise the current tree of system {s} at {iso(d)} "
                                            f"gives {wtxt} (last change: {last_change})")
        if route == "g" and rows and not isinstance(rows[0], dict):
            wlog = f"{'.'.join(path)}@{d}={wtxt}"
            if log != wlog:
                return ("trace-log", f"{where}: the tracer recorded [{log}], the read was {wlog}")
    return None


def canon_equal(case: Case, impl_out: str, model_out: str) -> bool:
    """An as-of group with no `after_` child defined at the date gives a 0-d scalar in the code (`sum([])`
    is the integer 0); the model answers ERR for that shape, which is outside the claim domain."""
    if impl_out == model_out:
        return True
    a, b = impl_out.split("|"), model_out.split("|")
    return len(a) == len(b) and all(x == y or (x.startswith("scalar:") and y == "ERR") for x, y in zip(a, b))


def nontrivial(case: Case, out: str) -> bool:
    if out in ("BAD", "ERR"):
        return False
    vals = set()
    for a in out.split("|"):
        for x in a.split("^")[0].split("&"):
            if x not in ("ok", "ERR", "none") and not x.startswith("new"):
                vals.add(x)
    return len(vals) >= 2


# --------------------------------------------------------------------------------------
# generation

BASE = dt.date(2015, 1, 1).toordinal()
ENTRY_DATES = [dt.date(2014, 6, 1), dt.date(2015, 1, 1), dt.date(2015, 6, 15), dt.date(2016, 1, 1), dt.date(2016, 2, 29),
               dt.date(2017, 3, 1)]
READ_DATES = [dt.date(2014, 1, 1), dt.date(2014, 6, 1), dt.date(2015, 1, 1), dt.date(2015, 6, 14), dt.date(2015, 6, 15),
              dt.date(2016, 1, 1), dt.date(2016, 2, 29), dt.date(2016, 12, 31), dt.date(2017, 3, 1), dt.date(2018, 1, 1),
              dt.date(2019, 7, 1)]
VALUES = ["0", "1", "2", "3", "5", "7", "10", "12", "100", "600", "777", "-4", "1/2", "3/4", "7/2", "-5/8", "25/2", "42"]
ZONES = ["z1", "z2", "z3", "zone_4"]
TENURES = ["owner", "tenant", "free"]
SUBS = ["k1", "k2"]
ASOF_DATES = [dt.date(1970, 1, 1), dt.date(1980, 1, 1), dt.date(1985, 7, 1), dt.date(1990, 1, 1), dt.date(1999, 12, 31),
              dt.date(2000, 2, 29), dt.date(2010, 10, 10)]


def g_val(rng):
    return rng.choice(VALUES) if rng.random() < 0.8 else str(rng.randint(-50, 900))


def g_param(rng, always=False):
    n = rng.choice([1, 1, 2, 2, 3])
    days = rng.sample(ENTRY_DATES[:4] if always else ENTRY_DATES, n)
    ents = [(x.toordinal(), "null" if (rng.random() < 0.08 and not always) else g_val(rng)) for x in days]
    if always and min(d for d, _ in ents) > ENTRY_DATES[0].toordinal():
        ents.append((ENTRY_DATES[0].toordinal(), g_val(rng)))
    rng.shuffle(ents)
    return ("P", ents)


def g_homog(rng, names, depth, always=True):
    """a homogeneous group: every child has the same shape"""
    if depth == 0:
        return None
    shape = rng.choice(["leaf", "leaf", "node"]) if depth > 1 else "leaf"
    sub_names = rng.sample(TENURES, rng.randint(2, 3)) if shape == "node" else None
    subsub = rng.random() < 0.3 and depth > 2

    def mk(level_names, lvl):
        kids = []
        for n in level_names:
            if lvl == 0:
                kids.append((n, g_param(rng, always)))
            elif lvl == 1:
                kids.append((n, mk(sub_names, 0) if not subsub else mk(sub_names, -1)))
            else:
                kids.append((n, mk(SUBS, 0)))
        return ("N", kids)
    return mk(names, 0 if shape == "leaf" else 1)


def asof_name(x: dt.date, before=False) -> str:
    return f"{'before' if before else 'after'}_{x.year:04d}_{x.month:02d}_{x.day:02d}"


def g_asof(rng):
    n = rng.randint(1, 4)
    ds = sorted(rng.sample(ASOF_DATES, n))
    names = [asof_name(ds[0], True)] + [asof_name(x) for x in ds]
    rng.shuffle(names)                       # declaration order is arbitrary
    r = rng.random()
    nested = r < 0.3
    kids = []
    sub = rng.sample(TENURES, 2)
    if 0.3 <= r < 0.45:                      # as-of groups nested in an as-of group (two dates: birth, claim)
        ds2 = sorted(rng.sample(ASOF_DATES, rng.randint(1, 2)))
        sub = [asof_name(ds2[0], True)] + [asof_name(x) for x in ds2]
        nested = True
    for nm in names:
        inner = list(sub)
        rng.shuffle(inner)
        kids.append((nm, ("N", [(k, g_param(rng, True)) for k in inner]) if nested else g_param(rng, True)))
    return ("N", kids)


def g_tree(rng):
    kids = []
    if rng.random() < 0.85:
        zs = rng.sample(ZONES, rng.randint(2, 4))
        kids.append(("g", g_homog(rng, zs, rng.choice([1, 2, 2, 3]))))
    if rng.random() < 0.5:
        kids.append(("n", g_homog(rng, [str(i) for i in rng.sample(range(0, 6), rng.randint(2, 4))], rng.choice([1, 2]))))
    if rng.random() < 0.6:
        kids.append(("h", g_asof(rng)))
    for nm in rng.sample(["x", "y", "w"], rng.randint(1, 3)):
        kids.append((nm, g_param(rng)))
    if rng.random() < 0.3:
        kids.append(("sub", ("N", [(k, g_param(rng)) for k in rng.sample(["a", "b", "c"], rng.randint(1, 3))])))
    if rng.random() < 0.25:
        lo = ENTRY_DATES[0].toordinal()
        kids.append(("sc", c06.gen_scale(rng, lo, lo + 400, rng.randint(1, 2))[0]))
    if rng.random() < 0.12:                  # an inhomogeneous group: a node beside a value, a sibling with a
        kind = rng.choice(["type", "type-rev", "missing", "extra", "deep"])      # missing / an extra key
        leaf = lambda: g_param(rng, True)
        if kind == "type":
            mix = [("p", leaf()), ("q", ("N", [("r", leaf())]))]
        elif kind == "type-rev":
            mix = [("q", ("N", [("r", leaf())])), ("p", leaf())]
        elif kind == "missing":
            mix = [("p", ("N", [("a", leaf()), ("b", leaf())])), ("q", ("N", [("a", leaf())]))]
        elif kind == "extra":
            mix = [("p", ("N", [("a", leaf())])), ("q", ("N", [("a", leaf()), ("b", leaf())]))]
        else:
            mix = [("p", ("N", [("a", ("N", [("k", leaf())])), ("b", ("N", [("k", leaf())]))])),
                   ("q", ("N", [("a", ("N", [("k", leaf())])), ("b", ("N", [("m", leaf())]))]))]
        kids.append(("mix", ("N", mix)))
    rng.shuffle(kids)
    return ("N", kids[:6])


def g_ext_tree(rng):
    """what an extension package brings: fresh names, sometimes one that the base trees also use"""
    kids = [("e_x", g_param(rng))]
    if rng.random() < 0.5:
        kids.append(("e_g", g_homog(rng, rng.sample(ZONES, 2), rng.choice([1, 2]))))
    if rng.random() < 0.4:
        kids.append(("e_sub", ("N", [(k, g_param(rng)) for k in rng.sample(["a", "b"], rng.randint(1, 2))])))
    if rng.random() < 0.25:
        kids.insert(rng.randint(0, len(kids)), (rng.choice(["x", "y", "g", "w"]), g_param(rng)))
    return ("N", kids)


def param_paths(t, prefix=()):
    out = []
    if t is None:
        return out
    if t[0] == "P":
        return [list(prefix)]
    if t[0] == "S":
        return [list(prefix) + [str(i), c06.FIELDS[j]] for i, br in enumerate(t[2]) for j, f in enumerate(br)
                if any(tok != "expected" for _d, tok in f)]
    if t[0] == "N":
        for k, s in t[1]:
            out += param_paths(s, prefix + (k,))
    return out


def node_paths(t, prefix=()):
    out = []
    if t is not None and t[0] == "N":
        out.append(list(prefix))
        for k, s in t[1]:
            out += node_paths(s, prefix + (k,))
    return out


def any_paths(t, prefix=()):
    out = [list(prefix)]
    if t is not None and t[0] == "N":
        for k, s in t[1]:
            out += any_paths(s, prefix + (k,))
    return out


def fmt_path(p) -> str:
    return ".".join(p) if p else "-"


def g_form(rng, d: int) -> int:
    day = D(d)
    forms = [0, 0, 1, 2, 9]
    if day.day == 1:
        forms += [3, 6, 8]
        if day.month == 1:
            forms += [4, 5, 7]
    return rng.choice(forms)


def g_read(rng, ref: Ref, s: int, hot: list) -> str:
    t = ref.cur[s]
    d = rng.choice(hot) if hot and rng.random() < 0.6 else rng.choice(READ_DATES).toordinal()
    hot.append(d)
    if t is None:
        return f"ra:{s}:{g_form(rng, d)}:{d}:-"
    r = rng.random()
    if r < 0.25:
        path = []
    elif r < 0.9:
        path = rng.choice(any_paths(t))
    else:
        path = rng.choice(any_paths(t)) + [rng.choice(["nope", "x", "owner"])]
    kind = rng.random()
    form = g_form(rng, d)
    if kind < 0.7:
        return f"ra:{s}:{form}:{d}:{fmt_path(path)}"
    if kind < 0.8:
        return f"rv:{s}:{form}:{d}:{fmt_path(path)}"
    if kind < 0.9:
        return f"rt:{s}:{d}:{fmt_path(path)}"
    return f"rf:{s}:{rng.randint(0, 1)}:{rng.choice([0, 1, 2])}:{d}:{fmt_path(path)}"


def g_keys(rng, names: list, n: int):
    """(kind, text): a key vector over `names` in one of the encodings the code accepts"""
    if not names:
        return "n", "-"
    pool = list(names)
    ks = [rng.choice(pool) for _ in range(n)]
    if rng.random() < 0.06:
        ks[rng.randrange(n)] = rng.choice(["zz", "Z1", ""]) or "zz"
    allint = all(k.lstrip("-").isdigit() and str(int(k)) == k for k in ks)
    if allint and rng.random() < 0.8:
        return "i", ",".join(ks)
    r = rng.random()
    if r < 0.5 or not all(k in pool and k.isidentifier() for k in ks):
        return "n", ",".join(ks)
    enum_names = list(pool)
    if rng.random() < 0.5:
        enum_names += ["other"]
    rng.shuffle(enum_names)
    idx = ",".join(str(enum_names.index(k)) for k in ks)
    return ("m" if r < 0.75 else "c"), "~".join(enum_names) + "@" + idx


def g_steps(rng, rows_sample, n: int) -> str:
    """continuation after the vector index: `rows_sample` is a reference row (dict or token)"""
    steps = []
    cur = rows_sample
    while isinstance(cur, dict) and cur and rng.random() < 0.8:
        names = sorted(cur)
        if rng.random() < 0.6:
            k = rng.choice(names)
            steps.append("f=" + k)
            cur = cur[k]
        else:
            ks = [rng.choice(names) for _ in range(n)]
            steps.append("k=" + ",".join(ks))
            cur = cur[ks[0]]
    return "/".join(steps) if steps else "-"


def g_vec(rng, ref: Ref, s: int, hot: list):
    t = ref.cur[s]
    if t is None:
        return None
    d = rng.choice(hot) if hot and rng.random() < 0.6 else rng.choice(READ_DATES[2:]).toordinal()
    hot.append(d)
    cands = [p for p in node_paths(t) if p]
    if not cands:
        return None
    pref = [p for p in cands if p[0] in ("g", "n", "h")]
    path = rng.choice(pref) if pref and rng.random() < 0.85 else rng.choice(cands + [[]])
    node = ref.value(s, path, d)
    if not isinstance(node, dict) or not node:
        return None
    route, form = rng.choice(ROUTES), rng.choice([0, 1, 2])
    n = rng.choice([1, 2, 3, 3, 5, 8])
    names = sorted(node)
    if any(k.startswith("before") or k.startswith("after") for k in names) and rng.random() < 0.85:
        pool = [x.toordinal() + o for x in ASOF_DATES for o in (-1, 0, 1)] + [dt.date(1000, 1, 1).toordinal(), dt.date(2030, 1, 1).toordinal()]
        dates = [rng.choice(pool) for _ in range(n)] if rng.random() < 0.97 else []
        if not dates and route == "g":           # the dtype of an empty result is not modelled
            route = "f"
        sample = node[names[0]]
        steps = "-"
        if isinstance(sample, dict) and any(k.startswith("before") for k in sample) and dates and rng.random() < 0.7:
            r2 = rng.random()                # a second date vector on the result of the first
            d2 = [rng.choice(pool) for _ in range(len(dates) if r2 < 0.9 else rng.choice([1, len(dates) + 1]))]
            if r2 < 0.3:                     # the first index picks one child for every row
                dates = [dates[0]] * len(dates)
            steps = "d=" + ",".join(map(str, d2))
        elif isinstance(sample, dict) and sample and rng.random() < 0.8:
            steps = "f=" + rng.choice(sorted(sample))
        return f"ao:{s}:{route}:{form}:{d}:{fmt_path(path)}:{','.join(map(str, dates)) or '-'}:{steps}"
    if rng.random() < 0.03:
        n = 0
    kind, keys = g_keys(rng, names, n) if n else ("n", "-")
    steps = g_steps(rng, node[names[0]], max(n, 1))
    return f"fx:{s}:{route}:{form}:{d}:{fmt_path(path)}:{kind}:{keys or '-'}:{steps}"


def g_edits(rng, ref: Ref, b: int, ntrees: int, hot: list) -> str:
    t = ref.cur[b]
    paths = param_paths(t)
    r = rng.random()
    if r < 0.06:
        return f"r,{rng.randrange(ntrees)}"
    if r < 0.09 or not paths:
        return "x" if paths else f"r,{rng.randrange(ntrees)}"
    edits = []
    if rng.random() < 0.15:                  # the modifier adds a sub-tree with add_child
        where_ = rng.choice([q for q in node_paths(t) if len(q) <= 1] or [[]])
        name = rng.choice(["added", "added", "extra_1", "x", "g"])
        edits.append(f"c,{fmt_path(where_)},{name},{rng.randrange(ntrees)}")
        if rng.random() < 0.5:
            return "+".join(edits)
    for _ in range(rng.choice([1, 1, 1, 2, 3])):
        in_scale = [q for q in paths if len(q) >= 2 and q[-1] in c06.FIELDS and q[-2].isdigit()]
        p = rng.choice(in_scale) if in_scale and rng.random() < 0.5 else rng.choice(paths)       # a bracket of a scale
        a = (rng.choice(hot) if hot and rng.random() < 0.5 else rng.choice(READ_DATES).toordinal()) - rng.choice([0, 0, 0, 1, 30, 365])
        b_ = "-" if rng.random() < 0.5 else str(a + rng.choice([0, 1, 30, 365, 366, 900]))
        edits.append(f"u,{fmt_path(p)},{a},{b_},{g_val(rng) if rng.random() < 0.93 else 'null'}")
    return "+".join(edits)


def g_nested(rng, ref: Ref, s: int, hot: list, keys: list) -> list:
    """0-3 reads the user function makes while the modification of system s is under way: mostly of s's own
    view, sometimes of its baseline's or another system's, at dates read before or about to be read again,
    in every spelling of the instant; `keys` collects (system, form, date, path) for the follow-up reads"""
    out = []
    for _ in range(rng.choice([0, 0, 1, 1, 2, 3])):
        r = rng.random()
        sy = s if r < 0.65 else (ref.base[s] if ref.base[s] is not None and r < 0.85 else rng.randrange(len(ref.cur)))
        d = rng.choice(hot) if hot and rng.random() < 0.6 else rng.choice(READ_DATES).toordinal()
        hot.append(d)
        t = ref.cur[sy]
        path = [] if t is None or rng.random() < 0.35 else rng.choice(any_paths(t))
        form = g_form(rng, d)
        out.append(f"{'a' if rng.random() < 0.3 else 'v'},{sy},{form},{d},{fmt_path(path)}")
        keys.append((sy, form, d, path))
    return out


def with_nested(rng, edits: str, nested: list) -> str:
    """the reads placed before, between and after the edits of the copied tree"""
    items = edits.split("+")
    for n in nested:
        items.insert(rng.randint(0, len(items)), n)
    return "+".join(items)


def gen_history(rng, n_ops=None) -> Case:
    ntrees = rng.choice([1, 2, 2, 3])        # the trees a system can be (re)loaded with
    trees = [g_tree(rng) for _ in range(ntrees)]
    ext = list(range(ntrees, ntrees + rng.choice([0, 0, 1, 1, 2])))      # what extension packages bring
    trees += [g_ext_tree(rng) for _ in ext]
    init = None if rng.random() < 0.08 else 0
    ref = Ref(init, trees)
    ops: list = []
    hot: list = []
    tags = []
    n_ops = n_ops or rng.randint(5, 16)

    def emit(s: str):
        ops.append(s)
        ref.apply(parse_op(s))

    def some_read(s):
        if rng.random() < 0.07:
            d = rng.choice(hot) if hot and rng.random() < 0.6 else rng.choice(READ_DATES).toordinal()
            hot.append(d)
            t = ref.cur[ref.root(s)]
            path = [] if t is None or rng.random() < 0.4 else rng.choice(any_paths(t))
            emit(f"rb:{s}:{g_form(rng, d)}:{d}:{fmt_path(path)}")
            return
        o = g_vec(rng, ref, s, hot) if rng.random() < 0.35 else None
        emit(o or g_read(rng, ref, s, hot))

    def after_change(s):
        """second reads after a change: every route of the changed system (and of one that shares its tree
        object, and of its baseline) at an instant read before"""
        for sy in {s, rng.choice(ref.sharing(s) or [s]), ref.base[s] if ref.base[s] is not None else s}:
            if rng.random() < 0.55:
                d = rng.choice(hot) if hot else rng.choice(READ_DATES).toordinal()
                t = ref.cur[sy]
                path = [] if t is None or rng.random() < 0.5 else rng.choice(any_paths(t))
                emit(f"ra:{sy}:{g_form(rng, d)}:{d}:{fmt_path(path)}")
            if rng.random() < 0.25:
                o = g_vec(rng, ref, sy, hot)
                if o:
                    emit(o)

    def extend(s):
        shared = [i for i in range(len(ref.cur)) if len(ref.sharing(i)) > 1]
        if shared and rng.random() < 0.8:
            s = rng.choice(shared)               # an object two systems refer to
        k = rng.choice(ext) if ext and rng.random() < 0.9 else rng.randrange(len(trees))
        emit(f"ex:{s}:{k}")
        tags.append("load-extension" + ("-shared-object" if len(ref.sharing(s)) > 1 else ""))
        after_change(s)

    def follow_up(s, keys):
        """read again what the user function read in the middle of the modification, with the same spelling"""
        for (sy, form, d, path) in keys:
            if rng.random() < 0.75:
                r = rng.random()
                if r < 0.6:
                    emit(f"ra:{sy}:{form}:{d}:{fmt_path(path)}")
                elif r < 0.85:
                    emit(f"rv:{sy}:{form}:{d}:{fmt_path([] if rng.random() < 0.5 else path)}")
                else:
                    emit(f"rf:{sy}:{rng.randint(0, 1)}:{form if form in (0, 1, 2) else 2}:{d}:{fmt_path(path)}")

    def modify(s):
        keys: list = []
        nested = g_nested(rng, ref, s, hot, keys)
        e = g_edits(rng, ref, s, ntrees, hot)
        if e.startswith("c,"):
            tags.append("add-child")
        emit(f"md:{s}:{with_nested(rng, e, nested)}")
        if nested:
            tags.append("nested-read-in-modifier")
        follow_up(s, keys)
        after_change(s)

    def reload(s):
        keys: list = []
        nested = g_nested(rng, ref, s, hot, keys) if rng.random() < 0.3 else []
        k = rng.randrange(ntrees)
        if rng.random() < 0.3:
            # a hook that edits the tree it is handed and returns it, or returns another tree
            paths = param_paths(ref.trees[k])
            if paths and rng.random() < 0.75:
                edits = []
                for _ in range(rng.choice([1, 1, 2])):
                    a = (rng.choice(hot) if hot and rng.random() < 0.5 else rng.choice(READ_DATES).toordinal()) - rng.choice([0, 0, 1, 30])
                    b_ = "-" if rng.random() < 0.5 else str(a + rng.choice([0, 30, 365, 900]))
                    edits.append(f"u,{fmt_path(rng.choice(paths))},{a},{b_},{g_val(rng)}")
                e = "+".join(edits)
            else:
                e = f"r,{rng.randrange(ntrees)}"
            nested = with_nested(rng, e, nested).split("+")
            tags.append("editing-hook")
        emit(f"ld:{s}:{k}" + (":" + "+".join(nested) if nested else ""))
        if any(n[0] in "va" for n in nested):
            tags.append("nested-read-in-hook")
        follow_up(s, keys)
        after_change(s)

    if init is None:
        emit(g_read(rng, ref, 0, hot))
        emit(f"ld:0:{rng.randrange(ntrees)}")
    while len(ops) < n_ops:
        s = rng.randrange(len(ref.cur))
        reforms_ = [i for i, b in enumerate(ref.base) if b is not None]
        if reforms_ and rng.random() < 0.6:
            s = rng.choice(reforms_)
        r = rng.random()
        if r < 0.35:
            some_read(s)
        elif r < 0.55:
            some_read(s)                       # read, change, read the same instant again
            if ref.base[s] is not None and rng.random() < 0.6:
                modify(s)
                tags.append("read-modify-read")
            else:
                reload(s)
                tags.append("read-reload-read")
            some_read(s)
            if rng.random() < 0.5:
                some_read(rng.randrange(len(ref.cur)))
        elif r < 0.72 and len(ref.cur) < 4:
            b = s
            body_n = rng.choice([0, 1, 2, 3, 3, 4, 5])
            new = len(ref.cur)
            at = len(ops)
            emit(f"nr:{b}:{body_n}")
            if ref.base[b] is not None:
                tags.append("reform-of-reform")
            pattern = rng.choice(["rmr", "rmr", "mr", "mm", "free"])
            body = []
            for j in range(body_n):
                if pattern == "rmr":
                    body.append("m" if j == 1 else "r")
                elif pattern == "mr":
                    body.append("m" if j == 0 else "r")
                elif pattern == "mm":
                    body.append("m" if j < 2 else "r")
                else:
                    body.append(rng.choice("mrr"))
            for kind in body:
                if kind == "m":
                    modify(new)
                else:
                    some_read(rng.choice([new, new, b]))
            if rng.random() < 0.7:
                ops[at] = f"nr:{b}:{len(ops) - at - 1}"        # everything generated so far runs inside apply()
            tags.append("apply:" + "".join(body))
        elif r < 0.76 and len(ref.cur) < 5 and ref.cur[s] is not None:
            # system.clone() after its view (and the views of those it shares its tree with) were read, then a change on
            # one side and reads on both
            some_read(s)
            new = len(ref.cur)
            emit(f"cl:{s}")
            tags.append("clone-system" + ("-of-reform" if ref.base[s] is not None else ""))
            some_read(new)
            side = rng.choice([s, new])
            if ref.base[side] is not None and rng.random() < 0.6:
                modify(side)
            elif rng.random() < 0.5 and ref.base[side] is None:
                extend(side)
            else:
                reload(side)
            some_read(new)
            some_read(s)
        elif r < 0.88 and ref.base[s] is not None:
            modify(s)
            tags.append("modify-outside-apply")
        elif r < 0.94 and ref.cur[s] is not None:
            extend(s)
        else:
            reload(s)
    line = f"pview h {'-' if init is None else init} {';'.join(ops)} {len(trees)} " + " ".join(c06.fmt_tree(t) for t in trees)
    kinds = sorted({o.split(':')[0] for o in ops})
    return Case(line=line, payload={"style": rng.getrandbits(30)}, claimed=True,
                tags=tuple(sorted(set(tags))) + tuple("op:" + k for k in kinds) + (f"systems={len(ref.cur)}",))


def gen_vector_case(rng) -> Case:
    """one tree, a handful of vector reads through random routes"""
    for _ in range(20):
        trees = [g_tree(rng)]
        ref = Ref(0, trees)
        ops, hot = [], []
        if rng.random() < 0.3:
            ops.append("nr:0:0")
            ref.apply(("nr", 0, 0))
            e = g_edits(rng, ref, 1, 1, hot)
            ops.append(f"md:1:{e}")
            ref.apply(parse_op(ops[-1]))
        for _ in range(rng.randint(2, 5)):
            o = g_vec(rng, ref, rng.randrange(len(ref.cur)), hot)
            if o:
                ops.append(o)
        if any(o[:2] in ("fx", "ao") for o in ops):
            line = f"pview h 0 {';'.join(ops)} 1 {c06.fmt_tree(trees[0])}"
            kinds = sorted({o.split(':')[0] + ":" + (o.split(':')[6] if o.startswith('fx') else 'd') for o in ops if o[:2] in ("fx", "ao")})
            return Case(line=line, payload={"style": rng.getrandbits(30)}, claimed=True, tags=("vector",) + tuple(kinds))
    return gen_history(rng)


MALFORMED = [
    "pview", "pview h", "pview h 0 ra:0:0:5:- 1", "pview h 0 ra:0:0:5:- 1 P 5:1", "pview h 1 ra:0:0:5:- 1 N 1 a P 5:1",
    "pview h 0 ra:1:0:5:- 1 N 1 a P 5:1", "pview h 0 zz:0 1 N 1 a P 5:1", "pview h 0 ra:0:0:x:- 1 N 1 a P 5:1",
    "pview h 0 md:0:u,-,1,2,3 1 N 1 a P 5:1", "pview h 0 ld:0:3 1 N 1 a P 5:1", "pview h 0 nr:2:0 1 N 1 a P 5:1",
    "pview h 0 fx:0:q:0:5:-:n:a:- 1 N 1 a P 5:1", "pview h 0 fx:0:v:0:5:-:z:a:- 1 N 1 a P 5:1", "pview h 0 ra:0:0:5:- 2 N 1 a P 5:1",
    "pview h 0 ra:0:0:5:- 1 N 1 a P 5:1 extra", "pview q 0 ra:0:0:5:- 1 N 1 a P 5:1", "pview h 0 ao:0:v:0:5:-:x:- 1 N 1 a P 5:1",
    "pview h 0 fx:0:v:0:5:-:n:a:q=1 1 N 1 a P 5:1", "pview h 0 cl:1 1 N 1 a P 5:1", "pview h 0 cl:0:0 1 N 1 a P 5:1",
    "pview h 0 ao:0:v:0:5:-:5:d=x 1 N 1 a P 5:1",
]


def generate(rng: random.Random, tier: str):
    n_hist, n_vec = (3000, 2500) if tier == "quick" else (50000, 30000)
    out = [gen_history(rng) for _ in range(n_hist)]
    out += [gen_vector_case(rng) for _ in range(n_vec)]
    out += [Case(line=l, payload={"style": 0}, claimed=False, tags=("malformed",)) for l in MALFORMED]
    return out


def enumerate_thorough():
    """(a) every declaration order of an as-of group of 1-3 `after_` children (plain and nested), read at
    every boundary date +-1 through the four routes; (b) every sequence of 1-4 operations over {read the
    baseline, read the reform, modify the reform, modify it with reads nested in the modifier, reload the
    baseline, reload the reform, reload it with a reading hook} after the reform was created and both were
    read once"""
    import itertools
    out = []
    o = lambda s: dt.date.fromisoformat(s).toordinal()
    d15, q = o("2015-01-01"), o("2018-01-01")
    cuts = [dt.date(1980, 1, 1), dt.date(1990, 1, 1), dt.date(2000, 2, 29)]
    for n in (1, 2, 3):
        names = [asof_name(cuts[0], True)] + [asof_name(c) for c in cuts[:n]]
        dates = sorted({c.toordinal() + k for c in cuts[:n] for k in (-1, 0, 1)} | {o("1000-01-01"), o("2030-01-01")})
        for perm in itertools.permutations(range(len(names))):
            for nested in (False, True):
                kids = []
                for j in perm:
                    if nested:
                        kids.append(f"{names[j]} N 2 b P {d15}:{10 * j + 1} a P {d15}:{10 * j + 2}")
                    else:
                        kids.append(f"{names[j]} P {d15}:{j + 1}")
                tree = f"N 1 h N {len(kids)} " + " ".join(kids)
                ops = ";".join(f"ao:0:{r}:0:{q}:h:{','.join(map(str, dates))}:{'f=a' if nested else '-'}" for r in ROUTES)
                out.append(Case(line=f"pview h 0 {ops} 1 {tree}", payload={"style": len(out)}, tags=("enum", "enum:asof-order")))
    t0 = f"N 2 x P {d15}:600 g N 2 z1 P {d15}:1 z2 P {d15}:2"
    t1 = f"N 2 x P {d15}:42 g N 2 z1 P {d15}:3 z2 P {d15}:4"
    alphabet = {"R0": f"ra:0:0:{q}:-", "R1": f"ra:1:0:{q}:-", "M1": None, "N1": None, "L0": "ld:0:1", "L1": "ld:1:0",
                "H1": f"ld:1:0:v,1,0,{q},-"}
    for n in range(1, 5):
        for seq in itertools.product(alphabet, repeat=n):
            ops = ["nr:0:0", f"ra:0:0:{q}:-", f"ra:1:0:{q}:x"]
            for j, a in enumerate(seq):
                ops.append(alphabet[a] or (f"md:1:u,x,{q - 10 * j},-,{700 + j}+u,g.z1,{q},{q + j},{j}" if a == "M1" else
                                          f"md:1:v,1,0,{q},-+u,x,{q - 10 * j},-,{800 + j}+v,0,0,{q},x"))
            out.append(Case(line=f"pview h 0 {';'.join(ops)} 2 {t0} {t1}", payload={"style": len(out)}, tags=("enum", "enum:interleaving")))
    return out


def corpus():
    o = lambda s: dt.date.fromisoformat(s).toordinal()
    d15, d18 = o("2015-01-01"), o("2018-01-01")
    bi = f"N 2 benefits N 1 basic_income P {d15}:600 taxes N 1 rate P {d15}:1/4"
    bi2 = f"N 1 benefits N 1 basic_income P {d15}:42"
    out = []
    # F-C07: view 600 vs tree 777 after a modifier run inside apply(), the view having been read before
    out.append(Case(line=f"pview h 0 nr:0:3;ra:1:0:{d18}:benefits.basic_income;md:1:u,benefits.basic_income,{d18},{o('2018-12-31')},777;"
                         f"ra:1:0:{d18}:benefits.basic_income;ra:0:0:{d18}:benefits.basic_income 1 {bi}",
                    payload={"style": 1}, tags=("corpus", "F-C07")))
    # F-C07: stale after a reload
    out.append(Case(line=f"pview h 0 ra:0:0:{d18}:benefits.basic_income;ld:0:1;ra:0:0:{d18}:benefits.basic_income;ra:0:1:{d18}:- 2 {bi} {bi2}",
                    payload={"style": 2}, tags=("corpus", "F-C07")))
    # a system read before it has parameters
    out.append(Case(line=f"pview h - ra:0:0:{d18}:-;ld:0:0;ra:0:0:{d18}:-;rv:0:0:{d18}:benefits.basic_income 1 {bi}",
                    payload={"style": 3}, tags=("corpus", "F-C07")))
    # two modifiers in one apply(): the second works on the result of the first (repair C14e)
    out.append(Case(line=f"pview h 0 nr:0:4;md:1:u,benefits.basic_income,{d18},-,777;ra:1:0:{d18}:-;md:1:u,taxes.rate,{d18},-,1/2;"
                         f"ra:1:0:{d18}:-;ra:0:0:{d18}:- 1 {bi}", payload={"style": 4}, tags=("corpus",)))
    # a modifier that reads the reform's own view while it runs (to raise the value in force), then every route
    # again with the same spelling: the memo must be emptied AFTER the new tree is installed
    for form in (0, 1, 2):
        out.append(Case(line=f"pview h 0 nr:0:1;md:1:v,1,{form},{d18},benefits.basic_income+u,benefits.basic_income,{d15 + 365},-,660+a,0,{form},{d18},-;"
                             f"ra:1:{form}:{d18}:benefits.basic_income;rv:1:{form}:{d18}:-;ra:0:{form}:{d18}:benefits.basic_income;"
                             f"fx:1:v:{form}:{d18}:benefits:n:basic_income:-;ld:1:1:v,1,{form},{d18},-+a,0,0,{d18},-;ra:1:{form}:{d18}:- 2 {bi} {bi2}",
                        payload={"style": 20 + form}, tags=("corpus", "nested-read")))
    # a chain of reforms, each with its own modifier, reads on the intermediate reform, the root baseline's view
    out.append(Case(line=f"pview h 0 ra:0:0:{d18}:-;nr:0:2;md:1:u,benefits.basic_income,{d18},-,700;ra:1:0:{d18}:-;nr:1:2;"
                         f"md:2:u,taxes.rate,{d18},-,1/2+c,benefits,added,1;ra:2:0:{d18}:-;ra:1:0:{d18}:-;ra:0:0:{d18}:-;rb:2:0:{d18}:-;"
                         f"md:1:u,taxes.rate,{d18},-,3/4;ra:2:0:{d18}:taxes;ra:1:0:{d18}:taxes;rb:1:1:{d18}:benefits;"
                         f"ra:2:1:{d18}:benefits.added.benefits.basic_income 2 {bi} {bi2}", payload={"style": 30}, tags=("corpus", "chain")))
    # load_extension on the baseline changes the tree object in place: the un-modified reform 1 follows, reform 2 (own
    # tree) does not; loaded on a reform it always goes to a copy (nobody else changes); a load that meets
    # a name already present stops there and leaves the views on the tree
    ext = f"N 2 e_x P {d15}:5 e_sub N 1 a P {d15}:6"
    ext2 = f"N 3 e_y P {d15}:8 taxes P {d15}:9 e_z P {d15}:10"
    out.append(Case(line=f"pview h 0 nr:0:0;nr:0:1;md:2:u,taxes.rate,{d18},-,1/2;ra:0:0:{d18}:-;ra:1:0:{d18}:-;ra:2:0:{d18}:-;ex:0:1;"
                         f"ra:0:0:{d18}:-;ra:1:0:{d18}:-;ra:2:0:{d18}:-;ex:1:1;ra:0:0:{d18}:-;ex:0:2;ra:0:0:{d18}:-;ra:1:0:{d18}:e_y;"
                         f"fx:1:v:0:{d18}:-:n:e_x,e_x:- 3 {bi} {ext} {ext2}", payload={"style": 31}, tags=("corpus", "extension")))
    # more distinct reads than the memo holds (lru_cache maxsize=128), a change, the oldest and the newest again
    many = [f"rv:{i % 2}:{i % 3}:{d15 + 7 * i}:benefits.basic_income" for i in range(140)]
    again = [f"ra:{i % 2}:{i % 3}:{d15 + 7 * i}:benefits.basic_income" for i in (0, 1, 2, 3, 137, 138, 139)]
    out.append(Case(line=f"pview h 0 nr:0:0;{';'.join(many)};md:1:u,benefits.basic_income,{d15 + 100},-,777;{';'.join(again)};ld:0:1;{';'.join(again)} 2 {bi} {bi2}",
                    payload={"style": 32}, tags=("corpus", "memo-eviction")))
    # the chain base -> r1 -> r2, all three on one object: an extension loaded on r1 goes to r1's copy (base and r2 keep the
    # old object); one then loaded on r2 goes to r2's own copy too: the root baseline never changes
    out.append(Case(line=f"pview h 0 nr:0:0;nr:1:0;ra:0:0:{d18}:-;ra:1:0:{d18}:-;ra:2:0:{d18}:-;ex:1:1;ra:0:0:{d18}:-;ra:1:0:{d18}:-;"
                         f"ra:2:0:{d18}:-;rb:2:0:{d18}:-;ex:2:2;ra:0:0:{d18}:-;ra:1:0:{d18}:-;ra:2:0:{d18}:-;ex:1:2;ra:1:0:{d18}:-;ra:2:0:{d18}:- "
                         f"3 {bi} {ext} {ext2}", payload={"style": 33}, tags=("corpus", "extension", "chain")))
    # F-C07b: a sub-node by name after a vector index
    housing = (f"N 1 g N 2 z1 N 2 owner N 2 k1 P {d15}:1 k2 P {d15}:2 tenant N 2 k1 P {d15}:3 k2 P {d15}:4 "
               f"z2 N 2 tenant N 2 k2 P {d15}:8 k1 P {d15}:7 owner N 2 k1 P {d15}:5 k2 P {d15}:6")
    for route in ROUTES:
        out.append(Case(line=f"pview h 0 fx:0:{route}:0:{d18}:g:n:z1,z2,z2:f=owner/f=k1;fx:0:{route}:0:{d18}:g:n:z1,z2,z2:f=owner/k=k1,k2,k1;"
                             f"fx:0:{route}:0:{d18}:g:m:z2~z1@1,0,0:k=owner,tenant,tenant/f=k2;fx:0:{route}:0:{d18}:g:n:z1,z2:- 1 {housing}",
                        payload={"style": 5}, tags=("corpus", "F-C07b")))
    # F-C07c: declared after_1990, before_1980, after_1980
    asof = f"N 1 h N 3 after_1990_01_01 P {d15}:3 before_1980_01_01 P {d15}:1 after_1980_01_01 P {d15}:2"
    ds = ",".join(str(o(x)) for x in ("1979-12-31", "1980-01-01", "1989-12-31", "1990-01-01", "2020-05-05"))
    for route, style in (("v", 6), ("t", 8), ("f", 10), ("g", 12)):
        out.append(Case(line=f"pview h 0 ao:0:{route}:0:{d18}:h:{ds}:- 1 {asof}", payload={"style": style}, tags=("corpus", "F-C07c")))
    # F-C07d: nested as-of groups indexed by two date vectors — the second index read the first row only
    asof2 = (f"N 1 h N 2 before_1980_01_01 N 2 before_2000_01_01 P {d15}:1 after_2000_01_01 P {d15}:2 "
             f"after_1980_01_01 N 2 after_2000_01_01 P {d15}:4 before_2000_01_01 P {d15}:3")
    b1 = ",".join(str(o(x)) for x in ("1970-01-01", "1990-01-01", "1990-01-01"))
    b2 = ",".join(str(o(x)) for x in ("1999-01-01", "1999-01-01", "2005-01-01"))
    for route, style in (("v", 40), ("t", 41), ("f", 42), ("g", 43)):
        out.append(Case(line=f"pview h 0 ao:0:{route}:0:{d18}:h:{b1}:d={b2} 1 {asof2}", payload={"style": style}, tags=("corpus", "F-C07d")))
    # ... and was right when every row of the first index is the same child
    b1s = ",".join(str(o(x)) for x in ("1990-01-01", "1985-01-01", "2010-01-01"))
    out.append(Case(line=f"pview h 0 ao:0:v:0:{d18}:h:{b1s}:d={b2};ao:0:g:0:{d18}:h:{b1s}:d={b2} 1 {asof2}", payload={"style": 44}, tags=("corpus", "asof-chained")))
    for c in out:
        c.origin = "corpus"
    return out


def neighbours(case: Case):
    """every prefix of the history, and the history with each single operation removed"""
    try:
        parse_line(case.line)
    except Malformed:
        return []
    f = case.line.split()
    ops = f[3].split(";")
    out = []
    for cut in range(1, len(ops)):
        cand = " ".join(f[:3] + [";".join(ops[:cut])] + f[4:])
        out.append(cand)
    for j in range(len(ops)):
        if not ops[j].startswith("nr") and len(ops) > 1:
            out.append(" ".join(f[:3] + [";".join(ops[:j] + ops[j + 1:])] + f[4:]))
    res = []
    for l in out:
        try:
            parse_line(l)
        except Malformed:
            continue
        res.append(Case(line=l, payload=case.payload, claimed=True, tags=("neighbour",)))
    return res


PROP = Prop(
    unclaimed_diffs_binding=True,   # the model transcribes the code outside the claim domain too (0 differences on every run):
                                    # `claimed=False` silences the oracle only
    pid="C07",
    lean_targets=["OFCore.Props.C07", "OFCore.Drv.PView"],
    driver="ofdrv_pview",
    generate=generate, impl=impl, oracle=oracle, nontrivial=nontrivial,
    corpus=corpus, neighbours=neighbours, canon_equal=canon_equal, enumerate_thorough=enumerate_thorough,
    extra_lean_files=["OFCore/ParamView.lean", "OFCore/Lemmas/ParamView.lean", "OFCore/Drv/PView.lean"],
    rule=("one protocol line = one process history: a TaxBenefitSystem given a synthetic ParameterNode tree (depth <= 3; homogeneous "
          "groups of 2-4 zones x 2-3 tenures [x 2 sub-keys], integer-named groups, before_/after_ groups in shuffled declaration "
          "order, plain parameters, a sub-node, sometimes a scale and an inhomogeneous group; children declared in a shuffled order) "
          "either by direct assignment on the fresh system or by load_parameters on a temporary YAML directory (files and "
          "sub-directories), then 4-12 operations: reads through the at-instant view (instant spelled as ISO string, Instant, "
          "'YYYY-MM' / 'YYYY' strings, day/month/year Periods, Periods of several days or months, int year), through the parameter object (call or get_at_instant), through a formula's "
          "`parameters` argument of a fresh simulation, untraced and traced (with the tracer's parameter log); real Reform subclasses "
          "whose apply() bodies read before and after modify_parameters (update by period / start+stop / start only, 1-3 updates, "
          "a modifier returning another tree, a modifier returning a non-node; 0-3 reads of the reform's, its baseline's or "
          "another system's view or of all four routes made BY THE MODIFIER while it runs, before, between and after its edits of "
          "the copied tree, in every spelling of the instant, each followed after the modification by the same read with the "
          "same spelling; the same reads made by a preprocess_parameters hook inside load_parameters), modify_parameters called again later, reforms of "
          "reforms, load_parameters on baselines and reforms; reads come back to the same instants ('read, modify, read again'); "
          "load_extension of generated packages on baselines and reforms (fresh names, names already present, objects shared by several "
          "systems), sub-trees added by a modifier with add_child, the root baseline's view (_get_baseline_parameters_at_instant), second "
          "reads of every route after each change on the changed system, on a system sharing its tree object and on its baseline; formula "
          "reads on fresh simulations and on simulations created before the change; more distinct reads than the memo holds; "
          "vector reads node[keys] with 0-8 keys as str / object / bytes arrays, Enum members, EnumArray, integers of every width, "
          "datetime64 vectors in units D/h/m/s/ms/us/ns/M/Y with and without a time of day, followed by .name, ['name'] or a "
          "second key vector, and node[datetime64 vector] with dates at the after_ boundaries +-1, through all four routes; 15% of the as-of groups hold "
          "as-of groups (birth date, claim date) and are indexed by two date vectors in a row (same length, length 1, one more), the first one "
          "sometimes constant; attribute paths are walked by attribute or by item (`x['a']` on a node at an instant and on its tracing wrapper, "
          "`x.children['a']` on a ParameterNode); modifiers and hooks also update the dated fields of scale brackets (`scale.brackets[i].rate.update(…)`, half of "
          "the updates when the tree has a scale, a quarter of the trees); 30% of the load_parameters calls with a hook have a hook that EDITS the tree it is handed "
          "(1-2 updates) or RETURNS ANOTHER tree (the return value must be the one installed); 30% of the untraced vector reads are repeated after "
          "the array that came back was overwritten with zeros (a result must not share memory with what later reads are made from), and every key "
          "vector is compared with a copy after the read; system.clone() after views were read, followed by a modification, reload or extension of the clone "
          "or of the original and reads of both. "
          "A case is non-trivial when it shows at least two distinct values. distinct = distinct protocol lines."),
    assumptions=[
        "instants are proleptic ordinals in the model and zero-padded ISO strings in the code (same order on years 1..9999, Lemmas/Calendar.lean)",
        "a numpy record array is modelled as a list of rows and a float array as a list of exact rationals; values are ints or dyadic "
        "floats, exactly representable as float64 (recarray mechanics, numpy.select, broadcasting and datetime64 comparison are modelled, tied by this correspondence)",
        "functools.lru_cache is modelled as a most-recently-used list of at most 128 entries keyed by (system, spelling of the instant, date); "
        "the theorems hold for any capacity",
        "tree objects have an identity in the model: a reform refers to its baseline's object until one of them replaces its tree "
        "(Reform.modify_parameters installs a deep copy, load_parameters a new tree); load_extension merges IN PLACE into that object, "
        "after giving a reform (any system with a baseline) a copy of its own (repairs C14f/C14g): only a root system's object is changed in place "
        "(real importable packages are built in a temporary directory; os.listdir is pinned to the declared order for the extension's "
        "parameters directory, because the merge stops at the first name already present); assigning `system.parameters = …` on a system "
        "whose view was already read, and in-place edits of a live tree by other means, are not documented routes and are not generated",
        "user code can run in the middle of a modification in two places only: the modifier function of Reform.modify_parameters and the "
        "preprocess_parameters hook of load_parameters (a plain caller cannot interleave a read with load_parameters); both are modelled as "
        "programs that read the process while the former tree is in place (ModProg), and the memo is emptied after the new tree is installed; "
        "modifiers that themselves modify or reload systems (nested modifications) are not modelled",
        "as-of-date groups: the model orders after_ names as strings like the code; C07_asof_pointwise assumes the names order like their "
        "dates, which holds for the zero-padded after_YYYY_MM_DD spelling generated here",
        "claim domain of vector reads: level-uniform (homogeneous) groups, 1-D key vectors, keys that name a child defined at the date; "
        "as-of groups with exactly one before_ child and distinct canonical after_ dates; everything else is compared with the model but the oracle is silent",
        "child names avoid attributes of numpy.recarray / ParameterNode (`shape`, `name`, …)",
    ],
    partial_theorems=[],
    exhaustive_note=("thorough: (a) all 2! + 3! + 4! declaration orders of an as-of group with 1-3 after_ children, plain and nested, "
                     "read at every boundary date -1/0/+1 (and years 1000, 2030) through the four routes; (b) all 2800 sequences of "
                     "1-4 operations over {read baseline, read reform, modify reform, modify reform with reads nested in the modifier, "
                     "reload baseline, reload reform, reload reform with a reading preprocess_parameters hook} after both systems were read once"),
    level_text=("T-full on the model: for every finite history of reads, reform creations, modifiers and reloads the memoised view is the "
                "snapshot of the current tree; view / parameter object / formula / traced formula agree; the tracing wrapper only appends "
                "to its log; vector indexing is element-wise the child's value with its exact error condition; as-of-date indexing returns "
                "the child in force whatever the declaration order; a reform's modification leaves every other system's reads unchanged; "
                "modify_parameters / load_parameters as ordered sub-steps (copy, user function with arbitrary nested reads, install, clear): "
                "whatever was read meanwhile, every route reads the new tree afterwards; chained as-of-date indexing is row by row the child in "
                "force (the F-C07d repair); system.clone() reads the tree it copied and spares everybody. "
                "K: real TaxBenefitSystem / Reform / Simulation objects against the model; numpy recarray mechanics modelled."),
)
