"""C05 — period and instant text forms round-trip and are canonical."""
from __future__ import annotations

import datetime as dt
import random
import re

from ..core import Case, Prop
from ..perutil import DATED, O, align, end_ord, fmt_date, fmt_period, parse_date, parse_period_token, some_date

ALPHABET = "0123456789-:W.+_ abcdefghijklmnopqrstuvwxyzETRNIY"
REDUCED = "019-:W"


def hx(s: str) -> str:
    return s.encode("ascii").hex()


def unhx(h: str) -> str:
    return bytes.fromhex(h).decode("ascii")


OTHERS = ["float", "npint", "dict", "set", "mixed", "nested", "strseq", "floatseq", "npseq", "rawperiod", "object", "frozenset", "gen"]


def _pyval(tok: str):
    """the argument of periods.instant / periods.period as the line writes it"""
    import datetime
    import numpy
    import pendulum
    from openfisca_core.periods import DateUnit, Instant
    if tok == "N":
        return None
    k, _, v = tok.partition(":")
    ints = lambda t: [int(x) for x in t.split(",")] if t else []
    if k == "I":
        return int(v)
    if k == "S":
        return unhx(v)
    if k == "E":
        return DateUnit(v)
    if k == "T":
        return Instant(parse_date(v))
    if k == "P":
        return parse_period_token(v)
    if k == "D":
        return datetime.date(*parse_date(v))
    if k == "DP":
        return pendulum.date(*parse_date(v))
    if k == "DT":
        return datetime.datetime(*parse_date(v), 13, 37)
    if k == "L":
        return ints(v)
    if k == "U":
        return tuple(ints(v))
    if k == "B":
        return bytes.fromhex(v)
    if k == "R":
        return range(int(v))
    if k == "F":
        return float(v)
    if k == "O":
        return {"float": 2021.0, "npint": numpy.int64(2021), "dict": {2021: 1}, "set": {2021}, "mixed": (2021, "9"),
                "nested": ((2021, 1, 1),), "strseq": ("2021",), "floatseq": [2021.0, 1.0], "npseq": (numpy.int64(2021), numpy.int64(3)),
                "rawperiod": (DateUnit.YEAR, Instant((2021, 1, 1)), 1), "object": object(), "frozenset": frozenset({2021}),
                "gen": (x for x in (2021, 1))}[v]
    raise ValueError(tok)


def _elems(t) -> str:
    return ",".join(str(int(x)) for x in t)


def impl(case: Case) -> str:
    from openfisca_core import periods
    from openfisca_core.periods import Instant
    f = case.line.split()
    op = f[1]
    if op in ("mkinstant", "mkperiod", "idate"):
        v = _pyval(f[2])
        if op == "idate":
            # instant_date keeps a cache shared with Instant.date: asked on a date it has not seen, then again
            try:
                if v is not None:
                    periods.config.date_by_instant_cache.pop(v, None)
            except Exception:
                pass
            outs = []
            for _ in range(2):
                try:
                    d = periods.instant_date(v)
                    outs.append("none" if d is None else fmt_date((d.year, d.month, d.day)))
                except Exception:
                    outs.append("ERR")
            return outs[0] if outs[0] == outs[1] else f"{outs[0]}#AGAIN:{outs[1]}"
        try:
            if op == "mkinstant":
                r = periods.instant(v)
                return _elems(r) if type(r) is Instant else f"NOT-INSTANT:{type(r).__name__}"
            r = periods.period(v)
            if type(r) is not periods.Period or type(r.start) is not Instant:
                return f"NOT-PERIOD:{type(r).__name__}"
            return f"{str(r.unit)}/{_elems(r.start)}/{r.size}"
        except Exception:
            return "ERR"
    if op in ("punit", "pperiod"):
        from openfisca_core.periods import _parsers
        s = unhx(f[2]) if len(f) > 2 else ""
        try:
            return str(_parsers.parse_unit(s)) if op == "punit" else fmt_period(_parsers.parse_period(s))
        except Exception:
            return "ERR"
    if op == "parse":
        s = unhx(f[2]) if len(f) > 2 else ""
        try:
            return fmt_period(periods.period(s))
        except Exception:
            return "ERR"
    if op == "instant":
        s = unhx(f[2]) if len(f) > 2 else ""
        try:
            return fmt_date(tuple(periods.instant(s)))
        except Exception:
            return "ERR"
    if op == "rt":
        p = parse_period_token(f[2])
        t = str(p)
        try:
            q = periods.period(t)
        except Exception:
            return f"{hx(t)}|ERR"
        return f"{hx(t)}|{fmt_period(q)}|{hx(str(q))}"
    if op in ("disk", "diske"):
        # the text form as a storage file name: OnDiskStorage.put writes <str(period)>.npy, a second
        # store on the same directory restores its keys by parsing the file names back
        import os
        import shutil
        import tempfile
        import numpy
        from openfisca_core.data_storage import OnDiskStorage
        p = parse_period_token(f[2])
        d = tempfile.mkdtemp(prefix="ofv_c05_")
        try:
            eternal = op == "diske"
            a = OnDiskStorage(d, is_eternal=eternal, preserve_storage_dir=True)
            val = numpy.asarray([1.5, 2.5])
            a.put(val, p)
            names = sorted(os.listdir(d))
            if len(names) != 1 or not names[0].endswith(".npy"):
                return f"FILES:{names}"
            t = names[0][:-4]
            with open(os.path.join(d, "NOTES.txt"), "w") as fh:      # restore only looks at the .npy files
                fh.write("not a stored value")
            b = OnDiskStorage(d, is_eternal=eternal, preserve_storage_dir=True)
            try:
                b.restore()
            except Exception:
                return f"{hx(t)}|ERR"
            keys = list(b.get_known_periods())
            if len(keys) != 1:
                return f"{hx(t)}|KEYS:{len(keys)}"
            q = keys[0]
            got = b.get(q)
            if got is None or not numpy.array_equal(got, val) or a.get(p) is None or not numpy.array_equal(a.get(p), val):
                return f"{hx(t)}|VALUE-LOST"
            return f"{hx(t)}|{fmt_period(q)}|{hx(str(q))}"
        finally:
            shutil.rmtree(d, ignore_errors=True)
    if op == "pair":
        return f"{hx(str(parse_period_token(f[2])))}|{hx(str(parse_period_token(f[3])))}"
    if op == "irt":
        i = Instant(parse_date(f[2]))
        t = str(i)
        try:
            return f"{hx(t)}|{fmt_date(tuple(periods.instant(t)))}"
        except Exception:
            return f"{hx(t)}|ERR"
    if op == "ispell":
        # order matters (memoised texts): the ISO WEEK-date spelling is parsed FIRST, then the instant is printed,
        # parsed from its ISO date, printed, built from its tuple, printed, and the first one printed again
        y, m, d = parse_date(f[2])
        iso = dt.date(y, m, d).isocalendar()
        try:
            a = periods.instant(f"{iso[0]:04d}-W{iso[1]:02d}-{iso[2]}")
            ta = str(a)
            b = periods.instant(f"{y:04d}-{m:02d}-{d:02d}")
            tb = str(b)
            tc = str(Instant((y, m, d)))
            return "|".join(hx(t) for t in (ta, tb, tc, str(a)))
        except Exception:
            return "ERR"
    if op == "istr":
        return hx(str(Instant(parse_date(f[2]))))
    raise ValueError(op)


def _pt(tok):
    u, d, n = tok.split("/")
    return u, parse_date(d), int(n)


FINER_RANK = {"day": 0, "weekday": 0, "week": 1, "month": 2, "year": 3}


def oracle(case: Case, out: str):
    f = case.line.split()
    op = f[1]
    if op in ("rt", "disk") and case.claimed and "eternity" not in case.tags:
        u, s, n = _pt(f[2])
        parts = out.split("|")
        if out.startswith("FILES:") or parts[1].startswith(("KEYS:", "VALUE-LOST")):
            return ("disk-store-lost", f"storing a value for {f[2]} on disk and restoring the directory: {out}")
        text = unhx(parts[0])
        if parts[1] == "ERR":
            return ("roundtrip-reject", f"str gives {text!r}, which is refused when parsed back")
        u2, s2, n2 = _pt(parts[1])
        if u2 == "eternity":
            return ("roundtrip-days", f"{text!r} parses to eternity")
        if O(s2) != O(s) or end_ord(u2, s2, n2) != end_ord(u, s, n):
            return ("roundtrip-days", f"{text!r} parses to {parts[1]}, which does not cover the same days as {f[2]}")
        if u2 != u and not (u == "month" and n == 12 and u2 == "year" and n2 == 1):
            return ("roundtrip-unit", f"{text!r} parses to unit {u2}")
        if parts[2] != parts[0]:
            return ("roundtrip-reprint", f"{text!r} reprints as {unhx(parts[2])!r}")
    elif op == "diske":
        parts = out.split("|")
        if out.startswith("FILES:") or len(parts) < 3 or parts[1] == "ERR" or parts[1].startswith(("KEYS:", "VALUE-LOST")):
            return ("disk-store-lost", f"storing a value for {f[2]} in an eternal store on disk and restoring the directory: {out}")
    elif op == "idate":
        if "#AGAIN:" in out:
            a, b = out.split("#AGAIN:")
            return ("instant-date-repeat", f"instant_date({f[2]}) answered {a}, then {b}")
    elif op == "pair" and case.claimed:
        a, b = out.split("|")
        if f[2] != f[3] and a == b:
            return ("print-collision", f"{f[2]} and {f[3]} both print as {unhx(a)!r}")
    elif op == "ispell":
        want = "%04d-%02d-%02d" % parse_date(f[2])
        if out == "ERR" or any(unhx(t) != want for t in out.split("|")):
            return ("instant-text", f"the instant {f[2]} parsed from its spellings prints as {[unhx(t) for t in out.split('|')] if out != 'ERR' else out}, not {want!r}")
    elif op == "irt":
        t, r = out.split("|")
        if r != f[2]:
            return ("instant-roundtrip", f"{f[2]} prints {unhx(t)!r} parses to {r}")
    elif op == "parse":
        want = dict(case.tags and [t.split("=", 1) for t in case.tags if "=" in t] or [])
        cls = want.get("must")
        if cls and out != "ERR":
            s = unhx(f[2]) if len(f) > 2 else ""
            if cls == "reject-finer-unit" and re.fullmatch(r"week:\d{4}-\d{2}(:.*)?", s):
                return ("accepts-finer-unit:week:<YYYY-MM>", f"{s!r} accepted as {out}")
            return (f"accepts:{cls}", f"{s!r} accepted as {out}")
    return None


def nontrivial(case: Case, out: str) -> bool:
    return out != "ERR" or "must=" in " ".join(case.tags)


def _tok(u, s, n):
    return f"{u}/{fmt_date(s)}/{n}"


def _aligned_period(rng):
    u = rng.choice(DATED)
    s = align(u, some_date(rng, 1000, 9990))
    if s[0] < 1000:
        s = align(u, (1000 + rng.randint(0, 5), s[1], min(s[2], 28)))
    if u == "year" and rng.random() < 0.5:
        s = (s[0], 1, 1)
    n = rng.choice([1, 1, 1, 2, 3, 7, 9, 10, 11, 12, 13, 24, 52, 53, 99, 100, 365, rng.randint(1, 500)])
    return u, s, n


def valid_strings(rng, u, s, n):
    """spellings of a period the grammar accepts"""
    y, m, d = s
    iso = dt.date(y, m, d).isocalendar()
    out = []
    ymd = f"{y:04d}-{m:02d}-{d:02d}"
    ym = f"{y:04d}-{m:02d}"
    yw = f"{iso[0]:04d}-W{iso[1]:02d}"
    ywd = f"{yw}-{iso[2]}"
    out += [ymd, ym, f"{y:04d}", yw, ywd]
    for unit in DATED:
        for base in (ymd, ym, f"{y:04d}", yw, ywd):
            out.append(f"{unit}:{base}")
            out.append(f"{unit}:{base}:{n}")
    out += ["ETERNITY", "eternity", "Eternity"]
    return out


def must_reject(rng, s, n):
    y, m, d = s
    out = []
    # impossible calendar dates
    for bad in (f"{y:04d}-02-30", f"{y:04d}-04-31", f"{y:04d}-13", f"{y:04d}-00", f"{y:04d}-{m:02d}-32", f"{y:04d}-{m:02d}-00",
                f"{y:04d}-W54", f"{y:04d}-W00", f"{y:04d}-W10-8", f"{y:04d}-W10-0", f"day:{y:04d}-02-30:{n}"):
        out.append((bad, "reject-impossible-date"))
    if dt.date(y, 12, 28).isocalendar()[1] == 52:
        out.append((f"{y:04d}-W53", "reject-impossible-date"))
        out.append((f"week:{y:04d}-W53-1:2", "reject-impossible-date"))
    if not (y % 4 == 0 and (y % 100 != 0 or y % 400 == 0)):
        out.append((f"{y:04d}-02-29", "reject-impossible-date"))
    # unit finer than the precision of the date
    ym, yy, yw = f"{y:04d}-{m:02d}", f"{y:04d}", f"{y:04d}-W10"
    for unit, base in (("day", yy), ("day", ym), ("day", yw), ("weekday", yy), ("weekday", ym), ("weekday", yw),
                       ("month", yy), ("week", yy), ("week", ym)):
        out.append((f"{unit}:{base}", "reject-finer-unit"))
        out.append((f"{unit}:{base}:{n}", "reject-finer-unit"))
    # non-integer size
    for sz in ("1.5", "x", "", "1e3", "0x10", "--1", "1__0", "_1", "1_", "3.0", " "):
        out.append((f"month:{ym}:{sz}", "reject-non-integer-size"))
    # unknown unit
    for unit in ("months", "MONTH", "Month", "decade", "", "eternity", "ETERNITY", "m", "year "):
        out.append((f"{unit}:{ym}", "reject-unknown-unit"))
        out.append((f"{unit}:{ym}:{n}", "reject-unknown-unit"))
    # extra fields
    out.append((f"month:{ym}:{n}:1", "reject-extra-fields"))
    out.append((f"month:{ym}:{n}:", "reject-extra-fields"))
    out.append((f"year:{yy}:1:2:3", "reject-extra-fields"))
    return out


def mutate(rng, s):
    k = rng.random()
    i = rng.randrange(len(s) + 1)
    c = rng.choice(ALPHABET)
    if k < 0.34 and s:
        i = min(i, len(s) - 1)
        return s[:i] + s[i + 1:]
    if k < 0.67 and s:
        i = min(i, len(s) - 1)
        return s[:i] + c + s[i + 1:]
    return s[:i] + c + s[i:]


def constructor_cases(rng, u, s, n):
    """periods.instant / periods.period / instant_date on every argument type they accept (and some they refuse)"""
    y, m, d = s
    ptok = _tok(u, s, n)
    iso = dt.date(y, m, d).isocalendar()
    texts = [f"{y:04d}", f"{y:04d}-{m:02d}", f"{y:04d}-{m:02d}-{d:02d}", f"{iso[0]:04d}-W{iso[1]:02d}", f"{iso[0]:04d}-W{iso[1]:02d}-{iso[2]}",
             f"{u}:{y:04d}-{m:02d}-{d:02d}:{n}", str(y), f" {y}", "eternity", "ETERNITY", "year", ""]
    vals = ["N", f"I:{y}", f"I:{rng.choice([0, -1, 1, 999, 10000, 99999, y + 1])}", f"T:{y},{m},{d}", f"P:{ptok}", "P:eternity/-1,-1,-1/-1",
            f"D:{y},{m},{d}", f"DP:{y},{m},{d}", f"DT:{y},{m},{d}",
            f"L:{y}", f"L:{y},{m}", f"L:{y},{m},{d}", f"L:{y},{m},{d},{n}", f"U:{y}", f"U:{y},{m}", f"U:{y},{m},{d}", f"U:{y},{m},{d},7,9",
            "L:", "U:", f"L:{rng.randint(-5, 12000)},{rng.randint(-2, 14)}", f"U:{y},{rng.randint(0, 13)},{rng.randint(0, 32)}",
            f"T:{y},{rng.randint(0, 13)},{rng.randint(0, 32)}", "T:-1,-1,-1", f"B:{hx(str(y))}", "B:", f"R:{rng.randint(0, 5)}",
            "O:" + rng.choice(OTHERS), "O:" + rng.choice(OTHERS), "E:" + rng.choice(DATED + ["eternity"])]
    vals += ["S:" + hx(t) for t in rng.sample(texts, 5)]
    # the same date handed over as every type in turn, forwards and backwards, within one process: a result remembered
    # under a key that forgets the TYPE of the argument (2021 / "2021" / (2021,) / Instant / date / datetime, a tuple that
    # equals an Instant, the same text in another case) would answer for the wrong one
    same = [f"I:{y}", f"F:{y}.0", "S:" + hx(f"{y:04d}"), f"U:{y}", f"L:{y}", f"T:{y},1,1", f"U:{y},1,1", f"D:{y},1,1", f"DT:{y},1,1", f"DP:{y},1,1",
            f"P:year/{y},1,1/1", f"P:day/{y},1,1/1", f"P:year/{y},1,1/2", "S:" + hx(f"{y:04d}-01"), "S:" + hx(f"{y:04d}-01-01"),
            "S:" + hx(f"year:{y:04d}"), "S:" + hx(f"day:{y:04d}-01-01"), "S:" + hx(f"year:{y:04d}:2"), "S:" + hx("eternity"), "E:eternity",
            "S:" + hx("ETERNITY"), "P:eternity/-1,-1,-1/-1", "T:-1,-1,-1", "U:-1,-1,-1", "N"]
    vals += same + same[::-1]
    out = []
    for v in vals:
        out.append(Case(line=f"txt mkinstant {v}", tags=("mkinstant", v.split(":")[0])))
        out.append(Case(line=f"txt mkperiod {v}", tags=("mkperiod", v.split(":")[0])))
    for v in same + same[::-1]:       # and each constructor alone over the whole sequence
        out.append(Case(line=f"txt mkperiod {v}", tags=("mkperiod", "seq")))
    for v in same[::-1] + same:
        out.append(Case(line=f"txt mkinstant {v}", tags=("mkinstant", "seq")))
    for v in ("N", f"T:{y},{m},{d}", f"T:{y},{rng.randint(0, 13)},{rng.randint(27, 32)}", "T:-1,-1,-1", f"T:{rng.choice([0, 10000, y])},1,1"):
        out.append(Case(line=f"txt idate {v}", tags=("idate",)))
    return out


def _parse_case(s, tags=(), claimed=True):
    return Case(line=("txt parse " + hx(s)).strip(), claimed=claimed, tags=("parse",) + tuple(tags))


def _size_claimed(s):
    """Appendix A: sizes <= 0 and Python int() oddities in the size field are answered but not binding"""
    parts = s.split(":")
    if len(parts) == 3:
        z = parts[2]
        if not re.fullmatch(r"[1-9][0-9]*", z):
            return bool(re.fullmatch(r"[^0-9+\-_ ]*", z)) or z == ""   # clearly non-numeric: still binding (must reject)
    return True


def generate(rng: random.Random, tier: str):
    out = []
    n_per = 12000 if tier == "quick" else 60000
    n_str = 1200 if tier == "quick" else 15000
    for _ in range(n_per):
        u, s, n = _aligned_period(rng)
        p = _tok(u, s, n)
        out.append(Case(line=f"txt rt {p}", tags=("rt", u)))
        if rng.random() < 0.4:
            out.append(Case(line=f"txt disk {p}", tags=("disk", u)))
        out.append(Case(line=f"txt irt {fmt_date(s)}", tags=("irt",)))
        if rng.random() < 0.04:
            out.append(Case(line=f"txt diske {p}", tags=("diske", u)))
        if rng.random() < 0.07:
            out += constructor_cases(rng, u, s, n)
        if rng.random() < 0.5:
            out.append(Case(line=f"txt ispell {fmt_date(s)}", tags=("ispell",)))
        # a neighbour of the same unit that differs in start or size
        if rng.random() < 0.5:
            q = _tok(u, s, rng.choice([n + 1, max(1, n - 1), 12, 1, n * 10, n + 10]))
        else:
            x = dt.date(*s)
            step = rng.choice([1, 7, 28, 29, 30, 31, 365, 366, -1, -7, 364, 371])
            try:
                x2 = x + dt.timedelta(days=step)
                s2 = align(u, (x2.year, x2.month, x2.day))
            except (ValueError, OverflowError):
                s2 = s
            if s2[0] < 1000 or s2[0] > 9990:
                s2 = s
            if u == "year" and s[1] == 1:
                s2 = (s2[0], 1, 1) if rng.random() < 0.7 else s2
            q = _tok(u, s2, n)
        out.append(Case(line=f"txt pair {p} {q}", tags=("pair", u)))
        # unaligned printing: compared with the model, not binding
        if rng.random() < 0.2:
            u3 = rng.choice(DATED)
            s3 = some_date(rng, 1000, 9990)
            out.append(Case(line=f"txt rt {_tok(u3, s3, n)}", claimed=False, tags=("rt-unaligned",)))
        if rng.random() < 0.05:
            out.append(Case(line=f"txt rt {_tok(u, s, rng.choice([0, -1, -12]))}", claimed=False, tags=("rt-size<=0",)))
    for _ in range(n_str):
        u, s, n = _aligned_period(rng)
        vs = valid_strings(rng, u, s, n)
        for v in vs:
            out.append(_parse_case(v, ("valid-form",)))
        for v, cls in must_reject(rng, s, n):
            out.append(_parse_case(v, ("must=" + cls,)))
        for v in rng.sample(vs, 12):
            for _ in range(3):
                mu = mutate(rng, v)
                out.append(_parse_case(mu, ("mutation",), claimed=_size_claimed(mu)))
        # short tails over the reduced alphabet appended to valid prefixes
        pre = rng.choice([f"{s[0]:04d}", f"{s[0]:04d}-", f"{s[0]:04d}-W", f"month:{s[0]:04d}-{s[1]:02d}:", f"{s[0]:04d}-{s[1]:02d}-", "week:", f"{s[0]:04d}-W5"])
        for _ in range(10):
            tail = "".join(rng.choice(REDUCED) for _ in range(rng.randint(0, 4)))
            out.append(_parse_case(pre + tail, ("tail",), claimed=_size_claimed(pre + tail)))
        for v in rng.sample(vs, 4):
            out.append(Case(line="txt instant " + hx(v), tags=("instant",)))
            out.append(Case(line="txt instant " + hx(mutate(rng, v)), tags=("instant-mutation",)))
        # _parsers.parse_unit / parse_period called directly (not only behind helpers.period's own tests)
        for v in rng.sample(vs, 6):
            for w in (v, mutate(rng, v)):
                out.append(Case(line=("txt punit " + hx(w)).strip(), tags=("punit",)))
                out.append(Case(line=("txt pperiod " + hx(w)).strip(), tags=("pperiod",)))
    out.append(_parse_case("", ("empty",)))
    return out


def enumerate_thorough():
    """all strings of length <= 4 over the reduced alphabet appended to a set of valid prefixes"""
    import itertools
    out = []
    prefixes = ["2015", "2015-", "2015-W", "2016-W5", "2015-0", "2015-02-", "2016-02-2", "month:2015-01:", "week:2015-W", "day:2015-12-3"]
    for pre in prefixes:
        for L in range(0, 5):
            for tail in itertools.product(REDUCED, repeat=L):
                s = pre + "".join(tail)
                out.append(_parse_case(s, ("enum",), claimed=_size_claimed(s)))
    return out


def corpus():
    out = []
    for s in ["week:2015-01", "week:2015-01:3", "2015-W53", "2016-W53", "2015-3", "year:2015-03", "month:2015-01:12", "2020-02-29",
              "2019-02-29", "ETERNITY", "eternity", "day:2015", "month:2014", "0999", "year:2015:+3", "year:2015:1_0", "month:2015-01: 3",
              "2015-W01-1", "weekday:2015-W01-1:3", "week:2014-12-29:2", "2015\n"]:
        cls = ()
        if s.startswith("week:2015-01"):
            cls = ("must=reject-finer-unit",)
        if "\n" in s:
            continue
        out.append(_parse_case(s, ("corpus",) + cls, claimed=_size_claimed(s)))
    for p in ["month/2015,1,1/12", "year/2015,1,1/1", "year/2015,3,1/1", "week/2015,12,28/1", "week/2014,12,29/2", "weekday/2021,1,3/8",
              "week/2020,12,28/1", "day/2000,2,29/1", "year/1000,1,1/9", "month/9990,12,1/1"]:
        out.append(Case(line=f"txt rt {p}", tags=("rt", "corpus")))
        out.append(Case(line=f"txt disk {p}", tags=("disk", "corpus")))
    # the ETERNITY period prints as ETERNITY and parses back (outside the statement's aligned dated periods:
    # binding for the correspondence, the oracle is silent)
    out.append(Case(line="txt rt eternity/-1,-1,-1/-1", tags=("rt", "corpus", "eternity")))
    out.append(Case(line="txt disk eternity/-1,-1,-1/-1", tags=("disk", "corpus", "eternity")))
    out.append(Case(line="txt diske month/2015,1,1/1", tags=("diske", "corpus")))
    out.append(Case(line="txt diske eternity/-1,-1,-1/-1", tags=("diske", "corpus")))
    out += constructor_cases(random.Random(5), "month", (2015, 1, 1), 3)
    out += constructor_cases(random.Random(6), "week", (2020, 12, 28), 1)
    for t in ["2015-3", "2015", "2015-W53", "2015-W53-7", "2015-02-30", "abc", "2015-1", "2015-W01-8", "month:2015-01"]:
        out.append(Case(line="txt punit " + hx(t), tags=("punit", "corpus")))
        out.append(Case(line="txt pperiod " + hx(t), tags=("pperiod", "corpus")))
    return out


PROP = Prop(
    pid="C05",
    lean_targets=["OFCore.Props.C05"],
    unclaimed_diffs_binding=True,   # the model is a transcription outside the claim domain too (0 differences on every run so far)
    generate=generate, impl=impl, oracle=oracle, nontrivial=nontrivial, corpus=corpus,
    enumerate_thorough=enumerate_thorough,
    rule=("(i) print->parse->print (`txt rt`) on aligned periods of all units, sizes 1..500, years 1000..9990 with the C04 boundary pool; "
          "instant round trips; pairs of neighbouring periods of one unit (collision search); (ii) `txt parse` on every valid spelling of a "
          "period, on strings built to fall in each rejection class of the statement (impossible date, finer unit, non-integer size, unknown "
          "unit, extra fields), on single-edit mutations over the alphabet 0-9 - : W . + _ space a-z, and on short tails over {0,1,9,-,:,W} "
          "appended to valid prefixes; (iii) `txt disk`: the text form as a storage file name -- OnDiskStorage.put writes <str(period)>.npy in a "
          "real directory (beside a file that is not a stored value), a second store restores its keys by parsing the file names back; `txt diske`: the same with stores "
          "created with is_eternal=True (everything is filed under ETERNITY); (iv) `txt mkinstant / mkperiod <value>`: periods.instant and periods.period on every "
          "argument type -- None, int, str, DateUnit member, Instant, Period, datetime.date, pendulum.Date, datetime.datetime, lists and tuples of 0..5 ints "
          "(padding with ones, cut after the third), bytes, range, and things that are refused (float, numpy integer, dict, set, sequences holding a str / a float / "
          "a numpy integer, a raw (unit, instant, size) tuple, a generator); `txt idate`: instant_date on None, real and impossible instants, asked twice from "
          "an empty cache; `txt punit / pperiod`: _parsers.parse_unit / parse_period called directly on valid spellings and their mutations. Non-trivial = accepted by the parser or built for a rejection class; distinct = distinct lines."),
    assumptions=[
        "pendulum.parse(exact=True) calendar validity, Python re on the two ISO expressions and int() literal syntax are modelled on the ASCII alphabet (PeriodText.lean), tied by this correspondence",
        "periods.instant / periods.period / instant_date on non-text arguments, key spellings of the constructors and the direct parser calls carry no statement of their own: "
        "the oracle is silent, the correspondence with instantOf / periodOf / instantDate / parseUnit / parseIsoPeriod (PeriodText.lean, Period.lean) is binding; bool arguments are not generated",
        "claim domain: aligned periods of size >= 1, years 1000..9999, rejection classes of the statement; sizes <= 0, int() oddities (+3, 1_0, blanks), unaligned printing are compared but not binding",
    ],
    exhaustive_note="thorough: all tails of length <= 4 over {0,1,9,-,:,W} after 10 valid prefixes",
)
