"""C20 — the web API and YAML tests report exactly what the engine computes.

Protocol (one self-contained case per line, see lean/OFCore/OFCore/Drv/Api.lean):

    api calc  <world> R <J>                  -> OK <J> | ERR
    api trace <world> R <J>                  -> OK E <J> Q <s…>* T (<key> <J>)* | ERR
    api seq   C|T <world> R <J> (;; …)*      -> <answer> (;; <answer>)*
    api yaml  <world> Y <test> (;; …)*       -> PASS|FAIL …
    api phist <ord:val,…> <probe,…>          -> served history | API reading at each probe
    api vforms <ord,…> <end|-> <probe,…>     -> served formulas | formula in force at each probe
    api scale <thr~val;…> <probe,…>          -> served rows of /parameter/<scale> | brackets in force at each probe
    api params <J>                           -> ids listed by /parameters
    api echo <text>                          -> <text>   (listing / application cases carried by the oracle only)

Round 2, carried by the adapter and the oracle (no model): every answer of /calculate and /trace — accepted or
refused — carries the served system's `Country-Package` / `Country-Package-Version`; a situation the builder refuses
is answered with the builder's own error (status = its code or 400, body = its path -> message tree: the path of
the faulty value); `api echo` cases of op `app`: `/` (300, points to /spec), `/spec` (its paths are the routes the
application serves and vice versa, its entity schemas list exactly the system's variables with their JSON types and
enum members and the roles of the group entities, its `servers` entry is the request's host).

`<world>` tabulates what an INDEPENDENT engine run answers for the document of the block (direct
`SimulationBuilder().build_from_entities` + `Simulation.calculate`, computed when the case is
generated): it is the model's abstract engine. The implementation side posts the document
through the Flask test client of `create_app(system)` / writes the YAML file and runs
`run_tests`, and prints the same canonical text.
"""
from __future__ import annotations

import copy
import datetime
import itertools
import json
import random
from fractions import Fraction

from .. import apiutil as A
from ..core import Case, Prop

# --------------------------------------------------------------------------------------
# small pure helpers


def walk_slots(doc):
    """the harness's own enumeration of the requested slots: null leaves four keys deep, in
    document order (dicts only)"""
    out = []
    if not isinstance(doc, dict):
        return out
    for pl, insts in doc.items():
        if not isinstance(insts, dict):
            continue
        for iid, vars_ in insts.items():
            if not isinstance(vars_, dict):
                continue
            for var, pers in vars_.items():
                if not isinstance(pers, dict):
                    continue
                for per, val in pers.items():
                    if val is None:
                        out.append((str(pl), str(iid), str(var), str(per)))
    return out


def tok_value(t: str):
    """engine token -> the JSON value the statement expects ('rendered in the variable's type')"""
    c, r = t[0], t[1:]
    if c == "i":
        return int(r)
    if c == "f":
        p, q = r.split("/")
        return float(Fraction(int(p), int(q)))
    if c == "b":
        return r == "T"
    if c in "se":
        return A.unhx(r)
    if c == "d":
        return r
    raise ValueError(t)


def sorted_tokens(x, date_paths=None, path=()) -> list:
    """canonical tokens of a JSON value: keys sorted, floats through float32, RFC-822 dates of
    date-typed variables read back to ISO"""
    if isinstance(x, dict):
        out = ["{"]
        for k in sorted(x, key=lambda s: str(s).encode("utf-8")):
            out.append("k" + A.hx(str(k)))
            out += sorted_tokens(x[k], date_paths, path + (str(k),))
        return out + ["}"]
    if isinstance(x, list):
        out = ["["]
        for y in x:
            out += sorted_tokens(y, date_paths, path)
        return out + ["]"]
    if isinstance(x, str) and date_paths is not None and len(path) >= 3 and A.vtype(path[2]) == "date":
        iso = A.iso_of_http_date(x)
        return ["s" + A.hx(iso if iso is not None else x)]
    return A.j_tokens(x)


def world_tokens(doc, accepted, ids, vecs, extra_vars=(), with_entities=False, with_keys=False, variant="") -> list:
    out = []
    if not accepted:
        return ["A0"]
    names = []
    if isinstance(doc, dict):
        for insts in doc.values():
            if isinstance(insts, dict):
                for vars_ in insts.values():
                    if isinstance(vars_, dict):
                        names += [str(v) for v in vars_]
    for v in dict.fromkeys([*names, *extra_vars]):
        if A.vtype(v, variant):
            out += ["T", A.hx(v), A.vtype(v, variant)]
    for pl, lst in ids.items():
        for k, iid in enumerate(lst):
            out += ["X", A.hx(pl), A.hx(iid), str(k)]
    for (var, per), r in vecs.items():
        if r[0] == "ok":
            out += ["V", A.hx(var), A.hx(per), A.hx(r[2]), "ok", *r[1], ";"]
        else:
            out += ["V", A.hx(var), A.hx(per), A.hx(per), "err", ";"]
    if with_entities:
        for pl, lst in ids.items():
            out += ["E", A.hx(pl), *[A.hx(i) for i in lst], ";"]
    if with_keys:
        for sg, pl in A.PLURAL.items():
            out += ["S", A.hx(sg), "P", A.hx(pl)]
    return out


def request_block(kind: str, doc):
    """(tokens of `<world> R <J>`, payload) for one request; the engine is run here"""
    slots = walk_slots(doc)
    accepted, ids, vecs = A.engine_run(doc, [(v, p) for _, _, v, p in slots])
    toks = world_tokens(doc, accepted, ids, vecs, with_entities=(kind == "trace")) + ["R"] + A.j_tokens(doc)
    exp = {"accepted": accepted, "ids": ids, "slots": [list(s) for s in slots],
           "vecs": [[v, p, list(r)] for (v, p), r in vecs.items()]}
    refusal = None if accepted or not isinstance(doc, dict) else A.builder_refusal(doc)
    return toks, {"kind": kind, "doc": doc, "engine": exp, "refusal": refusal}


# --------------------------------------------------------------------------------------
# implementation adapter: /calculate and /trace


def exact_inputs(doc, body, path=()):
    """path of a supplied (non-null) leaf that did not come back exactly as posted, else None"""
    if isinstance(doc, dict):
        if not isinstance(body, dict):
            return path
        for k, v in doc.items():
            if k not in body:
                return path + (str(k),)
            r = exact_inputs(v, body[k], path + (str(k),))
            if r is not None:
                return r
        return None
    if doc is None:
        return None
    return None if (doc == body and type(doc) is type(body)) else path


def canon_calc(status, body, doc=None) -> str:
    if status != 200 or body is None:
        return "ERR"
    if doc is not None:
        bad = exact_inputs(doc, body)
        if bad is not None:
            return "INPUT-CHANGED " + "/".join(bad)
    return "OK " + " ".join(sorted_tokens(body, date_paths=True))


def canon_trace(status, body, engine) -> str:
    if status != 200 or body is None:
        return "ERR"
    ents = body.get("entitiesDescription")
    req = body.get("requestedCalculations") or []
    trace = body.get("trace") or {}
    canon = {(v, p): r[2] for v, p, r in engine["vecs"] if r[0] == "ok"}
    keys = {}
    for _, _, v, p in engine["slots"]:
        if (v, p) in canon:
            keys[f"{v}<{canon[(v, p)]}>"] = v
    out = ["OK", "E", *sorted_tokens(ents), "Q", *["s" + A.hx(str(q)) for q in req], "T"]
    for k in sorted(keys, key=lambda s: s.encode("utf-8")):
        node = trace.get(k)
        if node is None:
            out += [A.hx(k), "MISSING"]
            continue
        val = node.get("value")
        if A.vtype(keys[k]) == "date" and isinstance(val, list):
            val = [A.iso_of_http_date(x) or x if isinstance(x, str) else x for x in val]
        out += [A.hx(k), *sorted_tokens(val)]
    return " ".join(out)


def app_level(req, status, body, headers):
    """What the application adds around the handler: the package headers on every answer, and the
    builder's own refusal (status and path -> message tree) for a situation the builder refuses.
    -> None, or the text of the deviation"""
    want = A.package_headers()
    for k, v in want.items():
        if headers.get(k) != v:
            return f"HEADERS {k}: {headers.get(k)!r}, the served package is {v!r}"
    ref = req.get("refusal")
    if ref is not None and (status != ref["status"] or body != ref["error"]):
        return f"ERROR-ANSWER status {status} body {json.dumps(body, sort_keys=True)[:300]}; the builder refuses with " \
               f"{ref['status']} {json.dumps(ref['error'], sort_keys=True)[:300]}"
    return None


def answer(cl, req) -> str:
    if req["kind"] == "bad":        # a body that is not JSON
        r = cl.post("/" + req["route"], data=req["body"], content_type="application/json")
        if r.status_code == 200:
            return "OK?"
        return "ERR" if r.status_code == 400 and isinstance(r.get_json(silent=True), dict) and "error" in r.get_json(silent=True) \
            else f"ERROR-ANSWER not-json body answered with {r.status_code}"
    route = "/calculate" if req["kind"] == "calc" else "/trace"
    posted = copy.deepcopy(req["doc"])
    status, body, headers = A.post_full(cl, route, posted)
    if posted != req["doc"]:                # the caller's payload object is the caller's
        return "ERROR-ANSWER the posted object was modified"
    bad = app_level(req, status, body, headers)
    if bad is not None:
        return bad
    body = body if status == 200 else None
    if req["kind"] == "calc":
        return canon_calc(status, body, doc=req["doc"])
    return canon_trace(status, body, req["engine"])


def impl_seq(reqs) -> str:
    """one application, the sequence in several orders; then a fresh application per request"""
    app = A.fresh_client()
    n = len(reqs)
    first = [answer(app, r) for r in reqs]
    orders = [list(range(n - 1, -1, -1)), [(i + n // 2) % n for i in range(n)], list(range(n))]
    rng = random.Random(n * 1009 + len(first[0]))
    sh = list(range(n))
    rng.shuffle(sh)
    orders.append(sh)
    for order in orders:
        for i in order:
            again = answer(app, reqs[i])
            if again != first[i]:
                return f"HISTORY one-application request {i} order {order}: {again[:200]} <> {first[i][:200]}"
    for i, r in enumerate(reqs):
        alone = answer(A.fresh_client(), r)
        if alone != first[i]:
            return f"HISTORY fresh-application request {i}: {alone[:200]} <> {first[i][:200]}"
    shared = [answer(A.client(), r) for r in reqs]       # the long-lived application of this worker
    if shared != first:
        return "HISTORY long-lived application differs"
    return " ;; ".join(first)


# --------------------------------------------------------------------------------------
# implementation adapter: YAML tests


def yaml_scalar(e) -> str:
    if isinstance(e, bool):
        return "true" if e else "false"
    if isinstance(e, int):
        return str(e)
    if isinstance(e, float):
        return repr(e)
    if isinstance(e, datetime.date):
        return e.isoformat()
    return json.dumps(e, ensure_ascii=False)     # a double-quoted YAML string


def yaml_node(x, ind: int) -> str:
    pad = "  " * ind
    if isinstance(x, dict):
        if not x:
            return " {}\n"
        s = "\n"
        for k, v in x.items():
            key = str(k) if isinstance(k, int) else json.dumps(str(k), ensure_ascii=False)      # an unquoted year is an integer key
            s += f"{pad}{key}:" + yaml_node(v, ind + 1)
        return s
    if isinstance(x, list):
        return " [" + ", ".join(yaml_scalar(e) for e in x) + "]\n"
    return " " + yaml_scalar(x) + "\n"


def int_year_keys(output):
    """the output section with its year PERIOD keys as integers (what YAML makes of an unquoted 2018);
    instance ids and variable names are left alone"""
    def periods_of(v):
        if isinstance(v, dict):
            return {(int(k) if str(k).isdigit() and len(str(k)) == 4 else k): periods_of(w) for k, w in v.items()}
        return v
    out = {}
    for key, v in output.items():
        if A.vtype(key, "ext") or not isinstance(v, dict):
            out[key] = periods_of(v)
        elif key in A.PLURAL:
            out[key] = {var: periods_of(w) for var, w in v.items()}
        else:
            out[key] = {iid: ({var: periods_of(w) for var, w in vals.items()} if isinstance(vals, dict) else vals)
                        for iid, vals in v.items()}
    return out


def yaml_of_tests(tests, single=False) -> str:
    s = ""
    for k, t in enumerate(tests):
        s += f"- name: t{k}\n"
        if t.get("period") is not None:
            s += f"  period: {json.dumps(t['period'])}\n"
        for key in ("absolute_error_margin", "relative_error_margin"):
            if key in t:
                s += f"  {key}:" + yaml_node(t[key], 2)
        for key, v in (t.get("extra") or {}).items():
            if key != "yaml_input":
                s += f"  {key}:" + yaml_node(v, 2)
        s += "  input:" + yaml_node((t.get("extra") or {}).get("yaml_input", t["input"]), 2)
        if "output" in t:
            out = t["output"]
            if (t.get("extra") or {}).get("keywords"):
                out = int_year_keys(out)
            s += "  output:" + yaml_node(out, 2)
    if single and len(tests) == 1:         # a file holding one test as a mapping, not a list
        s = "".join(l[2:] + "\n" for l in s.splitlines())
    return s


def selected_tests(tests, name_filter):
    """indices of the tests of a file (named t0, t1, ... in the file `case.yaml`) that the runner's option
    `name_filter` keeps: the text occurs in the file's base name or in the test's name, or is one of its keywords"""
    if name_filter is None:
        return list(range(len(tests)))
    return [k for k, t in enumerate(tests)
            if name_filter in "case" or name_filter in f"t{k}" or name_filter in ((t.get("extra") or {}).get("keywords") or [])]


def impl_yaml_sequence(pl, tests) -> str:
    """one file per test, run one after the other in this process, each against its own baseline system"""
    verdicts = []
    for t in tests:
        status, outs = A.run_yaml_tests(A.baseline_system(t.get("baseline") or ""), yaml_of_tests([t]), "q", pl.get("options") or None,
                                        pl.get("how", "file"))
        if [o.get("name") for o in outs] != ["t0"]:
            return f"COLLECTION ran {[o.get('name') for o in outs]} for one test (exit status {status})"
        v = "PASS" if outs[0]["outcome"] == "passed" else "FAIL"
        if (status == 0) != (v == "PASS"):
            return "STATUS-MISMATCH " + v
        verdicts.append(v)
    return " ".join(verdicts)


def impl_yaml(pl) -> str:
    tests = [materialise(t) for t in pl["tests"]]
    if any(t.get("baseline") for t in tests):
        return impl_yaml_sequence(pl, tests)
    status, outs = A.run_yaml_tests(A.system(), yaml_of_tests(tests, pl.get("single", False)), "t", pl.get("options") or None,
                                    pl.get("how", "file"))
    selected = pl.get("selected")
    if selected is None:
        selected = list(range(len(tests)))
    ran = [o.get("name") for o in outs]
    if ran != [f"t{k}" for k in selected]:
        return f"COLLECTION ran {ran}, the file holds {len(tests)} tests of which {['t%d' % k for k in selected]} are selected (exit status {status})"
    if not selected:
        return "-"
    verdicts = ["PASS" if o["outcome"] == "passed" else "FAIL" for o in outs]
    if (status == 0) != all(v == "PASS" for v in verdicts):
        return "STATUS-MISMATCH " + " ".join(verdicts)
    return " ".join(verdicts)


# --------------------------------------------------------------------------------------
# implementation adapter: listings


def _ord(s: str) -> int:
    return datetime.date.fromisoformat(s).toordinal()


def pval_token(v) -> str:
    return "n" if v is None else A.num_token(v, f32=False)


def param_node(seed, pid: str):
    node = A.system(seed).parameters
    for part in pid.split("."):
        node = node.children[part]
    return node


def param_meta_diff(body, node):
    """description / documentation / metadata / id of a served parameter against the object's"""
    if body.get("id") != node.name:
        return f"id {body.get('id')}"
    if body.get("description") != getattr(node, "description", None):
        return f"description {body.get('description')!r} <> {getattr(node, 'description', None)!r}"
    if body.get("metadata") != node.metadata:
        return f"metadata {body.get('metadata')} <> {node.metadata}"
    doc = getattr(node, "documentation", None)
    if (body.get("documentation") if doc else doc) != (doc.strip() if doc else doc) or (not doc and "documentation" in body):
        return f"documentation {body.get('documentation')!r} <> {doc!r}"
    return None


def impl_phist(pl) -> str:
    body = A.client(pl["seed"]).get("/parameter/" + pl["id"].replace(".", "/")).get_json()
    served = body.get("values")
    if served is None:
        return "NOVALUES"
    node = param_node(pl["seed"], pl["id"])
    bad = param_meta_diff(body, node)
    if bad:
        return "META " + bad
    shown = [f"{_ord(d)}:{pval_token(served[d])}" for d in sorted(served)]
    at = [pval_token(node(datetime.date.fromordinal(o).isoformat())) for o in pl["probes"]]
    return f"{','.join(shown) or '-'} | {','.join(at) or '-'}"


VALUE_TYPE_NAMES = {"int": "Int", "float": "Float", "bool": "Boolean", "str": "String", "date": "Date", "enum": "String"}
TYPE_DEFAULTS = {"int": 0, "float": 0, "bool": False, "str": "", "date": "1970-01-01", "enum": "tenant"}
ENUM_VALUES = {"owner": "Owner", "tenant": "Tenant", "free_lodger": "Free lodger", "homeless": "Homeless"}


def variable_meta_diff(body, name: str, var):
    """what /variable/<id> says beside the formulas, against the harness's own table of the system
    (value type, default value, definition period, entity, possible values) and the object's texts"""
    ent, vt, dp, _ = var_info(name) or ("person", "float", "month", False)       # dv<k> of the generated systems
    want = {"id": name, "valueType": VALUE_TYPE_NAMES[vt], "definitionPeriod": dp.upper(), "entity": ent,
            "defaultValue": A.DEFAULTS.get(name, TYPE_DEFAULTS[vt]), "description": f"label of {name}"}
    for k, v in want.items():
        if body.get(k) != v or type(body.get(k)) is not type(v):
            if not (k == "defaultValue" and vt == "float" and body.get(k) == v):
                return f"{k} {body.get(k)!r} <> {v!r}"
    if (body.get("possibleValues") if vt == "enum" else None) != (ENUM_VALUES if vt == "enum" else None) or \
            (vt != "enum" and "possibleValues" in body):
        return f"possibleValues {body.get('possibleValues')}"
    doc = var.documentation
    if body.get("documentation") != (doc.strip() if doc else None):
        return f"documentation {body.get('documentation')!r}"
    if body.get("references") != (var.reference or None):
        return f"references {body.get('references')!r}"
    for d, f in var.formulas.items():
        served = (body.get("formulas") or {}).get(d)
        if served is None or served.get("documentation") != (f.__doc__ or None) and not (f.__doc__ is None and "documentation" not in served):
            return f"formula {d} documentation"
        import inspect
        import textwrap
        if served.get("content") != textwrap.dedent("".join(inspect.getsourcelines(f)[0])):
            return f"formula {d} content"
    return None


def impl_vforms(pl) -> str:
    cl = A.client(pl["seed"])
    body = cl.get("/variable/" + pl["var"]).get_json()
    listed = cl.get("/variables").get_json().get(pl["var"])
    var = A.system(pl["seed"]).get_variable(pl["var"])
    if listed is None or listed.get("description") != var.label or body.get("id") != var.name or \
            not listed.get("href", "").endswith("/variable/" + pl["var"]):
        return "NOTLISTED"
    bad = variable_meta_diff(body, pl["var"], var)
    if bad:
        return "META " + bad
    served = body.get("formulas") or {}
    shown = [f"{_ord(d)}:{'n' if served[d] is None else 'F'}" for d in sorted(served)]
    starts = {id(f): d for d, f in var.formulas.items()}
    at = []
    for o in pl["probes"]:
        f = var.get_formula(datetime.date.fromordinal(o).isoformat())
        at.append("-" if f is None else str(_ord(starts[id(f)])))
    return f"{','.join(shown) or '-'} | {','.join(at) or '-'}"


def impl_params(pl) -> str:
    """/parameters; and (carried by the oracle only) the other routes to the same listings: the dotted
    legacy id, a trailing slash, 404 for what the system does not hold, nodes, /entities"""
    cl = A.client(pl["seed"])
    tbs = A.system(pl["seed"])
    body = cl.get("/parameters").get_json()
    for pid, entry in body.items():
        node = param_node(pl["seed"], pid)
        if entry.get("description") != getattr(node, "description", None) or \
                not entry.get("href", "").endswith("/parameter/" + pid.replace(".", "/")):
            return f"X:overview entry {pid} {entry}"
        canonical = cl.get("/parameter/" + pid.replace(".", "/"))
        if canonical.status_code != 200:
            return f"X:status {pid}"
        for route in ("/parameter/" + pid, "/parameter/" + pid.replace(".", "/") + "/"):
            r = cl.get(route, follow_redirects=True)
            if r.status_code != 200 or r.get_json() != canonical.get_json():
                return f"X:route {route}"
    for route in ("/parameter/taxes/nope", "/parameter/nope", "/parameter/taxes.nope", "/variable/nope", "/variable/taxes"):
        if cl.get(route).status_code != 404:
            return f"X:no 404 for {route}"
    for node in tbs.parameters.get_descendants():
        if hasattr(node, "children") and not hasattr(node, "brackets"):
            b = cl.get("/parameter/" + node.name.replace(".", "/")).get_json()
            bad = param_meta_diff(b, node)
            if bad or b.get("subparams") != {k: {"description": getattr(c, "description", None)} for k, c in node.children.items()}:
                return f"X:node {node.name} {bad}"
    ents = cl.get("/entities").get_json()
    want = {}
    for e in tbs.entities:
        want[e.key] = {"plural": e.plural, "description": e.label, "documentation": e.doc.strip()}
        if not e.is_person:
            want[e.key]["roles"] = {r.key: {"plural": r.plural, "description": r.doc, **({"max": r.max} if r.max else {})} for r in e.roles}
    if ents != want:
        return f"X:entities {ents}"
    return ",".join(A.hx(k) for k in sorted(body, key=lambda s: s.encode())) or "-"


JSON_TYPES = {"int": "integer", "float": "number", "bool": "boolean", "str": "string", "date": "string", "enum": "string"}


def impl_app(pl) -> str:
    """K-only: the routes around the handlers — `/`, `/spec` against the application's own routes and
    the system's own variables, the package headers on listings and on 404s."""
    import re
    cl = A.client(pl["seed"])
    tbs = A.system(pl["seed"])
    want_headers = A.package_headers(pl["seed"])
    for route in ("/", "/spec", "/parameters", "/variables", "/entities", "/variable/nope", "/parameter/nope", "/nosuchroute"):
        r = cl.get(route)
        for k, v in want_headers.items():
            if r.headers.get(k) != v:
                return f"X:headers {route} {k}={r.headers.get(k)!r}"
    root = cl.get("/")
    if root.status_code != 300 or "/spec" not in str((root.get_json(silent=True) or {}).get("welcome")):
        return f"X:root {root.status_code} {root.get_json(silent=True)}"
    r = cl.get("/spec")
    spec = r.get_json(silent=True)
    if r.status_code != 200 or not isinstance(spec, dict):
        return f"X:spec status {r.status_code}"
    if spec.get("servers") != [{"url": "http://localhost"}]:
        return f"X:spec servers {spec.get('servers')}"
    if want_headers["Country-Package-Version"] not in str(spec.get("info", {}).get("version")):
        return f"X:spec version {spec.get('info', {}).get('version')}"
    served = set()
    for rule in cl.application.url_map.iter_rules():
        if rule.endpoint == "static":
            continue
        served.add(re.sub(r"<(?:\w+:)?\w+>", "{}", rule.rule))
    listed = {re.sub(r"\{\w+\}", "{}", p_) for p_ in spec.get("paths", {})}
    if listed != served - {"/"}:
        return f"X:spec paths {sorted(listed)} <> routes {sorted(served)}"
    for p_, ops in spec["paths"].items():           # the method the spec documents is one the route accepts
        rule = next(x for x in cl.application.url_map.iter_rules() if re.sub(r"<(?:\w+:)?\w+>", "{}", x.rule) == re.sub(r"\{\w+\}", "{}", p_))
        if any(m.upper() not in rule.methods for m in ops):
            return f"X:spec methods {p_} {sorted(ops)} <> {sorted(rule.methods)}"
    schemas = spec.get("components", {}).get("schemas", {})
    names = dict(A.VARS)
    for e in tbs.entities:
        sch = schemas.get(e.key.title())
        if not isinstance(sch, dict):
            return f"X:spec no schema for {e.key}"
        want = {}
        if not e.is_person:
            want.update({(r_.plural or r_.key): {"type": "array", "items": {"type": "string"}} for r_ in e.roles})
        for name, var in tbs.variables.items():
            if var.entity.key != e.key:
                continue
            vt = names[name][1] if name in names else "float"          # dv<k> of the generated systems
            ap = {"type": JSON_TYPES[vt]}
            if vt == "enum":
                ap["enum"] = list(A.ENUM_NAMES)
            want[name] = {"type": "object", "additionalProperties": ap}
        if sch.get("properties") != want or sch.get("additionalProperties") is not False:
            diff = sorted(set(sch.get("properties", {})) ^ set(want)) or [k for k in want if sch["properties"].get(k) != want[k]]
            return f"X:spec schema of {e.key}: {diff[:6]}"
    sit = schemas.get("SituationInput", {}).get("properties")
    if sit != {e.plural: {"type": "object", "additionalProperties": {"$ref": f"#/components/schemas/{e.key.title()}"}} for e in tbs.entities}:
        return f"X:spec situation schema {sit}"
    tr = schemas.get("Trace", {}).get("properties", {}).get("entitiesDescription", {}).get("properties")
    if tr != {e.plural: {"type": "array", "items": {"type": "string"}} for e in tbs.entities}:
        return f"X:spec trace entities {tr}"
    return "same"


def scale_at(api_brackets, date: str):
    keys = [k for k in api_brackets if k <= date]
    if not keys:
        return None
    return api_brackets[max(keys)]


def impl_scale(pl) -> str:
    """K-only: /parameter/<scale> read at probe dates against the engine's scale at that instant"""
    body = A.client(pl["seed"]).get("/parameter/" + pl["id"].replace(".", "/")).get_json()
    br = body.get("brackets")
    if br is None:
        return "NOBRACKETS"
    node = param_node(pl["seed"], pl["id"])
    bad = param_meta_diff(body, node)
    if bad:
        return "META " + bad
    def show_row(row: dict, drop_null=False) -> str:
        items = sorted((Fraction(float(k)), None if v is None else Fraction(float(v))) for k, v in row.items())
        items = [(t, v) for t, v in items if not (drop_null and v is None)]
        return "/".join(f"{A.rat(t)}>{'n' if v is None else A.rat(v)}" for t, v in items) or "-"
    at = []
    for o in pl["probes"]:
        d = datetime.date.fromordinal(o).isoformat()
        api = scale_at(br, d)
        sc = node.get_at_instant(d)
        vals = sc.rates if hasattr(sc, "rates") else sc.amounts
        eng = {Fraction(float(t)): Fraction(float(v)) for t, v in zip(sc.thresholds, vals)}
        got = {} if api is None else {Fraction(float(k)): Fraction(float(v)) for k, v in api.items() if v is not None}
        if got != eng:
            return f"DIFF {d}: api {api} engine {dict(zip(sc.thresholds, vals))}"
        at.append("n" if api is None else show_row(api, drop_null=True))
    shown = [f"{_ord(d)}={'n' if br[d] is None else show_row(br[d])}" for d in sorted(br)]
    return f"{','.join(shown) or '-'} | {','.join(at) or '-'}"


def impl_near(pl) -> str:
    """assert_near called directly (as country packages' Python tests do), on plain Python values"""
    import numpy as np
    from openfisca_core.tools import assert_near
    vals = pl["values"]
    value = {"scalar": lambda: vals[0], "list": lambda: list(vals), "tuple": lambda: tuple(vals), "array": lambda: np.array(vals),
             "array32": lambda: np.array(vals, dtype=np.float32)}[pl["container"]]()
    target = A.parse_tokens(pl["target_tok"])[0]
    if isinstance(target, list) and pl.get("target_array"):
        target = np.array(target)
    kw = {}
    if pl["abs"] is not None or pl["explicit_none"]:
        kw["absolute_error_margin"] = pl["abs"]
    if pl["rel"] is not None or pl["explicit_none"]:
        kw["relative_error_margin"] = pl["rel"]
    if pl["message"]:
        kw["message"] = "x@2018: "
    try:
        assert_near(value, target, **kw)
    except Exception:
        return "FAIL"
    return "PASS"


def oracle_near(pl, out: str):
    target = A.parse_tokens(pl["target_tok"])[0]
    vals = pl["values"]
    exps = target if isinstance(target, list) else [target] * len(vals)
    if len(exps) != len(vals):
        return None
    am, rm = pl["abs"], pl["rel"]
    if am is None and rm is None:
        am = 0
    ok = True
    for a, e in zip(vals, exps):
        if pl["type"] == "str":
            if not isinstance(e, str):
                return None
            ok = ok and a == e
        else:
            fe, fa = _exp_fraction(e), _exp_fraction(a)
            if fe is None:
                return None
            d = abs(fe - fa)
            ok = ok and (am is None or d <= Fraction(am)) and (rm is None or d <= abs(Fraction(rm) * fe))
    if (out == "PASS") != ok:
        return (f"near:wrong-verdict:{pl['type']}", f"assert_near({vals}, {target}, abs={pl['abs']}, rel={pl['rel']}) "
                f"{'passes' if out == 'PASS' else 'fails'}; the values are {'within' if ok else 'NOT within'} the margins")
    return None


def gen_near(rng: random.Random) -> Case:
    ty = rng.choice(["int", "float", "float", "bool", "str"])
    n = rng.choice([1, 1, 2, 3])
    vals = [{"int": lambda: rng.randint(-20, 50), "float": lambda: rng.randint(-64, 64) / 8, "bool": lambda: rng.random() < 0.5,
             "str": lambda: rng.choice(["abc", "héllo", "", "x y"])}[ty]() for _ in range(n)]
    container = rng.choice((["scalar"] if n == 1 else []) + ["list", "tuple", "array"] + (["array32"] if ty == "float" else []))
    mk, am, rm = rng.choice([("none", None, None), ("abs", rng.choice([0, 0.5, 1, 2]), None), ("rel", None, rng.choice([0.5, 1, 0])),
                             ("both", rng.choice([1, 4]), 0.5), ("neg", -1, None)])
    rel = rng.choice(["equal", "within", "at", "beyond", "far"])
    var = {"int": "p_int", "float": "p_float", "bool": "p_bool", "str": "p_str"}[ty]
    tok = {"int": lambda v: f"i{v}", "float": lambda v: "f" + A.rat(Fraction(v)), "bool": lambda v: "bT" if v else "bF",
           "str": lambda v: "s" + A.hx(v)}[ty]
    which = rng.randrange(n)
    exps = [expected_for(rng, var, tok(v), rel if k == which else "equal", am, rm) for k, v in enumerate(vals)]
    target = exps[0] if (n == 1 or len(set(map(repr, exps))) == 1) and rng.random() < 0.5 else exps
    ttok = A.j_tokens(target, f32=False)
    mt = lambda m: "~" if m is None else A.rat(Fraction(m))
    line = " ".join(["api", "near", ty, *[tok(v) for v in vals], ";", *ttok, "a", mt(am), "r", mt(rm)])
    return Case(line=line, payload={"op": "near", "type": ty, "values": vals, "container": container, "target_tok": ttok, "abs": am,
                                    "rel": rm, "explicit_none": rng.random() < 0.3, "message": rng.random() < 0.3,
                                    "target_array": rng.random() < 0.3},
                tags=("near", "near:" + container, "margin:" + mk))


def impl(case: Case) -> str:
    pl = case.payload
    k = pl["op"]
    if k == "near":
        return impl_near(pl)
    if k in ("calc", "trace"):
        return answer(A.client(), pl["req"])
    if k == "seq":
        return impl_seq(pl["reqs"])
    if k == "yaml":
        return impl_yaml(pl)
    if k == "phist":
        return impl_phist(pl)
    if k == "vforms":
        return impl_vforms(pl)
    if k == "params":
        return impl_params(pl)
    if k == "scale":
        return impl_scale(pl)
    if k == "app":
        return impl_app(pl)
    if k == "bad":
        return "BAD"
    raise ValueError(k)


# --------------------------------------------------------------------------------------
# oracle: the property statement, in Python, on the implementation's output


def _same_number(a, b) -> bool:
    import numpy as np
    if isinstance(a, bool) or isinstance(b, bool):
        return a is b
    if isinstance(a, float) or isinstance(b, float):
        return isinstance(a, float) and isinstance(b, float) and float(np.float32(a)) == float(np.float32(b))
    return a == b


def var_info(var: str):
    return A.VARS.get(var) or A.EXT_VARS.get(var)


def _slot_type(var: str) -> str:
    return "strn" if var in A.BOUNDED else (A.vtype(var, "ext") or "unknown")


def oracle_app_level(kind: str, out: str):
    if out.startswith("HEADERS"):
        return ("app:package-headers", out[:400])
    if out.startswith("ERROR-ANSWER"):
        return (f"{kind}:error-answer", "a refused situation is not answered with the builder's own error: " + out[:600])
    return None


def oracle_calc(req, out: str):
    v = oracle_app_level("calc", out)
    if v is not None:
        return v
    eng = req["engine"]
    doc = req["doc"]
    vecs = {(v, p): r for v, p, r in eng["vecs"]}
    engine_ok = eng["accepted"] and all(r[0] == "ok" for r in vecs.values())
    if out.startswith("INPUT-CHANGED"):
        return ("calc:input-changed", "a supplied value came back different: " + out)
    if out == "ERR":
        if engine_ok:
            return ("calc:error-where-engine-computes", "the engine accepts the situation and computes every slot, the API errs")
        return None
    if not engine_ok:
        return ("calc:value-without-engine-value", "the API answers although the engine refuses the situation or a slot")
    body, _ = A.parse_tokens(out.split()[1:])
    # 1. key structure: nothing added, nothing removed
    def keys(a, b, path=()):
        if isinstance(a, dict):
            if not isinstance(b, dict) or set(map(str, a)) != set(b):
                return path
            for k in a:
                r = keys(a[k], b[str(k)], path + (str(k),))
                if r is not None:
                    return r
        elif isinstance(b, dict):
            return path
        return None
    bad = keys(doc, body)
    if bad is not None:
        return ("calc:keys-changed", f"the keys under {'/'.join(bad)} differ from those posted")
    # 2. supplied inputs unchanged
    slots = {tuple(s) for s in eng["slots"]}

    def inputs(a, b, path=()):
        if isinstance(a, dict):
            for k in a:
                r = inputs(a[k], b[str(k)], path + (str(k),))
                if r is not None:
                    return r
            return None
        if path in slots:
            return None
        if isinstance(a, list):
            return None if a == b else path
        if isinstance(a, str) and len(path) >= 3 and A.vtype(path[2]) == "date":
            return None if (A.iso_of_http_date(a) or a) == b else path
        if isinstance(a, (int, float)) and isinstance(b, (int, float)):
            return None if _same_number(a, b) else path
        return None if a == b else path
    bad = inputs(doc, body)
    if bad is not None:
        return ("calc:input-changed", f"the supplied value at {'/'.join(bad)} came back different")
    # 3. every null slot holds the engine's value for that instance, variable, period
    for pl, iid, var, per in eng["slots"]:
        r = vecs[(var, per)]
        want = tok_value(r[1][eng["ids"][pl].index(iid)])
        got = body[pl][iid][var][per]
        ok = _same_number(got, want) if isinstance(want, (int, float)) and not isinstance(want, bool) else (got == want and type(got) is type(want))
        if not ok:
            return (f"calc:slot-value:{_slot_type(var)}",
                    f"{pl}/{iid}/{var}/{per}: the API reports {got!r}, the engine computes {want!r}")
    return None


def oracle_trace(req, out: str):
    v = oracle_app_level("trace", out)
    if v is not None:
        return v
    eng = req["engine"]
    vecs = {(v, p): r for v, p, r in eng["vecs"]}
    engine_ok = eng["accepted"] and all(r[0] == "ok" for r in vecs.values())
    if out == "ERR":
        return ("trace:error-where-engine-computes", "the engine computes every slot, /trace errs") if engine_ok else None
    if not engine_ok:
        return ("trace:value-without-engine-value", "/trace answers although the engine refuses")
    f = out.split()
    e_at, q_at, t_at = f.index("E"), f.index("Q"), f.index("T")
    ents, _ = A.parse_tokens(f[e_at + 1:q_at])
    if {k: [str(i) for i in v] for k, v in ents.items()} != eng["ids"]:
        return ("trace:entities", f"entitiesDescription {ents} differs from the simulation's {eng['ids']}")
    req_calc = [A.unhx(t[1:]) for t in f[q_at + 1:t_at]]
    if req_calc != [f"{v}<{p}>" for _, _, v, p in eng["slots"]]:
        return ("trace:requested", f"requestedCalculations {req_calc}")
    values = {}
    pos = t_at + 1
    while pos < len(f):
        key = A.unhx(f[pos])
        if f[pos + 1] == "MISSING":
            return ("trace:missing", f"no trace entry {key}")
        val, pos = A.parse_tokens(f, pos + 1)
        values[key] = val
    for pl, iid, var, per in eng["slots"]:
        r = vecs[(var, per)]
        i = eng["ids"][pl].index(iid)
        want = tok_value(r[1][i])
        got = values[f"{var}<{r[2]}>"][i]
        ok = _same_number(got, want) if isinstance(want, (int, float)) and not isinstance(want, bool) else got == want
        if not ok:
            return (f"trace:slot-value:{_slot_type(var)}", f"{var}<{r[2]}>[{i}]: /trace reports {got!r}, the engine computes {want!r}")
    return None


def _exp_fraction(e):
    if isinstance(e, bool):
        return Fraction(int(e))
    if isinstance(e, (int, float)):
        return Fraction(e)
    return None


def expected_verdict(test):
    """the statement's verdict, or None when the statement does not decide the test
    (ill-typed expectations, shape mismatches, missing margins ...: correspondence only).
    Uses the independent engine values recorded in the test."""
    eng = test["engine"]
    if not eng["accepted"] or test["layout"].startswith("odd") or not test["expectations"]:
        return None
    vecs = {(v, p): r for v, p, r in eng["vecs"]}
    verdict = True
    opts = test.get("options") or {}
    for x in test["expectations"]:
        var, per, inst, expd = x["var"], x["period"], x["inst"], x["expected"]
        if (opts.get("ignore_variables") is not None and var in opts["ignore_variables"]) or \
                (opts.get("only_variables") is not None and var not in opts["only_variables"]):
            if inst is not None and inst[1] not in eng["ids"].get(inst[0], []):
                return None
            continue                    # the runner is told to leave this variable out
        r = vecs.get((var, per))
        if r is None or r[0] != "ok":
            return None
        vt = A.vtype(var, "ext")
        vals = [tok_value(t) for t in r[1]]
        if inst is not None:
            pl, iid = inst
            if iid not in eng["ids"].get(pl, []) or pl != A.PLURAL[var_info(var)[0]]:
                return None
            vals = [vals[eng["ids"][pl].index(iid)]]
        exps = expd if isinstance(expd, list) else [expd] * len(vals)
        if len(exps) != len(vals):
            return None
        am, rm = x["abs"], x["rel"]
        if am == "missing" or rm == "missing":
            return None
        if am is None and rm is None:
            am = 0
        for a, e in zip(vals, exps):
            if vt in ("int", "float", "bool"):
                fe, fa = _exp_fraction(e), _exp_fraction(a)
                if fe is None:
                    return None
                d = abs(fe - fa)
                ok = (am is None or d <= Fraction(am)) and (rm is None or d <= abs(Fraction(rm) * fe))
            elif vt == "date":
                if isinstance(e, datetime.date):
                    e = e.isoformat()
                if not isinstance(e, str) or (am is not None and am < 0):
                    return None
                ok = a == e
            else:
                if not isinstance(e, str):
                    return None
                ok = a == e
            verdict = verdict and ok
    return verdict


def blame(t):
    """(value type, layout) named in the signature of a wrong verdict. A test with one class of
    expectation names it; for a mixed test each expectation is run alone through run_tests (same
    situation, period and margins) and the first one whose own verdict is wrong is named."""
    opts = t.get("options") or {}
    if any(k in opts for k in ("verbose", "aggregate", "max_depth")):
        # the same test without the printing options: if its verdict is then right, the option is what breaks it
        quiet = {k: v for k, v in opts.items() if k not in ("verbose", "aggregate", "max_depth")}
        whole = {k: t[k] for k in ("name", "input", "period", "absolute_error_margin", "relative_error_margin", "extra", "output")
                 if k in t}
        _, outs = A.run_yaml_tests(A.baseline_system(t.get("baseline") or ""), yaml_of_tests([whole]), "blame", quiet or None)
        want = expected_verdict(t)
        if len(outs) == 1 and want is not None and (outs[0]["outcome"] == "passed") == want:
            return ("option", "verbose" if "verbose" in opts else
                    "+".join(sorted(k for k in opts if k in ("aggregate", "max_depth"))))
    classes = list(dict.fromkeys((_slot_type(x["var"]), x["layout"]) for x in t["expectations"]))
    if len(classes) == 1:
        return classes[0]
    for x in t["expectations"]:
        node = x["expected"] if x["period"] is None else {x["period"]: x["expected"]}
        ent = var_info(x["var"])[0]
        if x["layout"] == "variable":
            output = {x["var"]: node}
        elif x["layout"] == "entity":
            output = {ent: {x["var"]: node}}
        else:
            output = {x["inst"][0]: {x["inst"][1]: {x["var"]: node}}}
        sub = {k: t[k] for k in ("name", "input", "period", "engine", "absolute_error_margin", "relative_error_margin",
                                 "extra", "options", "baseline") if k in t}
        sub.update(output=output, layout=x["layout"], expectations=[x])
        want = expected_verdict(sub)
        if want is None:
            continue
        _, outs = A.run_yaml_tests(A.baseline_system(t.get("baseline") or ""), yaml_of_tests([sub]), "blame", t.get("options") or None)
        if len(outs) == 1 and (outs[0]["outcome"] == "passed") != want:
            return (_slot_type(x["var"]), x["layout"])
    return ("mixed", "mixed")


def oracle_yaml(tests, out: str):
    tests = [materialise(t) for t in tests]
    f = out.split()
    if f and f[0] == "COLLECTION":
        return ("yaml:tests-not-run", "run_tests did not run every test of the file: " + out)
    if f and f[0] == "STATUS-MISMATCH":
        return ("yaml:exit-status", "run_tests' exit status disagrees with the per-test outcomes: " + out)
    for t, got in zip(tests, f):
        want = expected_verdict(t)
        if want is None:
            continue
        if (got == "PASS") != want:
            typ, lay = blame(t)
            return (f"yaml:wrong-verdict:{typ}:{lay}",
                    f"test {t['name']} ({lay} layout, {typ}) {got} but "
                    f"{'every expectation is within' if want else 'some expectation is NOT within'} the margins of the "
                    f"engine's values: {t['output']}")
    groups: dict = {}
    for t, got in zip(tests, f):
        if t.get("group") is not None:
            groups.setdefault(t["group"], []).append((t, got))
    for g, lst in groups.items():
        if len({got for _, got in lst}) > 1:
            typ = _slot_type(lst[0][0]["expectations"][0]["var"])
            odd = min(lst, key=lambda p: sum(q[1] == p[1] for q in lst))[0]["layout"]
            return (f"yaml:layouts-disagree:{typ}:{odd}", f"the same expectations in three layouts: {[(t['layout'], got) for t, got in lst]}")
    return None


def oracle(case: Case, out: str):
    pl = case.payload
    k = pl["op"]
    if k == "calc":
        return oracle_calc(pl["req"], out)
    if k == "trace":
        return oracle_trace(pl["req"], out)
    if k == "seq":
        if out.startswith("HISTORY"):
            return ("history-dependent", out[:600])
        for r, o in zip(pl["reqs"], out.split(" ;; ")):
            if r["kind"] == "bad":
                if o.startswith("ERROR-ANSWER"):
                    return ("calc:error-answer", "a body that is not JSON is not answered with 400 and an error message: " + o)
                if o != "ERR":
                    return ("calc:value-without-engine-value", "a body that is not JSON was answered")
                continue
            v = oracle_calc(r, o) if r["kind"] == "calc" else oracle_trace(r, o)
            if v is not None:
                return v
        return None
    if k == "near":
        return oracle_near(pl, out)
    if k == "yaml":
        sel = pl.get("selected")
        return oracle_yaml(pl["tests"] if sel is None else [pl["tests"][i] for i in sel], out)
    if k in ("phist", "vforms", "scale") and out.startswith("META"):
        return ("listing:" + ("variable" if k == "vforms" else "parameter") + "-meta", f"{pl.get('id') or pl.get('var')}: {out[:400]}")
    if k == "phist":
        want = ",".join(f"{o}:{v}" for o, v in sorted(pl["history"])) or "-"
        served, _, at = out.partition(" | ")
        if served != want:
            return ("listing:parameter-history", f"/parameter/{pl['id']} serves {served}, the parameter holds {want}")
        hist = sorted(pl["history"])
        for o, got in zip(pl["probes"], at.split(",")):
            c = [v for d, v in hist if d <= o]
            if (c[-1] if c else "n") != got:
                return ("listing:parameter-value", f"{pl['id']} on day {o}: served history reads {c[-1] if c else 'n'}, the engine uses {got}")
        return None
    if k == "vforms":
        if out == "NOTLISTED":
            return ("listing:variable-missing", pl["var"])
        served, _, at = out.partition(" | ")
        want = {_ord(d): "F" for d in pl["starts"]}
        if pl["end"]:
            want[_ord(pl["end"]) + 1] = "n"
        if served != (",".join(f"{d}:{v}" for d, v in sorted(want.items())) or "-"):
            return ("listing:formula-dates", f"/variable/{pl['var']} serves {served}, the variable has {pl['starts']} end {pl['end']}")
        for o, got in zip(pl["probes"], at.split(",")):
            c = [d for d in sorted(want) if d <= o]
            rd = "-" if not c or want[c[-1]] == "n" else str(c[-1])
            if rd != got:
                return ("listing:formula-in-force", f"{pl['var']} on day {o}: listing reads {rd}, the engine uses {got}")
        return None
    if k == "params":
        if out != pl["want"]:
            return ("listing:parameters", f"/parameters lists {out}, the tree holds {pl['want']}")
        return None
    if k == "scale":
        if out.startswith(("DIFF", "NOBRACKETS")):
            return ("listing:scale", out[:500])
        return None
    if k == "app":
        if out != "same":
            return ("app:" + out.split(" ")[0][2:], out[:600])
        return None
    return None


def nontrivial(case: Case, out: str) -> bool:
    pl = case.payload
    k = pl["op"]
    if k in ("calc", "trace"):
        return out.startswith("OK") and bool(pl["req"]["engine"]["slots"])
    if k == "bad":
        return False
    return True


# --------------------------------------------------------------------------------------
# generators: situations and requests

PERIODS = {
    "month": ["2018-01", "2018-01", "2017-12", "month:2018-02", "2018-03", "2016-02"],
    "year": ["2018", "2017", "year:2018"],
    "eternity": ["ETERNITY", "ETERNITY", "eternity", "2018-01", "2017"],
    "day": ["2018-01-01", "day:2018-01-02", "2016-02-29"],
}
PERSON_IDS = [["a", "b", "c", "d"], ["Alice", "Bob", "Chloé", "Dan"], ["p1", "p2", "p3", "p4"], ["0", "1", "2", "3"],
              ["x y", "é", "2018", "p-1"], ["a", "b", "c", "d"]]
HOUSE_IDS = [["h1", "h2"], ["_", "house two"], ["0", "1"], ["a", "b"], ["h1", "h2"]]
BY_ENTITY = {"person": [v for v, d in A.VARS.items() if d[0] == "person"],
             "household": [v for v, d in A.VARS.items() if d[0] == "household"]}
STEP = Fraction(1, 8)


def input_value(rng: random.Random, var: str, lattice: bool = False):
    vt = A.vtype(var)
    if vt == "int":
        return rng.choice([0, 1, 2, 3, 5, -4, 12, 100, rng.randint(-20, 50)])
    if vt == "float":
        pool = [0.0, 0.5, 2.5, -1.25, 100.0, rng.randint(-64, 64) / 8, 3]
        if not lattice:
            pool += [0.1, 2.6, 1e-3, 33.33, 1000.0]
        return rng.choice(pool)
    if vt == "bool":
        return rng.random() < 0.5
    if vt == "str":
        if var in A.BOUNDED:
            return rng.choice(["abc", "ab", "", "hello", "Zz"])
        return rng.choice(["abc", "hello world", "héllo", "", "x", "a/b"])
    if vt == "date":
        return rng.choice(["1980-05-06", "2001-02-03", "1970-01-01", "2016-02-29", "1999-12-31"])
    return rng.choice(A.ENUM_NAMES)


def gen_population(rng: random.Random, with_households=None):
    np_ = rng.choice([1, 1, 2, 2, 3, 4])
    pids = rng.choice(PERSON_IDS)[:np_]
    persons = {p: {} for p in pids}
    if with_households is None:
        with_households = rng.random() < 0.85
    if not with_households:
        return persons, None
    nh = 1 if np_ == 1 or rng.random() < 0.5 else 2
    hids = rng.choice(HOUSE_IDS)[:nh]
    households = {h: {} for h in hids}
    left_out = pids[-1] if np_ > nh and rng.random() < 0.15 else None     # one person in no household: a group of their own
    for k, p in enumerate(pids):
        if p == left_out:
            continue
        h = hids[k % nh] if k < nh else rng.choice(hids)      # no empty household
        role = "adults" if len(households[h].get("adults", [])) < 2 and (k < nh or rng.random() < 0.5) else "children"
        households[h].setdefault(role, []).append(p)
    return persons, households


def fill_entity(rng: random.Random, table: dict, entity: str, nvars: int, null_rate: float, lattice=False, months_only=False):
    """inputs and null slots; two spellings of one period ("2018-02", "month:2018-02") are only
    written when both are null slots (two inputs for one period are the builder's business, C12)"""
    pool = [v for v in BY_ENTITY[entity] if v != "p_spiral"]       # see PROP.assumptions: spiral reads are history dependent
    for iid in table:
        for var in rng.sample(pool, min(nvars, len(pool))):
            _, vt, dp, is_input = A.VARS[var]
            pers = PERIODS[dp]
            chosen = list(dict.fromkeys(rng.choice(pers) for _ in range(rng.choice([1, 1, 2]))))
            canon = {}
            for per in chosen:
                key = "ETERNITY" if dp == "eternity" else per.split(":")[-1].upper()      # an eternal variable has one slot
                as_input = is_input and rng.random() > null_rate
                if key in canon and (as_input or canon[key]):
                    continue
                canon[key] = as_input
                if as_input:
                    if dp == "month" and vt in ("int", "float") and not months_only and rng.random() < 0.1 and "2018" not in canon:
                        table[iid].setdefault(var, {})["2018"] = 12 * rng.randint(0, 4)
                    else:
                        table[iid].setdefault(var, {})[per] = input_value(rng, var, lattice)
                else:
                    table[iid].setdefault(var, {})[per] = None


def gen_doc(rng: random.Random):
    persons, households = gen_population(rng)
    fill_entity(rng, persons, "person", rng.choice([1, 2, 3, 5]), 0.55)
    doc = {"persons": persons}
    if households is not None:
        fill_entity(rng, households, "household", rng.choice([0, 1, 2, 4]), 0.55)
        doc["households"] = households
        if rng.random() < 0.3:
            doc = {"households": doc["households"], "persons": doc["persons"]}
    return doc


def spoil_doc(rng: random.Random, doc):
    """documents the builder or the engine refuses (and a few odd but legal ones)"""
    doc = copy.deepcopy(doc)
    pid = next(iter(doc["persons"]))
    kind = rng.choice(["mismatch", "unknown-var", "unknown-entity", "bad-role", "null-role", "bad-value", "day-month",
                       "null-var", "deep", "empty", "list", "no-persons", "unknown-var-input", "bad-period", "shallow-null",
                       "enum-bad", "date-bad", "non-ascii-bounded", "input-period-mismatch"])
    if kind == "mismatch":
        doc["persons"][pid]["p_f_int"] = {"2018": None}
    elif kind == "unknown-var":
        doc["persons"][pid]["nope"] = {"2018-01": None}
    elif kind == "unknown-var-input":
        doc["persons"][pid]["nope"] = {"2018-01": 3}
    elif kind == "unknown-entity":
        doc["families"] = {"f": {"p_int": {"2018-01": None}}}
    elif kind == "bad-role":
        doc.setdefault("households", {"h": {}})
        next(iter(doc["households"].values()))["adults"] = ["nobody"]
    elif kind == "null-role":
        doc.setdefault("households", {"h": {}})
        next(iter(doc["households"].values()))["adults"] = [None]
    elif kind == "bad-value":
        doc["persons"][pid]["p_int"] = {"2018-01": "abc"}
    elif kind == "enum-bad":
        doc["persons"][pid]["p_enum"] = {"2018-01": "palace"}
    elif kind == "date-bad":
        doc["persons"][pid]["p_date"] = {"ETERNITY": "2018-02-30"}
    elif kind == "non-ascii-bounded":
        doc["persons"][pid]["p_strn"] = {"2018-01": "é"}
    elif kind == "input-period-mismatch":
        doc["persons"][pid]["p_bool"] = {"2018": True}
    elif kind == "day-month":
        doc["persons"][pid]["p_d_int"] = {"2018-01": None}
    elif kind == "null-var":
        doc["persons"][pid]["p_int"] = None
    elif kind == "shallow-null":
        doc["persons"][pid] = None
    elif kind == "deep":
        doc["persons"][pid]["p_int"] = {"2018-01": {"x": None}}
    elif kind == "empty":
        doc = {}
    elif kind == "list":
        doc = [doc]
    elif kind == "no-persons":
        doc = {k: v for k, v in doc.items() if k != "persons"}
    elif kind == "bad-period":
        doc["persons"][pid]["p_f_int"] = {rng.choice(["2018-13", "abc", "2018-02-30", "month:2018"]): None}
    return doc, kind


def mk_request_case(op: str, doc, tags=(), claimed=True) -> Case:
    toks, req = request_block(op, doc)
    return Case(line=" ".join(["api", op, *toks]), payload={"op": op, "req": req}, claimed=claimed, tags=(op,) + tuple(tags))


def mk_seq_case(reqs, tags=()) -> Case:
    blocks, payload = [], []
    for kind, doc in reqs:
        if kind == "bad":
            blocks.append("B")
            payload.append({"kind": "bad", "route": doc[0], "body": doc[1]})
            continue
        toks, req = request_block(kind, doc)
        blocks.append(" ".join(["C" if kind == "calc" else "T", *toks]))
        payload.append(req)
    return Case(line="api seq " + " ;; ".join(blocks), payload={"op": "seq", "reqs": payload}, tags=("seq",) + tuple(tags))


def gen_seq(rng: random.Random) -> Case:
    """requests over the SAME ids with different inputs, repeats, errors in between, both routes"""
    base = gen_doc(rng)
    docs = [base]
    for _ in range(rng.choice([1, 2, 3])):
        d = copy.deepcopy(base)
        for table in d.values():
            for inst in table.values():
                for var, pers in inst.items():
                    if isinstance(pers, dict):
                        for per in pers:
                            if pers[per] is not None and not isinstance(pers[per], list) and rng.random() < 0.7:
                                pers[per] = input_value(rng, var)
                            elif pers[per] is None and A.VARS[var][3] and rng.random() < 0.3:
                                pers[per] = input_value(rng, var)
        docs.append(d)
    docs.append(gen_doc(rng))
    if rng.random() < 0.6:
        docs.append(spoil_doc(rng, base)[0])
    reqs = []
    for _ in range(rng.choice([3, 4, 5, 6])):
        if rng.random() < 0.08:
            reqs.append(("bad", (rng.choice(["calculate", "trace"]), rng.choice(["{not json", "", "[1,", "{\"persons\": {\"a\": }}"]))))
        else:
            reqs.append((rng.choice(["calc", "calc", "trace"]), rng.choice(docs)))
    return mk_seq_case(reqs)


# --------------------------------------------------------------------------------------
# generators: YAML tests

TEST_PERIOD = "2018-01"


def gen_test_input(rng: random.Random, single=False):
    if single:      # one person in one household, under the ids of the short input layouts
        persons, households = {"person": {}}, {"household": {"adults": ["person"]}}
    else:
        persons, households = gen_population(rng, with_households=True)
    fill_entity(rng, persons, "person", rng.choice([3, 5, 8]), 0.0, lattice=True, months_only=True)
    fill_entity(rng, households, "household", rng.choice([2, 4, 6]), 0.0, lattice=True, months_only=True)
    for table in (persons, households):
        for inst in table.values():
            for var in [v for v in inst if not isinstance(inst[v], dict) or any(x is None for x in inst[v].values())]:
                if var not in ("adults", "children"):
                    del inst[var]
    return {"persons": persons, "households": households}


def shift_numeric(rng: random.Random, a: Fraction, relation: str, am, rm):
    """an expected value standing in `relation` (equal/within/at/beyond/far) to the actual value"""
    sgn = rng.choice([1, -1])
    if relation == "equal":
        return a
    if relation == "far":
        return a + sgn * (abs(a) + 100)
    if rm is not None and am is None:
        r = Fraction(rm)
        s = 1 if a >= 0 else -1
        if a == 0:
            return Fraction(0) if relation in ("within", "at") else STEP * sgn
        if r == Fraction(1, 2):
            return {"at": 2 * a, "within": 2 * a - s * STEP, "beyond": 2 * a + s * STEP}[relation]
        if r == 1:
            return {"at": a / 2, "within": a / 2 + s * STEP / 2, "beyond": a / 2 - s * STEP / 2}[relation]
        if r == 0:
            return a if relation in ("within", "at") else a + sgn * STEP
        return {"at": a, "within": a, "beyond": a + sgn * (abs(a) * 4 + STEP)}[relation]
    m = Fraction(am) if am is not None else Fraction(0)
    if m < 0:
        return a
    return {"within": a + sgn * m / 2, "at": a + sgn * m, "beyond": a + sgn * (m + STEP)}[relation]


def to_yaml_number(q: Fraction, as_int_ok: bool):
    if q.denominator == 1 and as_int_ok:
        return int(q)
    return float(q)


def expected_for(rng: random.Random, var: str, actual_tok: str, relation: str, am, rm):
    vt = A.vtype(var, "ext")
    a = tok_value(actual_tok)
    if vt in ("int", "float"):
        q = shift_numeric(rng, Fraction(a), relation, am, rm)
        return to_yaml_number(q, rng.random() < 0.7)
    if vt == "bool":
        if relation in ("equal", "within"):
            return rng.choice([a, int(a)])
        if relation == "at" and am is not None and Fraction(am) == 1:
            return not a
        return rng.choice([not a, int(not a)]) if relation != "far" else 5
    if vt == "enum":
        if relation in ("equal", "within", "at"):
            return a
        return rng.choice([n for n in A.ENUM_NAMES if n != a] + ["Owner"])
    if vt == "date":
        d = datetime.date.fromisoformat(a)
        if relation in ("equal", "within", "at"):
            return rng.choice([d, d, a])
        other = d + datetime.timedelta(days=rng.choice([1, -1, 365]))
        return rng.choice([other, other.isoformat()])
    if relation in ("equal", "within", "at"):
        return a
    return rng.choice([a + "x", a[:-1] if a else "y", a.upper() if a.upper() != a else a.lower(), "zzz"])


def margin_config(rng: random.Random, var: str, kind=None):
    """-> (test keys dict, effective abs, effective rel) for `var`; 'missing' = no default entry"""
    kind = kind or rng.choice(["none", "none", "abs", "abs", "rel", "both", "dict", "dict-missing", "neg"])
    if kind == "none":
        return {}, None, None
    if kind == "abs":
        m = rng.choice([1, 0.5, 2, 0.125, 0, 3])
        return {"absolute_error_margin": str(m) if rng.random() < 0.15 else m}, m, None      # a quoted number is accepted too
    if kind == "rel":
        r = rng.choice([0.5, 0.5, 1, 0, 0.25])
        return {"relative_error_margin": r}, None, r
    if kind == "both":
        m, r = rng.choice([1, 0.5, 4]), rng.choice([0.5, 1, 0.25])
        return {"absolute_error_margin": m, "relative_error_margin": r}, m, r
    if kind == "dict":
        m, d = rng.choice([1, 0.5, 2]), rng.choice([None, 0, 4])
        return {"absolute_error_margin": {var: m, "default": d}}, m, None
    if kind == "dict-missing":
        other = "p_f_float" if var != "p_f_float" else "p_f_int"
        return {"relative_error_margin": {other: 0.5}}, None, "missing"
    return {"absolute_error_margin": -1}, -1, None


def place(output: dict, layout: str, var: str, per, exps, ids):
    """write the expected values of one variable in the chosen layout"""
    ent = var_info(var)[0]

    def node(v):
        return v if per is None else {per: v}
    if layout == "variable":
        output[var] = node(exps)
    elif layout == "entity":
        output.setdefault(ent, {})[var] = node(exps)
    else:
        pl = A.PLURAL[ent]
        for iid, e in zip(ids[pl], exps):
            output.setdefault(pl, {}).setdefault(iid, {})[var] = node(e)


def expectations_of(output, period, margins, engine_ids, variant=""):
    """the harness's own reading of an output section: (var, period, inst, expected) records"""
    am, rm = margins.get("absolute_error_margin"), margins.get("relative_error_margin")

    def margin(m, var):
        if isinstance(m, dict):
            return m[var] if var in m else m.get("default", "missing")
        return float(m) if isinstance(m, str) else m
    out = []

    def leafs(var, per, inst, v, lay):
        if isinstance(v, dict):
            for p, w in v.items():
                leafs(var, str(p), inst, w, lay)
        else:
            out.append({"var": var, "period": per, "inst": inst, "expected_tok": A.j_tokens(v, f32=False),
                        "abs": margin(am, var), "rel": margin(rm, var), "layout": lay})
    for key, v in output.items():
        if A.vtype(key, variant):
            leafs(key, period, None, v, "variable")
        elif key in A.PLURAL and isinstance(v, dict):
            for var, w in v.items():
                leafs(var, period, None, w, "entity")
        elif key in A.PLURAL.values() and isinstance(v, dict):
            for iid, vals in v.items():
                if isinstance(vals, dict):
                    for var, w in vals.items():
                        leafs(var, period, [key, iid], w, "instance")
    return out


def short_input(inp, form: str, period):
    """the situation `inp` (explicit entities, explicit periods) in another of the input layouts
    `build_from_dict` accepts: 'variables' (one person, variables only), 'singular' (entities by
    their singular key), 'entities'; values for the test's period written without it"""
    def values(table):
        out = {}
        for var, pers in table.items():
            if isinstance(pers, dict) and list(pers) == [period]:
                out[var] = pers[period]          # the default period
            else:
                out[var] = pers
        return out
    if form == "variables":
        merged = {}
        for table in inp.values():
            for inst in table.values():
                merged.update({v: x for v, x in values(inst).items() if v not in ("adults", "children")})
        return merged
    if form == "singular":
        return {sg: values(next(iter(inp[pl].values()))) for sg, pl in A.PLURAL.items()}
    return {pl: {iid: values(inst) for iid, inst in table.items()} for pl, table in inp.items()}


def finish_test(name, inp, period, margins, output, layout, group=None, extra=None, options=None, form=None, baseline=""):
    """run the independent engine on the test's situation and tabulate it; `baseline`: which system run_tests is handed
    (A.baseline_system) — the engine run is that of the same legislation (such a test names no reform / extension)"""
    extra = dict(extra or {})
    variant = "+".join(k for k, key in (("reform", "reforms"), ("ext", "extensions")) if extra.get(key))
    if baseline:
        variant = A.BASELINE_VARIANT[baseline]
    exps = expectations_of(output or {}, None if period is None else str(period), margins, None, variant)
    pairs = [(x["var"], x["period"]) for x in exps if x["period"] is not None]
    accepted, ids, vecs = A.engine_run(inp, pairs, variant, extra.get("max_spiral_loops"))
    if extra.get("reforms") not in (None, A.REFORM, [A.REFORM]):
        accepted, ids, vecs = False, {}, {}          # no such reform: the test designates no engine
    if period is not None:
        from openfisca_core import periods
        try:
            periods.period(period)
        except Exception:
            accepted, ids, vecs = False, {}, {}      # the test's period is none: no situation is built
    if form:
        extra["yaml_input"] = short_input(inp, form, period)
    t = {"name": name, "input": inp, "period": period, "layout": layout, "group": group, **margins,
         "engine": {"accepted": accepted, "ids": ids, "vecs": [[v, p, list(r)] for (v, p), r in vecs.items()]},
         "expectations_tok": exps, "extra": extra, "options": options or {}, "baseline": baseline}
    if output is not None:
        t["output_tok"] = A.j_tokens(output, f32=False)
    world = world_tokens(inp, accepted, ids, vecs, extra_vars=[x["var"] for x in exps], with_keys=True, variant=variant)

    def mtoks(m):
        if m is None:
            return ["~"]
        if isinstance(m, dict):
            out = ["{"]
            for k, v in m.items():
                out += ["k" + A.hx(k), "~" if v is None else A.rat(Fraction(v))]
            return out + ["}"]
        return ["d" + A.rat(Fraction(float(m)))]
    toks = world + ["Y", "p~" if period is None else "p" + A.hx(str(period)), "a", *mtoks(margins.get("absolute_error_margin")),
                    "r", *mtoks(margins.get("relative_error_margin"))]
    for tok, key in (("N", "only_variables"), ("G", "ignore_variables")):
        if (options or {}).get(key) is not None:
            toks += [tok, *[A.hx(v) for v in options[key]], ";"]
    toks += ["o~"] if output is None else ["o", *A.j_tokens(output, f32=False)]
    return t, toks


def materialise(t):
    """payload test -> the dict written to YAML / read by the oracle (tokens decoded)"""
    t = dict(t)
    if "output_tok" in t:
        t["output"] = A.parse_tokens(t["output_tok"])[0]
    exps = []
    for x in t["expectations_tok"]:
        x = dict(x)
        x["expected"] = A.parse_tokens(x["expected_tok"])[0]
        exps.append(x)
    t["expectations"] = exps
    return t


def gen_atoms(rng: random.Random, inp, nvars: int, type_pick=None, variant="", msl=None, tperiod=None, force_var=None):
    """variables to assert on, with the engine's actual vectors"""
    ids = {"persons": list(inp["persons"]), "households": list(inp["households"])}
    names = list(A.VARS) + (list(A.EXT_VARS) if "ext" in variant else [])
    if "reform" in variant and not type_pick:
        names += ["p_f_int"] * 6
    if msl and not type_pick:
        names += ["p_spiral"] * 8
    if type_pick:
        names = [v for v in names if _slot_type(v) == type_pick]
    chosen = rng.sample(names, min(nvars, len(names)))
    if force_var:
        chosen = [force_var] + [v for v in chosen if v != force_var][:max(0, nvars - 1)]
    pairs = []
    for var in dict.fromkeys(chosen):
        dp = (A.VARS.get(var) or A.EXT_VARS[var])[2]
        if dp == "month":
            per = rng.choice([None, None, "2018-01", "2017-12", "month:2018-02"])
        elif dp == "year":
            per = rng.choice(["2018", "2017"])
        elif dp == "day":
            per = rng.choice(["2018-01-01", "2016-02-29"])
        else:
            per = rng.choice([None, "ETERNITY"])
        pairs.append((var, per))
    tperiod = str(tperiod or TEST_PERIOD)
    _, eids, vecs = A.engine_run(inp, [(v, p or tperiod) for v, p in pairs], variant, msl)
    ids = eids or ids
    atoms = []
    for var, per in pairs:
        r = vecs.get((var, per or tperiod))
        if r and r[0] == "ok":
            atoms.append((var, per, r[1]))
    return atoms, ids


def gen_extras(rng: random.Random):
    """keys of a test beside input/output: reforms / extensions (a string or a list), max_spiral_loops,
    keywords, description; and the input layout"""
    extra = {}
    if rng.random() < 0.15:
        extra["reforms"] = rng.choice([A.REFORM, [A.REFORM]])
    if rng.random() < 0.12:
        extra["extensions"] = rng.choice([A.EXTENSION, [A.EXTENSION]])
    if rng.random() < 0.15:
        extra["max_spiral_loops"] = rng.choice([1, 2, 3, 5])
    if rng.random() < 0.2:
        extra["keywords"] = rng.sample(["alpha", "beta", "gamma"], rng.choice([1, 2]))
    if rng.random() < 0.2:
        extra["description"] = "a generated test"
    form = rng.choice(["variables", "singular", "entities", "entities", None, None, None])
    return extra, form


def gen_yaml_group(rng: random.Random, name: str, type_pick=None, relation=None, mkind=None, three=False, options=None,
                   plain=False, baseline="", force_var=None):
    """-> list of (test payload, tokens): one test, or the same expectations in the three layouts"""
    extra, form = ({}, None) if plain or baseline else gen_extras(rng)
    variant = "+".join(k for k, key in (("reform", "reforms"), ("ext", "extensions")) if extra.get(key))
    if baseline:
        variant = A.BASELINE_VARIANT[baseline]
    inp = gen_test_input(rng, single=form in ("variables", "singular"))
    if force_var == "p_f_int":          # its input, non-zero in every month a test may ask for: the legislations then disagree
        for person in inp["persons"].values():
            person["p_int"] = {m: rng.choice([1, 2, 3, 5, -4, 12]) for m in ("2017-12", "2018-01", "2018-02", "2018-03")}
    # the test's period: other months, another spelling, an integer year (YAML types an unquoted 2018 as int)
    tperiod = TEST_PERIOD if plain else rng.choice([TEST_PERIOD] * 4 + ["2017-12", "2017-12", "2018-03", "month:2018-02", 2018])
    atoms, ids = gen_atoms(rng, inp, 1 if three or type_pick else rng.choice([1, 2, 3]), type_pick, variant,
                           extra.get("max_spiral_loops"), tperiod, force_var)
    if not atoms:
        return []
    margins, am, rm = margin_config(rng, atoms[0][0], mkind)
    built = []
    for var, per, toks in atoms:
        rel = relation or rng.choice(["equal", "equal", "within", "at", "at", "beyond", "beyond", "far"])
        if am == "missing" or rm == "missing":
            rel = "equal"
        exps = []
        which = rng.randrange(len(toks))
        for k, tk in enumerate(toks):
            r = rel if (k == which or rng.random() < 0.3) else "equal"
            exps.append(expected_for(rng, var, tk, r, am if am != "missing" else None, rm if rm != "missing" else None))
        built.append((var, per, exps))
    layouts = ["variable", "entity"] if form == "variables" else ["variable", "entity", "instance"]
    out = []
    if three:
        g = name
        for lay in layouts:
            output: dict = {}
            for var, per, exps in built:
                place(output, lay, var, per, exps, ids)
            out.append(finish_test(f"{name}-{lay}", inp, tperiod, margins, output, lay, group=g, extra=extra,
                                   options=options, form=form, baseline=baseline))
        return out
    output = {}
    lay0 = None
    for var, per, exps in built:
        lay = rng.choice(layouts)
        lay0 = lay0 or lay
        if lay != "instance" and len(set(map(repr, exps))) == 1 and rng.random() < 0.3:
            exps = exps[0]                      # a scalar, broadcast over the population
        if lay == "instance" and rng.random() < 0.6:
            # only some instances, and not in the order of the population
            pl = A.PLURAL[var_info(var)[0]]
            pairs_ = list(zip(ids[pl], exps))
            rng.shuffle(pairs_)
            pairs_ = pairs_[:rng.randint(1, len(pairs_))]
            place(output, lay, var, per, [e for _, e in pairs_], {**ids, pl: [i for i, _ in pairs_]})
            continue
        place(output, lay, var, per, exps, ids)
    out.append(finish_test(name, inp, tperiod, margins, output, lay0, extra=extra, options=options, form=form, baseline=baseline))
    return out


def gen_yaml_sysseq(rng: random.Random, name: str):
    """YAML tests run one after the other IN ONE PROCESS against different systems of the same country package (the
    fixed system, the system with the reform's legislation, a Reform object of the fixed system, the system with the
    extension's variable) and back: each must be judged against the system it is run on, whatever ran before."""
    kinds = ["", "reform", "reformobj", "ext"]
    first = rng.choice(kinds)
    seq = [first, rng.choice([k for k in kinds if A.BASELINE_VARIANT[k] != A.BASELINE_VARIANT[first]])]
    seq += [rng.choice(kinds) for _ in range(rng.choice([1, 2]))]
    tests = []
    for j, b in enumerate(seq):
        # p_f_int is what the legislations disagree on (2 * p_int + 1 against 3 * p_int + 1)
        tests += gen_yaml_group(rng, f"{name}s{j}", plain=True, baseline=b, force_var="p_f_int" if rng.random() < 0.85 else None,
                                relation=rng.choice(["equal", "equal", "beyond"]), mkind=rng.choice(["none", "abs"]))
    return tests


def gen_options(rng: random.Random):
    """options of run_tests for one file"""
    r = rng.random()
    names = list(A.VARS)
    if r < 0.5:
        return {}
    if r < 0.7:
        return {"ignore_variables": rng.sample(names, rng.choice([0, 6, 15]))}
    if r < 0.85:
        return {"only_variables": rng.sample(names, rng.choice([0, 20, 35]))}
    if r < 0.95:      # verbose with and without max_depth / aggregate; aggregate alone (no effect without verbose)
        return rng.choice([{"verbose": True}, {"verbose": True}, {"verbose": True, "max_depth": rng.choice([1, 3])},
                           {"verbose": True, "aggregate": True}, {"verbose": True, "max_depth": 2, "aggregate": True},
                           {"aggregate": True}, {"max_depth": 2}])
    return {"ignore_variables": rng.sample(names, 8), "only_variables": rng.sample(names, 30)}


def gen_yaml_odd(rng: random.Random, name: str, options=None):
    """expectations the statement does not decide (correspondence only): ill-typed values, shapes
    that do not broadcast, unknown keys and instances, missing output / period / default margin"""
    inp = gen_test_input(rng)
    ids = {"persons": list(inp["persons"]), "households": list(inp["households"])}
    n = len(ids["persons"])
    kind = rng.choice(["unknown-key", "unknown-instance", "no-output", "no-period", "short-list", "long-list", "empty-list",
                       "scalar", "list-for-instance", "text-for-number", "number-for-text", "number-for-enum", "bool-for-enum",
                       "date-for-number", "text-for-date", "entity-not-mapping", "instance-not-mapping", "other-entity-singular",
                       "other-entity-instance", "bad-input", "nested-periods", "mismatch-period", "number-for-date", "text-list-number",
                       "non-ascii-input", "bad-reform", "ignored-unknown-instance", "empty-output", "bad-test-period"])
    extra = {}
    period, margins, output = TEST_PERIOD, {}, {}
    pid = ids["persons"][0]
    if kind == "unknown-key":
        output = {"p_f_int": [1] * n, "nope": 5}
    elif kind == "unknown-instance":
        output = {"persons": {"zz": {"p_f_int": 1}}}
    elif kind == "no-output":
        output = None
    elif kind == "no-period":
        period, output = None, {"p_f_int": [1] * n}
    elif kind == "short-list":
        output = {"p_f_int": [1] * max(0, n - 1)}
    elif kind == "long-list":
        output = {"p_f_int": [1] * (n + 1)}
    elif kind == "empty-list":
        output = {"p_f_int": []} if rng.random() < 0.5 else {"persons": {pid: {"p_f_int": []}}}
    elif kind == "scalar":
        output = {"p_f_int": 1}
    elif kind == "list-for-instance":
        output = {"persons": {pid: {"p_f_int": [1, 1]}}}
    elif kind == "text-for-number":
        output = {"p_f_int": "abc"} if rng.random() < 0.5 else {"p_f_float": ["abc"] * n}
    elif kind == "number-for-text":
        output = {rng.choice(["p_f_str", "p_f_strn", "p_str"]): rng.choice([5, 0.5, True, [5] * n])}
    elif kind == "number-for-enum":
        output = {"p_f_enum": rng.choice([3, [3] * n])} if rng.random() < 0.5 else {"persons": {pid: {"p_f_enum": 0}}}
    elif kind == "bool-for-enum":
        output = {"p_f_enum": True}
    elif kind == "date-for-number":
        output = {"p_f_int": datetime.date(2018, 1, 1)}
    elif kind == "text-for-date":
        output = {"p_f_date": rng.choice(["abc", "2018-02-30"])}
    elif kind == "number-for-date":
        output = {"p_f_date": 5}
    elif kind == "text-list-number":
        output = {"p_f_int": ["1"] * n}
    elif kind == "entity-not-mapping":
        output = {"person": 5}
    elif kind == "instance-not-mapping":
        output = {"persons": {pid: 5}}
    elif kind == "other-entity-singular":
        output = {"person": {"h_f_nb": [1] * len(ids["households"])}}
    elif kind == "other-entity-instance":
        output = {"persons": {pid: {"h_f_nb": 1}}}
    elif kind == "bad-input":
        inp = copy.deepcopy(inp)
        inp["persons"][pid]["nope"] = {"2018-01": 1}
        output = {"p_f_int": [1] * n}
    elif kind == "non-ascii-input":        # an error that is neither VariableNotFound nor a situation error
        inp = copy.deepcopy(inp)
        inp["persons"][pid]["p_strn"] = {"2018-01": "é"}
        output = {"p_f_int": [1] * n}
    elif kind == "bad-reform":
        extra = {"reforms": rng.choice(["ofverif.nosuch.Reform", "ofverif.apiutil.system", "noreform"])}
        output = {"p_int": [0] * n}
    elif kind == "ignored-unknown-instance":
        options = dict(options or {}, ignore_variables=["p_f_int"])
        output = {"persons": {"zz": {"p_f_int": 1}}}
    elif kind == "empty-output":
        output = {}
    elif kind == "bad-test-period":        # set_default_period raises: an unexpected error while parsing the input
        period, output = rng.choice(["abc", "2018-13", "month:2018"]), {"p_int": [0] * n}
    elif kind == "nested-periods":
        output = {"p_f_int": {"2018-01": {"2018-02": [1] * n}}}
    elif kind == "mismatch-period":
        output = {"p_f_int": {"2018": [1] * n}}
    claimed = kind not in ("number-for-date", "text-list-number")
    t, toks = finish_test(name, inp, period, margins, output, "odd:" + kind, extra=extra, options=options)
    return t, toks, claimed, options


def mk_yaml_case(tests_toks, tags=(), claimed=True, options=None, single=False) -> Case:
    selected = selected_tests([t for t, _ in tests_toks], (options or {}).get("name_filter"))
    line = "api yaml " + " ;; ".join(" ".join(tests_toks[k][1]) for k in selected) if selected else "api echo -"
    how = ["file", "file", "list", "dir", "yml"][len(line) % 5]
    payload = {"op": "yaml", "tests": [t for t, _ in tests_toks], "options": options or {}, "single": single, "how": how,
               "selected": selected}
    if any(t.get("baseline") for t, _ in tests_toks):
        tags = tuple(tags) + ("system-sequence",)
    tags = ("yaml", "paths:" + how) + tuple(tags) + tuple("opt:" + k for k in (options or {})) + (("single-mapping",) if single else ())
    return Case(line=line, payload=payload, claimed=claimed, tags=tags)


def yaml_grid(rng: random.Random):
    """every value type x the three layouts (same expectations) x relation to the margins x margin kind"""
    cases = []
    for typ in A.TYPES:
        combos = [(rel, mk) for mk in ("none", "abs", "rel", "both") for rel in ("equal", "within", "at", "beyond")]
        for chunk_start in range(0, len(combos), 2):
            tests = []
            for rel, mk in combos[chunk_start:chunk_start + 2]:
                tests += gen_yaml_group(rng, f"grid-{typ}-{rel}-{mk}", type_pick=typ, relation=rel, mkind=mk, three=True,
                                        plain=True)
            if tests:
                cases.append(mk_yaml_case(tests, tags=("grid", "type:" + typ)))
    return cases


def enumerate_thorough():
    """the complete grid value type x layout x relation to the margin x margin kind, on three further
    fixed populations (the grid of `generate` uses the run's seed)"""
    A.system()
    out = []
    for k in (101, 202, 303):
        out += yaml_grid(random.Random(k))
    return out


# --------------------------------------------------------------------------------------
# generators: listings


def listing_cases(seed: int):
    tbs = A.system(seed)
    out = []
    tree = {}
    probes_iso = ["0001-01-01", "2009-12-30", "2009-12-31", "2010-01-01", "2012-05-31", "2012-06-01", "2012-06-02", "2014-12-31",
                  "2015-01-01", "2015-01-02", "2017-03-14", "2017-03-15", "2017-03-16", "2019-12-31", "2020-01-01", "2020-02-28",
                  "2020-02-29", "2020-03-01", "2024-12-31", "2025-01-01", "9999-12-31"]
    probes = [_ord(d) for d in probes_iso]
    from openfisca_core.parameters import Parameter, ParameterNode, Scale

    def walk(node, into):
        for name, child in node.children.items():
            if isinstance(child, Parameter):
                into[name] = "p"
                hist = [(_ord(e.instant_str), pval_token(e.value)) for e in child.values_list]
                line = f"api phist {','.join(f'{d}:{v}' for d, v in hist) or '-'} {','.join(map(str, probes))}"
                out.append(Case(line=line, payload={"op": "phist", "seed": seed, "id": child.name, "history": [list(h) for h in hist],
                                                    "probes": probes}, tags=("listing", "phist")))
            elif isinstance(child, Scale):
                into[name] = "s"
                key = "rate" if "rate" in child.brackets[0].children else "amount"
                hist = lambda par: ",".join(f"{_ord(e.instant_str)}:{pval_token(e.value)}" for e in par.values_list) or "-"
                brs = ";".join(f"{hist(b.children['threshold'])}~{hist(b.children[key])}" for b in child.brackets)
                out.append(Case(line=f"api scale {brs} {','.join(map(str, probes[1:]))}",
                                payload={"op": "scale", "seed": seed, "id": child.name, "probes": probes[1:]}, tags=("listing", "scale")))
            elif isinstance(child, ParameterNode):
                into[name] = {}
                walk(child, into[name])
    walk(tbs.parameters, tree)
    ids = []

    def leaves(t, pre):
        for k, v in t.items():
            name = k if not pre else pre + "." + k
            if isinstance(v, dict):
                leaves(v, name)
            else:
                ids.append(name)
    leaves(tree, "")
    want = ",".join(A.hx(i) for i in sorted(ids, key=lambda s: s.encode())) or "-"
    out.append(Case(line="api params " + " ".join(A.j_tokens(tree)), payload={"op": "params", "seed": seed, "want": want},
                    tags=("listing", "params")))
    out.append(Case(line="api echo same", payload={"op": "app", "seed": seed}, tags=("listing", "app", "K-only")))
    dated = dict(A.dated_variables(seed)) if seed is not None else {}
    dated["p_dated"] = (["0001-01-01", "2015-06-01"], "2019-12-31")
    for name, (_, _, _, is_input) in (A.VARS.items() if seed is None else [("p_f_int", A.VARS["p_f_int"]), ("h_enum", A.VARS["h_enum"])]):
        dated.setdefault(name, ([] if is_input else ["0001-01-01"], None))
    for var, (starts, stop) in dated.items():
        line = f"api vforms {','.join(str(_ord(d)) for d in starts) or '-'} {_ord(stop) if stop else '-'} {','.join(map(str, probes))}"
        out.append(Case(line=line, payload={"op": "vforms", "seed": seed, "var": var, "starts": starts, "end": stop, "probes": probes},
                        tags=("listing", "vforms")))
    return out


# --------------------------------------------------------------------------------------
# the streams


def malformed_lines():
    bad = ["api", "api calc", "api calc R", "api calc R {", "api calc R { k70 }", "api calc T 70 nosuchtype R { }", "api calc R n n",
           "api trace", "api seq", "api seq X R { }", "api yaml", "api yaml Y", "api yaml Y p~ a ~ r ~", "api yaml Y p~ a ~ r ~ o [ ]",
           "api phist", "api phist 1:i1", "api phist x:i1 1", "api vforms 1 2", "api vforms a - 1", "api params", "api params { k70",
           "api echo", "api scale", "api scale 1:i0 1", "api scale 1:i0~x:i1 1", "api nosuch 1", "api calc V 70 70 70 ok zz ; R { }", "api calc X 70 70 x R { }", "api yaml Y p~ a d1/0 r ~ o { }"]
    return [Case(line=l, payload={"op": "bad"}, tags=("malformed",)) for l in bad]


def generate(rng: random.Random, tier: str):
    A.system()
    quick = tier == "quick"
    n_calc, n_trace, n_seq, n_yaml_files, n_odd, n_sys = (450, 150, 90, 100, 60, 8) if quick else (4500, 1400, 500, 1000, 400, 40)
    n_near = 150 if quick else 2000
    n_sysseq = 24 if quick else 300
    out = []
    for k in range(n_calc):
        doc = gen_doc(rng)
        if rng.random() < 0.18:
            doc, kind = spoil_doc(rng, doc)
            out.append(mk_request_case("calc", doc, tags=("spoiled:" + kind,)))
        else:
            out.append(mk_request_case("calc", doc))
    for k in range(n_trace):
        doc = gen_doc(rng)
        if rng.random() < 0.12:
            doc, kind = spoil_doc(rng, doc)
            out.append(mk_request_case("trace", doc, tags=("spoiled:" + kind,)))
        else:
            out.append(mk_request_case("trace", doc))
    for k in range(n_seq):
        out.append(gen_seq(rng))
    out += yaml_grid(rng)
    for k in range(n_yaml_files):
        tests = []
        options = gen_options(rng)
        single = rng.random() < 0.08
        for j in range(1 if single else rng.choice([3, 4, 5, 6])):
            tests += gen_yaml_group(rng, f"f{k}t{j}", three=(not single) and rng.random() < 0.25, options=options)
        if tests:
            if rng.random() < 0.15:        # the runner's option name_filter: by test name, file name, keyword; nothing selected
                kws = sorted({w for t, _ in tests for w in ((t.get("extra") or {}).get("keywords") or [])})
                options = dict(options, name_filter=rng.choice(["t1", "t0", "t", "case", "as", "alph", "zz", "t%d" % (len(tests) - 1)] + kws * 4))
            out.append(mk_yaml_case(tests, options=options, single=single and len(tests) == 1))
    for k in range(n_sysseq):
        tests = gen_yaml_sysseq(rng, f"q{k}")
        if tests:
            out.append(mk_yaml_case(tests))
    for k in range(n_odd):
        t, toks, claimed, options = gen_yaml_odd(rng, f"odd{k}", gen_options(rng) if rng.random() < 0.3 else None)
        group = [(t, toks)]
        for j in range(2):       # two ordinary tests under the same options around it
            group += gen_yaml_group(rng, f"odd{k}t{j}", options=options)
        rng.shuffle(group)
        out.append(mk_yaml_case(group, tags=("odd",), claimed=claimed, options=options))
    for k in range(n_near):
        out.append(gen_near(rng))
    out += listing_cases(None)
    for s in range(n_sys):
        out += listing_cases(rng.randrange(10 ** 6))
    out += malformed_lines()
    return out


# --------------------------------------------------------------------------------------
# regression corpus: the minimal failing inputs of F-C20a, F-C20b, F-C20c (all repaired)


def corpus():
    A.system()
    sit = {"persons": {"a": {"p_int": {"2018-01": 3}, "p_str": {"2018-01": "hello"}, "p_strn": {"2018-01": "abc"}},
                       "b": {"p_int": {"2018-01": 1}}},
           "households": {"h1": {"adults": ["a"], "children": ["b"]}}}
    out = []
    # F-C20b: a str variable with max_length rendered as the repr of bytes ("b''", "b'abc'")
    out.append(mk_request_case("calc", {"persons": {"a": {"p_strn": {"2018-01": None}}}}, tags=("F-C20b",)))
    out.append(mk_request_case("calc", {"persons": {"a": {"p_strn": {"2018-01": "abc"}}, "b": {"p_strn": {"2018-01": None}},
                                                    "c": {"p_f_strn": {"2018-01": None}, "p_int": {"2018-01": 2}}}}, tags=("F-C20b",)))
    out.append(mk_request_case("trace", {"persons": {"a": {"p_strn": {"2018-01": None}, "p_f_strn": {"2018-01": None}}}}, tags=("F-C20b",)))

    def one(name, output, layout, margins=None, options=None):
        return finish_test(name, sit, TEST_PERIOD, margins or {}, output, layout, options=options)
    # F-C20a: an enum expectation in the by-instance layout always errs
    out.append(mk_yaml_case([one("enum-instance", {"persons": {"a": {"p_f_enum": "owner"}, "b": {"p_f_enum": "free_lodger"}}}, "instance"),
                             one("enum-variable", {"p_f_enum": ["owner", "free_lodger"]}, "variable"),
                             one("enum-entity", {"person": {"p_f_enum": ["owner", "free_lodger"]}}, "entity"),
                             one("enum-instance-wrong", {"persons": {"a": {"p_f_enum": "tenant"}}}, "instance")], tags=("F-C20a",)))
    # F-C20c: a text-valued str output can never pass
    out.append(mk_yaml_case([one("str-variable", {"p_str": ["hello", ""]}, "variable"),
                             one("str-instance", {"persons": {"a": {"p_str": "hello", "p_f_str": "no"}}}, "instance"),
                             one("strn-entity", {"person": {"p_strn": ["abc", ""], "p_f_strn": ["pos", "pos"]}}, "entity"),
                             one("str-wrong", {"p_str": ["hellO", ""]}, "variable")], tags=("F-C20c",)))
    # F-C20d: the option verbose without max_depth failed every test
    for opts in ({"verbose": True}, {"verbose": True, "aggregate": True}, {"verbose": True, "max_depth": 1}, {"aggregate": True}):
        out.append(mk_yaml_case([one("verbose-pass", {"p_f_int": [7, 3]}, "variable", options=opts),
                                 one("verbose-fail", {"persons": {"b": {"p_f_int": 4}}}, "instance", options=opts)],
                                tags=("F-C20d",), options=opts))
    # by instance: some instances only, not in the order of the population
    out.append(mk_yaml_case([one("instance-order", {"persons": {"b": {"p_f_int": 3}, "a": {"p_f_int": 7}}}, "instance"),
                             one("instance-subset", {"persons": {"b": {"p_f_int": 3}}}, "instance"),
                             one("instance-subset-wrong", {"persons": {"b": {"p_f_int": 7}}}, "instance")], tags=("instances",)))
    # the margins, exactly at and just beyond
    out.append(mk_yaml_case([one("abs-at", {"p_f_int": [8, 3]}, "variable", {"absolute_error_margin": 1}),
                             one("abs-beyond", {"p_f_int": [8.125, 3]}, "variable", {"absolute_error_margin": 1}),
                             one("rel-at", {"p_f_int": [14, 6]}, "variable", {"relative_error_margin": 0.5}),
                             one("rel-beyond", {"p_f_int": [14.125, 6]}, "variable", {"relative_error_margin": 0.5}),
                             one("none-equal", {"persons": {"a": {"p_f_int": 7}, "b": {"p_f_int": 3}}}, "instance"),
                             one("none-beyond", {"person": {"p_f_int": [7, 3.125]}}, "entity")], tags=("margins",)))
    out.append(mk_seq_case([("calc", sit | {"persons": {**sit["persons"], "a": {**sit["persons"]["a"], "p_f_int": {"2018-01": None}}}}),
                            ("calc", {"persons": {"a": {"p_int": {"2018-01": 9}, "p_f_int": {"2018-01": None}}}}),
                            ("trace", {"persons": {"a": {"p_f_int": {"2018-01": None}}}}),
                            ("calc", {"persons": {"a": {"p_f_int": {"2018": None}}}}),
                            ("calc", {"persons": {"a": {"p_f_int": {"2018-01": None}}}})], tags=("corpus",)))
    return out


def neighbours(case: Case):
    """drop one test of a YAML file / one request of a sequence / one slot of a document"""
    pl = case.payload
    out = []
    if pl["op"] == "yaml" and len(pl["tests"]) > 1 and case.line.startswith("api yaml "):
        blocks = case.line[len("api yaml "):].split(" ;; ")
        sel = pl.get("selected") or list(range(len(pl["tests"])))
        opts = {k_: v for k_, v in (pl.get("options") or {}).items() if k_ != "name_filter"}
        for k in range(len(blocks)):
            out.append(Case(line="api yaml " + blocks[k], payload={"op": "yaml", "tests": [pl["tests"][sel[k]]],
                                                                  "options": opts}, tags=("neighbour",)))
    elif pl["op"] == "seq":
        blocks = case.line[len("api seq "):].split(" ;; ")
        for k, r in enumerate(pl["reqs"]):
            op = r["kind"]
            if op == "bad":
                continue
            out.append(Case(line=f"api {op} " + blocks[k][2:], payload={"op": op, "req": r}, tags=("neighbour",)))
    elif pl["op"] in ("calc", "trace") and isinstance(pl["req"]["doc"], dict):
        doc = pl["req"]["doc"]
        for plural, iid, var, per in pl["req"]["engine"]["slots"][:8]:
            d = copy.deepcopy(doc)
            del d[plural][iid][var][per]
            if not d[plural][iid][var]:
                del d[plural][iid][var]
            out.append(mk_request_case(pl["op"], d, tags=("neighbour",)))
    return out


def init_worker():
    A.system()
    A.client()


PROP = Prop(
    pid="C20",
    lean_targets=["OFCore.Props.C20"],
    driver="ofdrv_api",
    generate=generate, impl=impl, oracle=oracle, nontrivial=nontrivial, corpus=corpus, neighbours=neighbours,
    init_worker=init_worker, enumerate_thorough=enumerate_thorough,
    search_budget_factor=2,
    level_text=("Theorems (Lean 4, all JSON documents, all engines, all tests): the /calculate answer fills every null slot with "
                "render(engine value), keeps every other leaf and the whole key structure; it answers iff the engine has a value "
                "for every slot; answers are fixed points; /trace reports the same values under the canonical period key; the "
                "verdict of a YAML test is 'pass' iff every expectation of the normalised layouts holds within the margins "
                "(<= at the margin, fail just beyond), the verdict is monotone in the margins, the three layouts agree and denote the "
                "same elementary assertions; parameter histories, formula dates and scale rows as served read back to the engine's "
                "value on every day (scales: unless the recorded deviation of build_api_scale applies). The handler's "
                "statelessness is a property of the model by construction and of the code by the sequence correspondence only."),
    extra_lean_files=["OFCore/Api.lean", "OFCore/Lemmas/Api.lean", "OFCore/Drv/Api.lean"],
    rule=("a programmatic tax-benefit system (person + household with adults/children; input and formula variables of every "
          "value type: int, float, bool, str, str with max_length, date, Enum; month/year/day/eternity definition periods; dated "
          "formulas with an end; parameters with dated values and scales). `api calc` / `api trace`: situations of 1-4 persons "
          "and 0-2 households (several id alphabets, either entity first), inputs and null slots over all entities, types and "
          "period spellings, 18 % refused documents (period mismatch, unknown variable/entity/role member, ill-typed input, "
          "null in a role list, null above the slot depth, empty or non-object documents, invalid periods); posted through the "
          "Flask test client of create_app(system); every answer compared with an independent engine run (SimulationBuilder + "
          "Simulation.calculate on a copy of the same situation, tabulated on the protocol line and rendered by the Lean model). "
          "`api seq`: 3-6 requests (both routes, same ids with different inputs, repeats, refused documents in between) sent to one "
          "application in the given, reversed, rotated and shuffled orders, to a fresh application per request and to the worker's "
          "long-lived application: all answers must coincide. `api yaml`: YAML files written under /var/tmp (removed afterwards) "
          "and run through run_tests in-process, per-test outcomes collected by a conftest beside the file: a complete grid value "
          "type x {by variable, by entity, by instance} x {equal, within, at, just beyond} x {no margin, absolute, relative, both}, "
          "random tests (1-3 variables, mixed layouts, scalars broadcast, per-variable margin tables, negative margin), and the "
          "undecided shapes (ill-typed expectations, lists that do not broadcast, unknown keys/instances, missing output, period or "
          "default margin). `api phist` / `api vforms` / `api params` / scales: /parameter/<id>, /variable/<id>, /parameters, "
          "/variables of the fixed system and of generated ones compared with the system's own Parameter / Variable objects at 21 "
          "probe dates. Added by the coverage review: non-default default values, documentation / references / formula docstrings, a "
          "spiralling variable (value depends on max_spiral_loops), a reform and an extension package the tests designate "
          "(`reforms:` / `extensions:` as a string or a list; the independent engine is a system built directly with the other "
          "formula / the extra variable), tests' `max_spiral_loops`, keywords, description, test periods in other months / other "
          "spellings / as an integer year, integer year keys in `output`, margins as quoted numbers, the three input layouts of "
          "build_from_dict (entities, singular keys, variables only) with and without the default period, a person left out of "
          "every household, files holding one test as a mapping, run_tests on a path / a list / a directory / a .yml file, the "
          "options verbose+max_depth(+aggregate), only_variables, ignore_variables (modelled: `shouldIgnore`), name_filter (by test "
          "name, file name, keyword, or selecting nothing: exactly the selected tests run, in file order, under their names); "
          "sequences of run_tests calls IN ONE PROCESS against different systems of the same country package (the fixed system, "
          "a system built with the reform's legislation, a Reform object of the fixed system, a system with the extension's "
          "variable, and back), each test judged against an independent engine run on ITS system; bodies that are "
          "not JSON inside request sequences; `api near`: assert_near called directly on scalars, lists, tuples, arrays; listings: "
          "dotted legacy ids, trailing slashes, 404s, parameter nodes, /entities, descriptions / documentation / metadata, "
          "`expected` placeholders, amount and rate scales with brackets introduced later and stopped scales, every variable's "
          "default value / value type / definition period / entity / possible values. Round 2: every answer of /calculate and "
          "/trace (accepted or refused) carries the served package's Country-Package / Country-Package-Version headers; a situation "
          "the builder refuses is answered with the builder's own error (status = its code or 400, body = its path -> message "
          "tree, i.e. the path of the faulty value; 404 for an unknown variable); a body that is not JSON gets 400 with an error "
          "message; per served system one `app` case: `/` (300, points to /spec), the package headers on listings and 404s, "
          "`/spec` — its paths and methods are exactly the application's routes, its entity schemas list exactly the system's "
          "variables with their JSON types / enum members and the group entities' roles, its situation and trace schemas name "
          "exactly the system's entities, `servers` is the request's host, `info.version` the package version. "
          "Non-trivial = an answered request with at least one null slot, any sequence, YAML file, direct call or listing."),
    assumptions=[
        "the engine is abstract in the model: what the built simulation answers (get_variable, calculate, get_index, "
        "periods.period, describe_entities) is tabulated on each protocol line from an independent run of the real engine; the "
        "situation builder is property C12's, the engine C01's",
        "floats are compared as float32: the handler prints the shortest decimal of the float32 (float(str(x))); both sides are "
        "read back through numpy.float32; YAML tests use a dyadic lattice (multiples of 1/32 below 2^12) on which assert_near's "
        "float32 arithmetic is exact; supplied inputs are additionally compared exactly (Python equality) in the adapter",
        "dates are read from either the ISO form or the RFC-822 form Flask emits for datetime.date (the statement fixes no syntax); "
        "the application sorts the keys of its JSON answers, so objects are compared as key -> value maps (keys sorted on both sides)",
        "a trace entry is looked up under `variable<canonical period text>`; requestedCalculations keeps the caller's spelling; only "
        "the `value` of the requested calculations' entries is compared (dependencies, timings and parameters are not modelled)",
        "statelessness of the real handler (a fresh Simulation per request on the shared read-only system, no module-level cache "
        "leaking between requests) is NOT a theorem about the code: the model's handler takes no state; it is carried by the `seq` "
        "correspondence (one application in several orders vs a fresh application per request)",
        "modelled, not verified: Flask routing and JSON layer, dpath globbing (arrays are leaves for the walk: the builder refuses "
        "every document with null inside an array in reach of the glob; `axes` are not generated), pytest collection, the YAML "
        "loader's typing of scalars, numpy broadcasting and astype conversions used by assert_near",
        "YAML claim domain: expectations typed like the variable (number/bool for int, float, bool; text for str and Enum; date or "
        "full ISO text for date), text that Python's float() rejects, homogeneous lists; a number expected of a date and lists of "
        "numeric text are answered but not binding; the oracle abstains on expectations the statement does not decide "
        "(ill-typed, non-broadcastable, unknown keys) and the correspondence with the model alone speaks there",
        "a variable that reads itself at an earlier period (spiral) has no value that is a function of (variable, period): what a "
        "simulation returns for it depends on what was asked before in the same simulation; such a variable is only requested "
        "at one period per YAML test (with max_spiral_loops) and never through the API streams — on it /trace (first node kept "
        "under a key) and /calculate (last top-level value) differ, reported as an observation, outside the theorem's hypothesis "
        "`Coherent`",
        "the printing options of run_tests (verbose, aggregate, max_depth, in every combination) must not change a verdict; "
        "F-C20d (fixed): verbose without max_depth failed every test",
        "two inputs for one slot (two spellings of one period, two periods of an eternal variable) are the builder's business "
        "(C12) and are not generated as inputs",
        "listings: parameter value histories and formula start dates / end are theorems (C20_listings_partial); scales are compared "
        "with the engine on trees without interior null thresholds only (DESIGN section 7: build_api_scale treats a scale as stopped "
        "when its first bracket stops and emits nothing for a threshold that becomes null in mid-history) — not binding",
    ],
    partial_theorems=["C20_listings_partial: parameter value history and formula start dates / end as served = those of the "
                      "Parameter / Variable objects, and a reader of the listing recovers the value / formula the engine uses on every "
                      "day; scales: C20_listing_scale (build_api_scale transcribed; the reader recovers the brackets in force on every day "
                      "unless every threshold is null at the latest change date or the first bracket is stopped — the recorded deviation); "
                      "descriptions, metadata, source links and the /spec document are left to the correspondence"],
    exhaustive_note=("the finite grid value type (7: int, float, bool, str, str with max_length, date, Enum) x layout (3, the same "
                     "expectations in each) x relation to the margin (equal, within, at, just beyond) x margin kind (none, absolute, "
                     "relative, both) is enumerated completely: once in every tier on a population drawn from the run's seed, and "
                     "in the thorough tier on three further fixed populations"),
)
