"""C13 — a cloned simulation and its original never affect each other.

Protocol (driver `ofdrv_heap`, see lean/OFCore/OFCore/Drv/Heap.lean and harness/ofverif/simutil.py):

    heap run <sys> <spec> <pre> <trace> <ops>
        -> <alias graph>;O<obs>;C<obs>|<result>;O<obs>;C<obs>|…

A case is a whole history: a rule system with formulas, a population structure with or without
`MemoryConfig(max_memory_occupation=0)`, operations on the original before `clone(trace=…)`, then an
interleaved sequence of public-API calls on the original (`o`) and the clone (`c`).  The answer holds
the alias graph right after `clone()` and, after every call, its result and everything observable
from both simulations.

The oracle does not look at the model: it runs the original's sub-sequence alone on a fresh identical
simulation, and the clone's sub-sequence alone on another, and compares every readable value (and
result, and recorded trace root) after every step of the interleaved history; right after `clone()` it
checks that both sides hold the same values and entity structure and that every part of the clone
refers to the clone.
"""
from __future__ import annotations

import random

from .. import simutil as su
from ..core import Case, Prop

M1, M2, M12, M3 = "month/2018,1,1/1", "month/2018,2,1/1", "month/2017,12,1/1", "month/2018,3,1/1"
Y18, Y17 = "year/2018,1,1/1", "year/2017,1,1/1"
MONTHS = [M1, M2, M12, M3]
YEARS = [Y18, Y17]
ETERNITY = "eternity"

SIG_HOLDER = "clone-holder-bound-to-original"
SIG_MEMBERS = "clone-members-are-original-persons"
SIG_POP = "clone-population-bound-to-original"
SIG_MEMORY = "clone-shares-memory-store"
SIG_DISK = "clone-shares-on-disk-storage"
SIG_INVAL = "clone-shares-invalidated-caches"
SIG_INITIAL = "clone-differs-initially"
SIG_ROUTE = "population-route-answers-with-another-simulation"


# --------------------------------------------------------------------------------------
# running a history on the real code


class Run:
    """one case: the description, the real system, how to build a fresh identical simulation"""

    def __init__(self, line: str):
        f = line.split()
        if len(f) < 2 or f[0] != "heap" or f[1] != "run":
            raise su.Malformed(line)
        self.sysd, self.spec, self.pre, self.flags, self.events, self.sys_text = su.parse_run(f[2:])
        self.event_texts = su._split(f[6], ";")
        su.check_run(self.sysd, self.spec, self.events)
        self.tbs, self.names, self.vtypes = su.make_system(self.sys_text, tuple(g[0] for g in self.spec[1]))
        self.salt = sum(map(ord, line)) % 89

    def call(self, sim, op, style):
        return su.apply_op(sim, self.names, self.vtypes, op, style, self.tbs)

    def fresh(self):
        sim = su.build_simulation(self.tbs, self.spec, self.names)
        for k, op in enumerate(self.pre):
            self.call(sim, op, k + self.salt)
        return sim

    def replay(self, sim, lineage):
        """the calls a simulation inherited from its ancestors and made itself, on a fresh simulation"""
        import numpy
        for item in lineage:
            if item[0] == "call":
                self.call(sim, item[1], item[2])
            elif item[0] == "array":
                try:
                    sim.set_input(item[1], su.real_period(item[2]), numpy.array(item[3], copy=True))
                except Exception:      # noqa: BLE001
                    pass
            else:                       # the clone() it was born from resets trace / debug …
                sim.debug = item[2]
                sim.trace = item[1]
                # … and starts without the parent's entries awaiting deletion (`invalidate_cache_entry` before the
                # clone): the statement lists what a clone holds at birth — inputs, cached values, entity structure —
                # and the marks are none of these
                sim.invalidated_caches = set()


def config(sim) -> tuple:
    mc = sim.memory_config
    return (bool(sim.opt_out_cache), int(sim.max_spiral_loops),
            None if mc is None else (float(mc.max_memory_occupation), sorted(mc.priority_variables), sorted(mc.variables_to_drop)))


def structure(sim) -> dict:
    """entity structure with every structure-dependent read: counts, ids, memberships, positions, the ordering map,
    the role of each member, `nb_persons(role)` and `persons.has_role(role)` for every role of every group entity"""
    out = {}
    for key, pop in sim.populations.items():
        mei = getattr(pop, "members_entity_id", None)
        extra = None
        if mei is not None:
            r, counts = su.role_reads(pop)
            has = [[bool(x) for x in sim.persons.has_role(su.role_object(pop.entity, role))] for role in su.STD_ROLES]
            extra = (r, counts, has, [int(x) for x in pop.members_position], [int(x) for x in pop.ordered_members_map],
                     [int(x) for x in pop.nb_persons()])
        out[key] = (pop.count, [str(i) for i in pop.ids], None if mei is None else [int(g) for g in mei], extra)
    out["describe_entities"] = {plural: [str(i) for i in ids] for plural, ids in sim.describe_entities().items()}
    return out


def ownership(orig, clone):
    """'every part of the clone refers to the clone rather than to the original'"""
    for key, pop in clone.populations.items():
        if pop.simulation is not clone:
            return SIG_POP, f"clone.populations[{key}].simulation is not the clone"
    for key, pop in clone.populations.items():
        for name, h in pop._holders.items():
            if h.population is not pop or h.simulation is not clone:
                where = "the original" if (h.population is orig.populations.get(key) or h.simulation is orig) else "another object"
                return SIG_HOLDER, f"holder of {name} in clone.populations[{key}] refers to {where} (population/simulation)"
    for key, pop in clone.populations.items():
        if hasattr(pop, "members") and pop.members is not clone.persons:
            which = "the original's persons" if pop.members is orig.persons else "another object"
            return SIG_MEMBERS, f"clone.populations[{key}].members is {which}, not clone.persons"
    if clone.persons is not clone.populations.get("person"):
        return SIG_POP, "clone.persons is not clone.populations['person']"
    if clone.tracer is orig.tracer:
        return "clone-shares-tracer", "clone.tracer is the original's tracer"
    return routes_own(clone, "clone") or routes_own(orig, "original")


def routes_own(sim, who):
    """every way of asking a simulation for a population (or an entity) answers with its own"""
    for key, pop in sim.populations.items():
        k = su.pop_index(key)
        for r, text in (("g", f"get_population('{su.entity_plural(k)}')"), ("d", f"populations['{key}']"), ("a", f".{key}")):
            got = su.route(sim, r, k)
            if got is not pop or got.simulation is not sim:
                return SIG_ROUTE, f"{who}.{text} is not the {who}'s own population"
        if sim.get_entity(su.entity_plural(k)) is not pop.entity:
            return SIG_ROUTE, f"{who}.get_entity('{su.entity_plural(k)}') is not the entity of its population"
    if sim.persons.simulation is not sim:
        return SIG_ROUTE, f"{who}.persons is bound to another simulation"
    return None


def sharing(orig, clone, acc: dict) -> None:
    """which stores two simulations share right after clone() — only used to *name* an interference"""
    import os

    acc["inval"] = acc["inval"] or clone.invalidated_caches is orig.invalidated_caches
    acc["dir"] = acc["dir"] or (orig._data_storage_dir is not None and orig._data_storage_dir == clone._data_storage_dir)
    for key, pop in clone.populations.items():
        opop = orig.populations.get(key)
        for name, h in pop._holders.items():
            oh = opop._holders.get(name) if opop is not None else None
            if oh is None:
                continue
            if h._memory_storage is oh._memory_storage or h._memory_storage._arrays is oh._memory_storage._arrays:
                acc["memory"].add(su.var_index(name))
            if h._disk_storage is not None and oh._disk_storage is not None and (
                    h._disk_storage is oh._disk_storage
                    or os.path.abspath(h._disk_storage.storage_dir) == os.path.abspath(oh._disk_storage.storage_dir)):
                acc["disk"].add(su.var_index(name))


def roots(sim):
    from openfisca_core import tracers

    if not isinstance(sim.tracer, tracers.FullTracer):
        return None
    return [(su.var_index(n.name), su.show_period(n.period)) for n in sim.tracer.trees]


def snapshot(sim, vtypes) -> dict:
    return {"values": su.known_values(sim, vtypes), "trace": bool(sim.trace), "roots": roots(sim),
            "stack": len(sim.tracer.stack), "structure": structure(sim), "config": config(sim), "debug": bool(sim.debug)}


def first_difference(a: dict, b: dict):
    """-> None | (variable index | None, text)"""
    for k in sorted(set(a["values"]) | set(b["values"])):
        if a["values"].get(k) != b["values"].get(k):
            return k[0], f"v{k[0]}@{k[1]}: {a['values'].get(k, 'unknown')} instead of {b['values'].get(k, 'unknown')}"
    for key in ("trace", "roots", "stack", "debug", "config"):
        if a.get(key) != b.get(key):
            return None, f"{key} {a.get(key)} instead of {b.get(key)}"
    if a.get("structure") != b.get("structure"):
        return None, f"entity structure / roles {a['structure']} instead of {b['structure']}"
    return None


def has_disk(sim, v: int) -> bool:
    for pop in sim.populations.values():
        for name, h in pop._holders.items():
            if su.var_index(name) == v and h._disk_storage is not None:
                return True
    return False


def sim_name(i: int) -> str:
    return "original" if i == 0 else "clone" if i == 1 else f"clone#{i}"


def execute(line: str):
    """-> (impl text, oracle verdict)"""
    import numpy

    run = Run(line)
    vt = run.vtypes
    everything = []
    try:
        sims = [run.fresh()]
        controls = [run.fresh()]
        lineages = [[]]
        everything += sims + controls
        shared = {"memory": set(), "disk": set(), "inval": False, "dir": False}
        verdict = None
        parts = []
        events = [(0, ("n",) + run.flags)] + list(run.events)
        texts = ["on:" + "".join("1" if x else "0" for x in run.flags)] + run.event_texts
        for k, ((side, ev), text) in enumerate(zip(events, texts)):
            sim = sims[side]
            call = f"{sim_name(side)}.{text[1:]}"
            style = k * 5 + 3 * side + run.salt
            touched_var = ev[1] if ev[0] in "skadgrqui" else None
            if ev[0] == "n":
                before = snapshot(sim, vt)
                # (keywords, or the two arguments by position: `clone(debug, trace)`)
                new = sim.clone(debug=ev[2], trace=ev[1]) if (k + run.salt) % 3 else sim.clone(ev[2], ev[1])
                everything.append(new)
                result = su.alias_graph(sim, new)
                if verdict is None:
                    # immediately after cloning
                    after = snapshot(sim, vt)
                    if first_difference(after, before) is not None:
                        verdict = (SIG_INITIAL, f"{call} changed the simulation it copies: {first_difference(after, before)[1]}")
                    else:
                        cs = snapshot(new, vt)
                        for key in ("values", "structure", "config"):
                            if cs[key] != after[key]:
                                d = first_difference({**after, key: cs[key]}, after)
                                verdict = (SIG_INITIAL, f"right after {call} the clone holds {d[1]}")
                                break
                        if verdict is None and (bool(new.debug), bool(new.trace)) != (ev[2], ev[1]):
                            verdict = (SIG_INITIAL, f"right after {call} debug/trace are {new.debug}/{new.trace}")
                        if verdict is None and len(new.tracer.stack) != 0:
                            verdict = (SIG_INITIAL, f"right after {call} the clone's tracer has a non-empty stack")
                    verdict = verdict or ownership(sim, new)
                sharing(sim, new, shared)
                lineage = list(lineages[side]) + [("born", ev[1], ev[2])]
                control = run.fresh()
                run.replay(control, lineage)
                everything.append(control)
                sims.append(new)
                controls.append(control)
                lineages.append(lineage)
                r_alone = None
            elif ev[0] == "r":
                src = sims[ev[3]]
                # reading the array is itself a call on the source (`get_array` makes the holder)
                touch = ("h", ev[4])
                run.call(src, touch, 0)
                run.call(controls[ev[3]], touch, 0)
                lineages[ev[3]].append(("call", touch, 0))
                try:
                    a = src.get_array(run.names[ev[4]], su.real_period(ev[5])) if ev[4] < len(run.names) else None
                except Exception:      # noqa: BLE001
                    a = None
                result = su.apply_set_from(sim, src, run.names, vt, ev)
                r_alone = result
                if a is not None:
                    name = run.names[ev[1]] if ev[1] < len(run.names) else f"v{ev[1]}"
                    item = ("array", name, ev[2], numpy.array(a, copy=True))
                    lineages[side].append(item)
                    run.replay(controls[side], [item])
            else:
                result = run.call(sim, ev, style)
                r_alone = run.call(controls[side], ev, style)
                lineages[side].append(("call", ev, style))
            parts.append(result + ";" + ";".join(su.observe(x, vt) for x in sims))
            if verdict is not None:
                continue
            for j, x in enumerate(sims):
                verdict = verdict or routes_own(x, sim_name(j))
            if verdict is not None:
                continue
            bad = None
            if r_alone is not None and result != r_alone:
                bad = (side, touched_var, f"{call} returned {result}, alone it returns {r_alone}")
            else:
                for j, (x, y) in enumerate(zip(sims, controls)):
                    d = first_difference(snapshot(x, vt), snapshot(y, vt))
                    if d is not None:
                        bad = (j, d[0], f"after {call}: {sim_name(j)} holds {d[1]} (the value when it is operated alone)")
                        break
            if bad is not None:
                v = bad[1]
                if v is not None and v in shared["memory"]:
                    sig = SIG_MEMORY
                elif v is not None and (v in shared["disk"] or (shared["dir"] and any(has_disk(x, v) for x in sims))):
                    sig = SIG_DISK
                elif v is not None and shared["inval"]:
                    sig = SIG_INVAL
                else:
                    sig = "interference:" + ("acting-simulation" if bad[0] == side else "other-simulation-affected")
                verdict = (sig, bad[2])
        return "|".join(parts), verdict
    finally:
        su.dispose(*everything)


_LAST: dict = {}


def impl(case: Case) -> str:
    _LAST.clear()
    try:
        out, verdict = execute(case.line)
    except su.Malformed:
        return "BAD"
    _LAST[case.line] = verdict
    return out


def oracle(case: Case, out: str):
    if out == "BAD" or out.startswith("HARNESS-CRASH"):
        return None
    if case.line in _LAST:
        return _LAST[case.line]
    try:
        return execute(case.line)[1]
    except su.Malformed:
        return None


def nontrivial(case: Case, out: str) -> bool:
    """a history in which some operation after the clone changed what one side holds"""
    steps = out.split("|")
    return len(steps) > 2 and len({s.split(";", 1)[1] for s in steps if ";" in s}) > 1


# --------------------------------------------------------------------------------------
# generation

DAYS = ["day/2018,1,1/1", "day/2018,1,2/1", "day/2017,12,31/1"]


def fmt_via(via) -> str:
    if isinstance(via, str):
        return via
    if via[0] == "hr":
        return f"hr{via[1]}_" + "_".join(map(str, via[2]))
    if via[0] in ("nt", "eq"):
        return f"{via[0]}{via[1]}"
    return via[0] + "_".join(map(str, via[1]))


def fmt_formula(f) -> str:
    if f is None:
        return "-"
    return str(f[0]) + "".join(f"+{c}*{d}.{fmt_via(via)}.{pt}" for c, d, via, pt in f[1])


def V(e, u, d, f, vt="f", black=False, dispatch=False):
    return (e, u, d, f, vt, ("^" if dispatch else "") + ("!" if black else ""))


def fmt_sys(sysd) -> str:
    return ";".join(f"{e}:{u}{'' if vt == 'f' else '~' + vt}{black or ''}:{d}:{fmt_formula(f)}"
                    for e, u, d, f, vt, black in sysd)


def dots(xs) -> str:
    return "-" if xs is None else ".".join(map(str, xs))


def fmt_spec(spec) -> str:
    n, groups, mem, opt_out, msl = spec
    g = ",".join(f"{e}:{c}:{'.'.join(map(str, mei))}:{dots(roles)}:{dots(pos)}" for e, c, mei, roles, pos in groups) or "-"
    m = "-" if mem is None else "d" + ".".join(map(str, mem[0])) + ("x" + ".".join(map(str, mem[1])) if mem[1] else "")
    return f"{n}/{g}/{m}/o{1 if opt_out else 0}m{msl}"


def S(n, groups=(), mem=None, opt_out=False, msl=1):
    return (n, [tuple(g) + (None,) * (5 - len(g)) for g in groups], mem, opt_out, msl)


def fmt_op(op) -> str:
    if op[0] == "s":
        return f"s:{op[1]}:{op[2]}:{','.join(map(str, op[3]))}"
    if op[0] == "d":
        return f"d:{op[1]}:{'*' if op[2] is None else op[2]}"
    if op[0] in "kagi":
        return f"{op[0]}:{op[1]}:{op[2]}"
    if op[0] in "qu":
        return f"{op[0]}:{op[3]}:{op[4]}:{op[1]}:{op[2]}"
    if op[0] == "t":
        return f"t:{1 if op[1] else 0}"
    if op[0] == "n":
        return f"n:{1 if op[1] else 0}{1 if op[2] else 0}"
    if op[0] == "r":
        return f"r:{op[1]}:{op[2]}:{su.SIDES[op[3]]}:{op[4]}:{op[5]}"
    return f"h:{op[1]}"


def side_index(s) -> int:
    return s if isinstance(s, int) else su.SIDES.index(s)


def mk(sysd, spec, pre, flags, ops, tags=(), claimed=True) -> Case:
    """flags: (trace, debug) of the first clone (or a bool = trace); ops: [(side, op)], side = index or 'o' / 'c'"""
    if isinstance(flags, bool):
        flags = (flags, False)
    sysd = [tuple(v) + ("f", "")[len(v) - 4:] if len(v) < 6 else tuple(v) for v in sysd]
    sysd = [v[:5] + (("!" if v[5] else "") if isinstance(v[5], bool) else v[5],) for v in sysd]
    if len(spec) == 3:
        spec = S(spec[0], spec[1], None if spec[2] is None else (spec[2], []))
    # `calculate_add` over the eternal period is C03's business (refused by repair C03, `0` before it)
    if any(o[0] == "a" and o[2] == ETERNITY for o in list(pre) + [o for _, o in ops]):
        claimed = False
    line = (f"heap run {fmt_sys(sysd)} {fmt_spec(spec)} {';'.join(fmt_op(o) for o in pre) or '-'} "
            f"{1 if flags[0] else 0}{1 if flags[1] else 0} "
            f"{';'.join(su.SIDES[side_index(s)] + fmt_op(o) for s, o in ops) or '-'}")
    return Case(line=line, payload=None, claimed=claimed, tags=tuple(tags))


def gen_spec(rng: random.Random):
    n = rng.choice([1, 2, 2, 3, 3, 4])
    groups = []
    for e in rng.choice([[], [1], [1], [1], [1], [1, 2], [1, 2], [2, 1]]):
        count = rng.randint(1, n)
        mei = list(range(count)) + [rng.randrange(count) for _ in range(n - count)]
        rng.shuffle(mei)
        roles = None
        if rng.random() < 0.75:       # explicit roles: sub-roles of r0, r1, and at most one r2 (max 1) per group
            roles, taken = [], set()
            for g in mei:
                r = rng.choice([0, 0, 1, 2, 2, 3])
                if r == 3 and g in taken:
                    r = 2
                if r == 3:
                    taken.add(g)
                roles.append(r)
        positions = None
        if rng.random() < 0.5:        # positions assigned explicitly, often against the order of appearance
            members = {g: [i for i, x in enumerate(mei) if x == g] for g in set(mei)}
            positions = [0] * n
            for g, idx in members.items():
                order = list(range(len(idx)))
                if rng.random() < 0.7:
                    rng.shuffle(order)
                for i, k in zip(idx, order):
                    positions[i] = k
        groups.append((e, count, mei, roles, positions))
    return n, groups


def gen_system(rng: random.Random, groups):
    """inputs first (of every value type), then formulas reading earlier numeric variables (plus, rarely, a spiral, a
    cycle, a unit or an entity mismatch)"""
    gk = [g[0] for g in groups]
    sysd, tags = [], []
    unit = lambda: rng.choice(["month", "month", "month", "year", "eternity", "day"] if rng.random() < 0.3 else
                              ["month", "month", "month", "year", "eternity"])
    # inputs
    # (a third of the numeric inputs take longer periods through set_input_dispatch_by_period: every definition period
    #  inside that has no value yet — in THIS simulation's store — gets the array)
    sysd.append(V(0, "month", rng.choice([0, 0, 1, 5]), None, dispatch=rng.random() < 0.35))
    sysd.append(V(0, unit(), rng.choice([0, 2]), None, rng.choice("fffi"), dispatch=rng.random() < 0.3))
    sysd.append(V(rng.choice(gk or [0]), unit(), rng.choice([0, 3]), None, rng.choice("ffib")) if rng.random() < 0.8
                else V(rng.choice(gk or [0]), unit(), rng.choice([0, 1]), None, "b"))
    if rng.random() < 0.5:
        sysd.append(V(rng.choice([0] + gk), "eternity", rng.choice([0, 7]), None))
    if rng.random() < 0.6:            # an input that is not a number: enum, text, date
        sysd.append(V(rng.choice([0] + gk), unit(), rng.choice([0, 3, 7]), None, rng.choice("eeesd")))
        tags.append("typed-input")
    if sysd[2][4] == "b":
        sysd[2] = V(sysd[2][0], sysd[2][1], sysd[2][2] % 2, None, "b")
    numeric = lambda d: sysd[d][4] in "fib"
    # formulas
    for _ in range(rng.randint(2, 4)):
        i = len(sysd)
        e = rng.choice([0, 0] + gk)
        u = unit()
        terms = []
        for _ in range(rng.choice([0, 1, 1, 2, 2, 3])):
            ok_units = lambda d: sysd[d][1] == u or sysd[d][1] == "eternity"
            cands = [d for d in range(i) if ok_units(d) and numeric(d)] if rng.random() < 0.95 else \
                [d for d in range(i) if numeric(d)]
            if not cands:
                continue
            d = rng.choice(cands)
            de = sysd[d][0]
            if de == e:
                via = "s"
            elif e != 0 and de == 0:
                via = "m"
            elif e == 0 and de != 0:
                via = "p"
            else:
                continue            # group to another group: no direct path
            if via == "m" and rng.random() < 0.6:
                if rng.random() < 0.7:
                    via = ("mr", rng.choice(su.STD_ROLES))       # role-filtered sum
                    tags.append("role-read")
                else:
                    via = ("nt", rng.choice([0, 0, 1, 2]))       # the member at a position (positions, ordering map)
                    tags.append("position-read")
            if not ok_units(d):
                tags.append("unit-mismatch")
            pt = "l" if (u == "month" and sysd[d][1] == "month" and rng.random() < 0.15) else "s"
            terms.append((rng.choice([1, 1, 2, -1, 3]), d, via, pt))
        enums = [d for d in range(i) if sysd[d][4] == "e" and sysd[d][0] == e and (sysd[d][1] == u or sysd[d][1] == "eternity")]
        if enums and rng.random() < 0.6:
            # an Enum variable compared with a member: what the formula gets — computed, cached, or copied with the
            # store when the simulation was cloned — must be an EnumArray (bare indices equal no member)
            d = rng.choice(enums)
            terms.append((rng.choice([1, 4]), d, ("eq", rng.choice([0, 1, 2, 5, 9, sysd[d][2] % su.ENUM_SIZE])), "s"))
            tags.append("enum-read")
        if u != "eternity" and gk and rng.random() < 0.35:      # role-dependent reads without a dependency
            if e == 0:
                terms.append((rng.choice([1, 5]), 0, ("hr", rng.choice(gk), rng.choice(su.STD_ROLES)), "s"))
            else:
                terms.append((rng.choice([1, 10]), 0, ("nb", rng.choice(su.STD_ROLES)), "s"))
            tags.append("role-read")
        if u != "eternity" and rng.random() < 0.15:
            terms.append((rng.choice([1, 2]), 0, "pa", "s"))    # a parameter read (three-argument formula)
            tags.append("parameter")
        r = rng.random()
        if r < 0.06 and u == "month":
            terms.append((1, i, "s", "l"))          # v(p) = … + v(p.last_month): a spiral
            tags.append("spiral")
        elif r < 0.09:
            terms.append((1, i, "s", "s"))          # v(p) = … + v(p): a cycle
            tags.append("cycle")
        elif r < 0.11 and i > 0:
            d = rng.randrange(i)
            if sysd[d][0] != e and numeric(d):
                terms.append((1, d, "s", "s"))      # read through the wrong entity: refused
                tags.append("entity-mismatch")
        sysd.append(V(e, u, rng.choice([0, 0, 4]), (rng.choice([0, 0, 1, 10]), terms), "f", rng.random() < 0.25))
    return sysd, tags


def own_period(rng: random.Random, unit: str) -> str:
    if unit == "month":
        return rng.choice(MONTHS)
    if unit == "year":
        return rng.choice(YEARS)
    if unit == "day":
        return rng.choice(DAYS)
    return rng.choice([ETERNITY, ETERNITY, M1, Y18])


def any_period(rng: random.Random) -> str:
    return rng.choice(MONTHS + YEARS + [ETERNITY, "month/2018,1,1/3", "year/2017,1,1/2", DAYS[0]])


def gen_values(rng: random.Random, vt: str, k: int):
    pool = {"f": [0, 1, 2, 3, 5, 8, -1], "i": [0, 1, 2, 3, 5, 8, -1], "b": [0, 1], "e": [0, 1, 2, 5, 9],
            "s": [0, 1, 2, 7], "d": [0, 1, 365, 17000]}[vt]
    return [rng.choice(pool) for _ in range(max(k, 0))]


def gen_op(rng: random.Random, sysd, spec, tags, live=1):
    n, groups = spec[0], spec[1]
    count = {0: n, **{g[0]: g[1] for g in groups}}
    nv = len(sysd)
    numeric = [i for i in range(nv) if sysd[i][4] in "fib"]
    r = rng.random()
    if r < 0.31:
        v = rng.randrange(nv) if rng.random() < 0.3 else rng.choice([i for i in range(nv) if sysd[i][3] is None])
        p = own_period(rng, sysd[v][1]) if rng.random() < 0.9 else any_period(rng)
        if "^" in sysd[v][5] and rng.random() < 0.6:
            p = rng.choice({"month": [Y18, Y17, "month/2018,1,1/3", "month/2017,12,1/2", "year/2017,1,1/2", "year/2017,7,1/1"],
                            "year": ["year/2017,1,1/2", Y18], "day": ["day/2017,12,31/3", "month/2018,1,1/1", "day/2018,1,1/2"],
                            "eternity": [ETERNITY, Y18]}[sysd[v][1]])
            tags.append("dispatch")
        k = count.get(sysd[v][0], 1)
        if rng.random() < 0.04:
            k += rng.choice([-1, 1])
            tags.append("bad-length")
        return ("s", v, p, gen_values(rng, sysd[v][4], k))
    if r < 0.34:
        v = rng.choice([i for i in range(nv) if sysd[i][4] in "fi"])
        tags.append("bad-dtype")
        return ("g", v, own_period(rng, sysd[v][1]) if rng.random() < 0.8 else any_period(rng))
    if r < 0.36:
        tags.append("unknown-variable")
        return rng.choice([("k", nv, M1), ("d", nv, M1), ("s", nv, M1, [1] * n), ("a", nv, Y18)])
    if r < 0.43:
        # a population asked of the simulation by one of the routes, then a calculation / a read through it
        v = rng.randrange(nv)
        ent = sysd[v][0] if rng.random() < 0.9 else rng.choice([0] + list(count))
        rt = rng.choice("gggda" + ("p" if ent == 0 else "g"))
        tags.append("route")
        return (rng.choice("qqu"), v, own_period(rng, sysd[v][1]) if rng.random() < 0.93 else any_period(rng), rt, ent)
    if r < 0.5:
        v = rng.randrange(nv)
        q = rng.random()
        p = None if q < 0.3 else own_period(rng, sysd[v][1]) if q < 0.6 else any_period(rng)
        return ("d", v, p)
    if r < 0.8:
        v = rng.randrange(nv)
        return ("k", v, own_period(rng, sysd[v][1]) if rng.random() < 0.93 else any_period(rng))
    if r < 0.9:
        v = rng.choice(numeric)
        q = rng.random()
        if sysd[v][1] == "month" and q < 0.8:
            p = rng.choice([Y18, "month/2018,1,1/3", "month/2017,12,1/2", M1])
        elif sysd[v][1] == "year" and q < 0.8:
            p = rng.choice([Y18, "year/2017,1,1/2"])
        elif sysd[v][1] == "day" and q < 0.8:
            p = rng.choice(["day/2018,1,1/2", "day/2017,12,31/3"])
        else:
            p = any_period(rng)
        return ("a", v, p)
    if r < 0.94:
        return ("t", rng.random() < 0.6)
    if r < 0.975:
        # an entry marked for deletion by hand: the next calculation that returns to an empty stack purges it (and
        # everything its period contains) — on this simulation only
        v = rng.randrange(nv)
        tags.append("invalidate")
        return ("i", v, own_period(rng, sysd[v][1]) if rng.random() < 0.85 else any_period(rng))
    return ("h", rng.randrange(nv))


def gen_events(rng: random.Random, sysd, spec, tags, lo: int, hi: int):
    """interleaved calls on every live simulation, with further clones (of the original, of a clone, of a clone's
    clone) and inputs fed with an array object another simulation holds"""
    n, groups = spec[0], spec[1]
    count = {0: n, **{g[0]: g[1] for g in groups}}
    live = 2
    events = []
    for _ in range(rng.randint(lo, hi)):
        side = rng.randrange(live)
        r = rng.random()
        if r < 0.09 and live < 5:
            src = side if rng.random() < 0.5 else live - 1         # chains: the newest clone is cloned again
            events.append((src, ("n", rng.random() < 0.3, rng.random() < 0.3)))
            live += 1
            tags.append(f"sims={live}")
            continue
        if r < 0.17:
            # an array object held by some simulation (often another one) is handed to set_input
            w = rng.randrange(len(sysd))
            v = rng.choice([i for i in range(len(sysd)) if sysd[i][0] == sysd[w][0] and sysd[i][4] == sysd[w][4]] or [w])
            events.append((side, ("r", v, own_period(rng, sysd[v][1]), rng.randrange(live), w, own_period(rng, sysd[w][1]))))
            tags.append("array-handed-over")
            continue
        events.append((side, gen_op(rng, sysd, spec, tags)))
    # make collisions likely: repeat an earlier call's variable and period on another simulation
    for i in range(1, len(events)):
        if rng.random() < 0.25:
            s0, o0 = events[rng.randrange(i)]
            if o0[0] in "skadi" and o0[1] < len(sysd):
                upto = 2 + sum(1 for _, e in events[:i] if e[0] == "n")
                other = rng.choice([x for x in range(upto) if x != s0] or [s0])
                if events[i][1][0] == "n":
                    continue
                kind = rng.choice("skd")
                if kind == "s" and o0[2] is not None:
                    k = count.get(sysd[o0[1]][0], 1)
                    events[i] = (other, ("s", o0[1], o0[2], gen_values(rng, sysd[o0[1]][4], k)))
                elif kind == "k" and o0[2] is not None:
                    events[i] = (other, ("k", o0[1], o0[2]))
                else:
                    events[i] = (other, ("d", o0[1], o0[2] if o0[0] != "s" or rng.random() < 0.5 else None))
    return events


def gen_case(rng: random.Random, disk: bool, lo: int, hi: int) -> Case:
    n, groups = gen_spec(rng)
    sysd, tags = gen_system(rng, groups)
    mem = None
    if disk:
        mem = (sorted(rng.sample(range(len(sysd)), rng.choice([0, 0, 1, 2]))),
               sorted(rng.sample(range(len(sysd)), rng.choice([0, 0, 1, 2]))))
        tags.append("disk")
    else:
        tags.append("memory")
    opt_out = rng.random() < 0.3
    msl = rng.choice([1, 1, 1, 2, 3])
    spec = (n, groups, mem, opt_out, msl)
    pre = [gen_op(rng, sysd, spec, tags) for _ in range(rng.choice([0, 1, 2, 3, 4, 5, 6]))]
    if rng.random() < 0.25:
        pre += [("h", v) for v in range(len(sysd))]          # every holder exists before cloning
        tags.append("all-holders")
    events = gen_events(rng, sysd, spec, tags, lo, hi)
    tags.append(f"ops={len(events)}")
    tags.append(f"pre={len(pre)}")
    return mk(sysd, spec, pre, (rng.random() < 0.25, rng.random() < 0.25), events, tags)


MALFORMED = [
    "heap", "heap run", "heap run - 1/-/-/o0m1 - 00", "heap run 0:month:0:- 1/-/-/o0m1 - 2 -", "heap run 0:month:0 1/-/-/o0m1 - 00 -",
    "heap run 0:fortnight:0:- 1/-/-/o0m1 - 00 -", "heap run 0:month:0:- 1/-/x/o0m1 - 00 -", "heap run 0:month:0:- 1/-/- - 00 -",
    "heap run 0:month:0:- 1/-/-/o0m1 q:0 00 -", "heap run 0:month:0:- 1/-/-/o0m1 - 00 xs:0:eternity:1",
    "heap run 0:month:0:- 1/-/-/o0m1 - 00 os:0:month/2018,1/1:1", "heap run 0:month:0:- 1/-/-/o0m1 - 00 os:0:eternity:a",
    "heap run 0:month:0:1+2*0 1/-/-/o0m1 - 00 -", "heap run 0:month:0:1+2*0.x.s 1/-/-/o0m1 - 00 -", "heap clone 1 2",
    "heap run 0:month:0:- 1/1:1:0:-:-/-/o0m1 - 00 ot:2", "heap run 0:month:0:- 1/1:1:0:4:-/-/o0m1 - 00 -",
    "heap run 0:month:0:-;1:month:0:0+1*0.mr4.s 1/1:1:0:-:-/-/o0m1 - 00 -", "heap run 0:month:0:0+1*0.nb2.s 1/1:1:0:-:-/-/o0m1 - 00 -",
    "heap run 0:month:0:- 1/-/-/o0m1 - 00 2k:0:eternity", "heap run 0:month:0:- 1/-/-/o2m1 - 00 -", "heap run 0:month~q:0:- 1/-/-/o0m1 - 00 -",
    "heap run 0:month:0:- 1/1:1:0:-:0.0/-/o0m1 - 00 -", "heap run 0:month:0:- 1/-/-/o0m1 - 00 or:0:eternity:3:0:eternity", "heap run 0:month:0:- 1/-/-/o0m1 - 00 oq:x:0:0:eternity",
]


def gen_spiral_case(rng: random.Random, lo: int, hi: int) -> Case:
    """variables defined from their own past (`v(p) = c + v(p.last_month) [+ …]`): every calculation runs into the
    spiral rule (with max_spiral_loops 1, 2 or 3), marks cache entries for deletion and purges them at the end — on
    every simulation, interleaved, with clones made after such calculations"""
    n, groups = gen_spec(rng)
    sysd = [V(0, "month", rng.choice([0, 1]), None),
            V(0, "month", 0, (rng.choice([1, 2]), [(1, 1, "s", "l")] + ([(1, 0, "s", "s")] if rng.random() < 0.5 else [])))]
    if rng.random() < 0.6:
        sysd.append(V(0, "month", 0, (0, [(1, 1, "s", rng.choice("sl")), (2, 0, "s", "s")])))
    if rng.random() < 0.4:
        sysd.append(V(0, "month", 3, (1, [(1, len(sysd), "s", "l"), (1, 1, "s", "s")])))
    spec = (n, groups, None, False, rng.choice([1, 1, 2, 3]))
    tags = ["spiral-family", "memory"]

    def op():
        r = rng.random()
        v = rng.randrange(len(sysd))
        if r < 0.35:
            return ("s", v, rng.choice(MONTHS), [rng.choice([0, 1, 2, 5]) for _ in range(n)])
        if r < 0.45:
            return ("d", v, rng.choice(MONTHS + [None, Y18]))
        if r < 0.9:
            return ("k", rng.randrange(1, len(sysd)), rng.choice(MONTHS))
        if r < 0.94:
            return ("a", rng.randrange(1, len(sysd)), rng.choice(["month/2018,1,1/3", "month/2017,12,1/2"]))
        if r < 0.97:
            return ("i", v, rng.choice(MONTHS + [Y18]))
        return ("t", rng.random() < 0.5)

    pre = [op() for _ in range(rng.choice([0, 0, 1, 2]))]
    events, live = [], 2
    for _ in range(rng.randint(lo, hi)):
        if rng.random() < 0.08 and live < 4:
            events.append((rng.randrange(live), ("n", rng.random() < 0.3, False)))
            live += 1
        else:
            events.append((rng.randrange(live), op()))
    tags += [f"ops={len(events)}", f"pre={len(pre)}", f"sims={live}"]
    return mk(sysd, spec, pre, (rng.random() < 0.2, False), events, tags)


def generate(rng: random.Random, tier: str):
    n_mem, n_disk, n_spiral, lo, hi = (2800, 900, 550, 5, 12) if tier == "quick" else (18000, 6000, 3000, 5, 15)
    out = [gen_case(rng, False, lo, hi) for _ in range(n_mem)]
    out += [gen_case(rng, True, lo, hi) for _ in range(n_disk)]
    out += [gen_spiral_case(rng, lo, hi) for _ in range(n_spiral)]
    out += [Case(line=l, payload=None, claimed=True, tags=("malformed",)) for l in MALFORMED]
    return out


def neighbours(case: Case):
    """the same history with one call removed (before or after the first clone; clone events are kept, so that the
    simulation indices stay valid)"""
    f = case.line.split()
    if len(f) != 7:
        return []
    pre, ops = su._split(f[4], ";"), su._split(f[6], ";")
    out = []
    for i in range(len(ops)):
        if ops[i][1:3] == "n:":
            continue
        out.append(Case(line=" ".join(f[:6] + [";".join(ops[:i] + ops[i + 1:]) or "-"]), tags=("neighbour",)))
    for i in range(len(pre)):
        out.append(Case(line=" ".join(f[:4] + [";".join(pre[:i] + pre[i + 1:]) or "-"] + f[5:]), tags=("neighbour",)))
    return out


def corpus():
    """the minimal failing input of every recorded defect of C13, then the examples beside the theorems"""
    person = [(0, "month", 0, None)]
    one = (1, [], None)
    hh = (2, [(1, 1, [0, 0], None)], None)
    roles = [(0, "month", 0, None), (1, "month", 0, (0, [(1, 0, ("mr", (2,)), "s"), (10, 0, ("nb", (3,)), "s")])),
             (0, "month", 0, (0, [(1, 0, ("hr", 1, (2,)), "s")]))]
    grp = [(0, "month", 0, None), (1, "month", 0, None), (1, "month", 0, (0, [(1, 0, "m", "s")]))]
    spiral = [(0, "month", 0, (1, [(1, 0, "s", "l")]))]
    return [
        # F-C13: clone.set_input visible in the original
        mk(person, one, [("s", 0, M1, [1])], False, [("c", ("s", 0, M1, [2]))], ("corpus", "F-C13")),
        # F-C13: clone.delete_arrays empties the original
        mk(person, one, [("s", 0, M1, [1])], False, [("c", ("d", 0, None))], ("corpus", "F-C13")),
        # F-C13: holders of a group population bound to the original population
        mk(grp, hh, [("s", 1, M1, [3])], False, [], ("corpus", "F-C13")),
        # F-C13: `members` of the cloned group population is the original's persons: a group formula computed
        # in the clone reads (and caches into) the original
        mk(grp, hh, [], False, [("c", ("s", 0, M1, [1, 2])), ("c", ("k", 2, M1))], ("corpus", "F-C13")),
        # F-C13 (disk): a value stored on disk by the clone is seen by the original
        mk(person, (1, [], []), [("s", 0, M1, [1])], False, [("c", ("s", 0, M2, [2]))], ("corpus", "F-C13-disk")),
        # F-C13 (disk): holders created after cloning write into the same directory
        mk(person, (1, [], []), [("h", 0)], False, [("c", ("d", 0, None))], ("corpus", "F-C13-disk")),
        # F-C13c: a spiral in the clone leaves entries in the set the original still uses
        mk(spiral, one, [], False, [("c", ("k", 0, M3)), ("o", ("s", 0, M2, [5])), ("o", ("k", 0, M3))], ("corpus", "F-C13c")),
        # seeded change C13-3: a clone that does not carry `_members_role` over gives every member the first role
        mk(roles, (3, [(1, 2, [0, 0, 1], [0, 2, 3])], None), [("s", 0, M1, [1, 2, 3])], False,
           [("c", ("k", 1, M1)), ("o", ("k", 2, M1)), ("c", ("k", 2, M1))], ("corpus", "roles")),
        # a clone of a clone of a clone, each operated; an array object handed from one simulation to another, then summed
        mk([V(0, "month", 0, None), V(0, "month", 0, (1, [(2, 0, "s", "s")])), V(0, "month", 0, None, "e"), V(0, "month", 0, None, "s"),
            V(0, "eternity", 3, None, "d")], S(2), [("s", 0, M1, [1, 2]), ("k", 1, M1), ("s", 2, M1, [3, 9]), ("s", 3, M1, [4, 7])], (True, True),
           [(1, ("n", False, True)), (2, ("n", True, False)), (3, ("s", 0, M1, [5, 5])), (3, ("k", 1, M1)), (0, ("k", 1, M1)),
            (1, ("r", 0, M2, 3, 1, M1)), (2, ("r", 0, M3, 0, 1, M1)), (1, ("a", 0, "month/2018,1,1/3")), (3, ("a", 1, "month/2018,1,1/2")),
            (2, ("s", 2, M1, [0, 1])), (0, ("d", 3, None)), (3, ("s", 4, ETERNITY, [17000, 0])), (1, ("k", 4, M1)), (2, ("g", 0, M1)),
            (0, ("k", 5, M1))], ("corpus", "chain")),
        # seeded change C13-6 (a memo of get_population shared by clone and original): the original resolves the plural
        # before cloning, the clone asks afterwards and calculates / reads through what it is given
        mk([V(0, "month", 0, None), V(0, "month", 0, (1, [(1, 0, "s", "s")]))], S(2), [("q", 0, M1, "g", 0)], (False, False),
           [(1, ("s", 0, M1, [5, 6])), (1, ("q", 1, M1, "g", 0)), (1, ("u", 0, M1, "g", 0)), (0, ("q", 1, M1, "g", 0))],
           ("corpus", "routes")),
        mk([V(0, "month", 0, None), V(1, "month", 0, (0, [(1, 0, "m", "s")]))], S(2, [(1, 1, [0, 0])]), [], (False, False),
           [(1, ("s", 0, M1, [5, 6])), (1, ("q", 1, M1, "g", 1)), (0, ("s", 0, M1, [1, 1])), (0, ("q", 1, M1, "g", 1)),
            (0, ("u", 1, M1, "a", 1)), (1, ("u", 1, M1, "d", 1))], ("corpus", "routes")),
        # opt_out_cache with a blacklisted formula, max_spiral_loops = 2, a dropped variable and typed inputs on disk
        mk([V(0, "month", 0, None), V(0, "month", 0, (1, [(1, 0, "s", "s"), (1, 0, "pa", "s")]), "f", True),
            V(0, "month", 0, (1, [(1, 2, "s", "l")])), V(0, "month", 2, None, "e"), V(0, "month", 1, (0, []))],
           (2, [], ([0], [4]), True, 2), [("s", 0, M1, [1, 2]), ("k", 1, M1), ("k", 2, M3), ("s", 3, M1, [5, 6]), ("k", 4, M1)], (False, True),
           [(1, ("k", 1, M1)), (1, ("k", 2, M3)), (0, ("k", 2, M2)), (1, ("n", True, False)), (2, ("k", 4, M2)), (2, ("s", 3, M2, [1, 1])),
            (0, ("k", 3, M2))], ("corpus", "config")),
        # seeded change C13-8 (clone() copying the stored arrays with numpy.copy: an EnumArray comes out as bare indices):
        # an Enum input present when the clone is taken, read in the clone directly and by a formula comparing it with a
        # member; also for a group entity, an eternal Enum, and a value computed (cached) before the clone
        mk([V(0, "month", 0, None, "e"), V(0, "month", 0, (0, [(1, 0, ("eq", 2), "s")])), V(1, "eternity", 3, None, "e"),
            V(1, "month", 0, (10, [(4, 2, ("eq", 3), "s"), (1, 2, ("eq", 7), "s")]))], S(2, [(1, 2, [0, 1])]),
           [("s", 0, M1, [2, 5]), ("s", 0, M2, [2, 2]), ("k", 1, M1), ("k", 2, M1), ("s", 2, ETERNITY, [7, 3])], (False, False),
           [("c", ("k", 0, M1)), ("c", ("k", 1, M2)), ("c", ("u", 0, M2, "p", 0)), ("c", ("k", 3, M1)), ("o", ("k", 1, M2)),
            ("c", ("n", False, False)), (2, ("k", 3, M2)), (2, ("k", 1, M1)), ("o", ("k", 3, M1))], ("corpus", "enum-arrays")),
        # inputs given for longer periods (set_input_dispatch_by_period): each simulation fills the months / days that
        # have no value in ITS store — the clone after deleting one, the original untouched by the clone's six months
        Case(line="heap run 0:month^:0:-;0:day^:1:- 1/-/-/o0m1 s:0:month/2018,2,1/1:5;s:0:year/2018,1,1/1:7 00 "
                  "cd:0:month/2018,3,1/1;cs:0:month/2018,1,1/6:9;os:1:day/2017,12,30/4:3;cs:1:month/2018,1,1/1:4;"
                  "ok:0:month/2018,3,1/1;os:0:day/2018,1,15/1:8;cn:00;2s:0:year/2018,1,1/2:1;2d:0:*;2s:0:year/2018,7,1/1:2",
             tags=("corpus", "dispatch")),
        # the example of Props/C13.lean
        mk([(0, "month", 0, None), (0, "month", 5, (3, [(2, 0, "s", "s")])), (1, "month", 0, (0, [(1, 0, "m", "s")])),
            (0, "eternity", 7, None),
            (1, "month", 0, (0, [(1, 0, ("mr", (2,)), "s"), (10, 0, ("nb", (3,)), "s")])),
            (0, "month", 0, (0, [(1, 0, ("hr", 1, (2,)), "s")]))], (3, [(1, 2, [0, 0, 1], [0, 2, 3], [1, 0, 0])], None),
           [("s", 0, M1, [1, 2, 3]), ("k", 1, M1)], False,
           [("c", ("k", 2, M1)), ("c", ("k", 4, M1)), ("o", ("s", 0, M1, [4, 4, 4])), ("o", ("k", 4, M1)),
            ("o", ("k", 5, M1)), ("c", ("d", 0, None)), ("o", ("k", 1, M2)),
            ("c", ("a", 1, Y18)), ("c", ("t", True)), ("c", ("k", 3, M3))], ("corpus", "example")),
    ]


PROP = Prop(
    unclaimed_diffs_binding=True,   # the model transcribes the code outside the claim domain too (0 differences on every run):
                                    # `claimed=False` silences the oracle only
    pid="C13",
    lean_targets=["OFCore.Props.C13"],
    driver="ofdrv_heap",
    generate=generate, impl=impl, oracle=oracle, nontrivial=nontrivial, corpus=corpus, neighbours=neighbours,
    extra_lean_files=["OFCore/Heap.lean", "OFCore/Lemmas/Heap.lean", "OFCore/Lemmas/HeapClone.lean",
                      "OFCore/Lemmas/HeapRun.lean", "OFCore/Lemmas/HeapTidy.lean", "OFCore/Lemmas/HeapFamily.lean",
                      "OFCore/Drv/Heap.lean"],
    partial_theorems=["C13_footprints_disjoint_partial", "C13_noninterference_partial"],
    search_budget_factor=2,
    rule=("one line = one history: a rule system of 5-9 variables built with type(...) (person and group entities; month, year, "
          "eternity and day definition periods; inputs of every value type - float, int, bool, enum, str, date - and float formulas "
          "`c + sum coef*dep` whose dependencies are read through population(dep, p), group.sum(group.members(dep, p)[, role=R]), "
          "group.value_nth_person(k, ...), person.<group>(dep, p), group.nb_persons(role=R), person.has_role(R), "
          "population(enum_dep, p) == ENUM.member (an Enum input compared with a member), parameters(period).p0 "
          "(three-argument formula), at the requested period or at period.last_month; a third of the numeric inputs declare "
          "set_input = set_input_dispatch_by_period and are given years, quarters, several years, a month of days, also periods "
          "FINER than their definition period; a quarter of the formulas are in the cache "
          "blacklist; rarely a self-reference through last_month (spiral), a same-period cycle, a unit or an entity mismatch; a "
          "formula without term returns a scalar); real Population / GroupPopulation objects of 1-4 persons in 0-2 group entities "
          "(roles r0 with two sub-roles, r1, r2 max 1; 3 in 4 assign explicit roles, half assign explicit members_position, often "
          "against the order of appearance) handed to Simulation(tbs, populations) with opt_out_cache on or off, max_spiral_loops "
          "1-3 and, for a quarter, MemoryConfig(max_memory_occupation=0, priority_variables, variables_to_drop) installed before any "
          "holder exists; 0-6 public calls on the original, clone(trace=, debug=) and 5-12 (thorough 5-15) events on the live "
          "simulations: set_input (own-unit periods, sometimes a foreign unit, a wrong length, an uncastable dtype, an unknown "
          "variable; lists, ndarrays of several dtypes, 0-dimensional values, enum members / names / indices; Period objects or "
          "period texts), set_input with the array OBJECT another simulation holds, delete_arrays (one period, a containing period, "
          "everything; set_input and delete_arrays addressed to the simulation, to the holder simulation.get_holder(v) hands out, or "
          "to population.get_holder(v) of simulation.get_variable_population(v)), calculate, calculate_add, simulation.trace = b, "
          "get_holder, invalidate_cache_entry(v, period) (an entry marked by hand: the next top-level calculation purges it and "
          "what its period contains; an eternal variable marked under one period taints a read under another), and further clone() calls on the original, on a "
          "clone, on a clone's clone (up to 5 live simulations), made after calculations, failed requests and spirals; a quarter of "
          "the calls repeat an earlier call's variable and period on another simulation. A dedicated family runs variables defined "
          "from their own past on every simulation (spiral rule, invalidated entries, purge). Compared with the model at every "
          "clone(): the alias graph (id()-classes of simulation.persons / populations / tracer / invalidated_caches / "
          "_data_storage_dir, population.simulation / _holders / members, holder.population / simulation / _memory_storage / "
          "._arrays / _disk_storage / its directory, of parent and clone) and, after every event, its result and every observable "
          "of every live simulation (known periods and vectors of every holder through get_known_periods / get_array - the vector "
          "of an Enum variable must be an EnumArray of the variable's enumeration, a bare index array is printed as another value -, entity "
          "structure with ids, the role and position of every member, nb_persons(role) for every role and describe_entities(), what each part refers "
          "to, debug / opt_out_cache / max_spiral_loops, trace flag, recorded roots, stack depth, invalidated set). The oracle "
          "compares every live simulation after every event with a control built afresh and fed the simulation's own lineage of "
          "calls (its ancestors' calls up to each clone(), then its own). Non-trivial = some event after the first clone changed an "
          "observable. distinct = distinct protocol lines."),
    assumptions=[
        "numpy vectors are treated as values: no call of the property mutates an array in place; clone and original do share the "
        "array OBJECTS of the values present at clone time, and set_input stores the caller's array object (the histories hand "
        "arrays held by one simulation to another and go on calculating: an engine that accumulated in place would be seen, as "
        "the seeded change C13-4 was); a FORMULA or a caller writing into an array it was given is outside the property",
        "the tax-benefit system, entities, variables, ids / members_entity_id arrays and the MemoryConfig object are shared by "
        "reference and immutable here (mutation of the system is C14's subject)",
        "ids are (region, index) pairs and a call allocates at the end of its own simulation's region: any discipline handing out "
        "fresh ids models id(), nothing observes the numeric value of an id",
        "formulas are those of the generated DSL (reads through population(), group.members/sum, person.<group>); arbitrary "
        "Python formulas that keep references to populations across simulations are outside the model",
        "float32 arithmetic is exact on the generated small integers; psutil's memory reading is forced to one branch by "
        "max_memory_occupation=0; files of the temporary directory behave like a dict keyed by (variable, period text); "
        "directory removal in OnDiskStorage.__del__ is not modelled (the harness keeps every simulation alive until the case ends)",
        "an eternal variable with a formula requested at ETERNITY raises in the code (get_formula prints the start instant); "
        "mirrored by the model, not counted; calculate_add over the eternal period is compared but not binding (C03)",
        "the control histories of the oracle run each side's own calls on a fresh identical simulation (built the same way, "
        "same calls before the clone); for the clone's control `simulation.trace = <clone's trace argument>` installs the new "
        "tracer clone() installs, and the entries the parent had marked with invalidate_cache_entry and not purged yet are "
        "dropped, as clone() drops them (the clone keeps those values cached; the statement's birth clause lists inputs, "
        "cached values and entity structure, not the marks)",
    ],
    exhaustive_note="",
    level_text=("T on the model for ALL heaps and ALL interleavings: ownership of the clone (C13_clone_owns_itself), equality "
                "of values / known periods / entity structure (roles, positions) / configuration right after clone() with the "
                "original untouched (C13_clone_equal_initially); for memory-backed simulations disjoint footprints and "
                "non-interference of observations and returned values (_partial: proved about cloneSim, the clone code without "
                "its on-disk branch; the disk branch of the repaired code - repair C13-disk: own directory, copied files - is the "
                "model cloneSimR, which the driver runs for every case and cross-checks against cloneSim on every memory-backed "
                "clone; C13_disk_clone_separate proves the separation on the example, the correspondence carries it for "
                "every generated disk-backed history, after which C13_family_noninterference applies); any number of closed simulations never interfere "
                "(C13_family_noninterference) and every history of calls and clones - clones of clones, clones made after "
                "failed requests and spirals - keeps the live simulations separate and clonable "
                "(C13_histories_keep_simulations_separate); the interleaving theorem holds for ARBITRARY region-local "
                "computations on the two sides, not only the listed calls (C13_any_local_operations_noninterfere: frame rule "
                "+ induction). K: alias graph of the real objects at every clone() and every "
                "observable of every live simulation after every event."),
)
