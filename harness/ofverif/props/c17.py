"""C17 — tracing and storage settings never change results."""
from __future__ import annotations

import itertools
import pickle
import random
import os
import shutil
import tempfile

from ..core import Case, Prop
from .. import rulesys as rs
from . import c01

OPTS = ["trace", "memory", "priority", "drop", "blacklist"]


def _names(c, key):
    return [f"v{i}" for i in c.config.get(key, [])]


def _configure(c: rs.SysCase, tbs):
    cfg = c.config
    tmp = {"dir": None}

    def configure(sim):
        from openfisca_core.experimental import MemoryConfig
        if cfg.get("trace"):
            sim.trace = True
        if cfg.get("memory"):
            tmp["dir"] = tempfile.mkdtemp(prefix="ofv_c17_", dir="/var/tmp")
            sim._data_storage_dir = tmp["dir"]
            # threshold 0: every value goes to a real file; 1 (= 100 %): the disk store exists and stays empty; given as a
            # number or as the text a configuration file holds
            thr = cfg.get("threshold", 0)
            sim.memory_config = MemoryConfig(max_memory_occupation=(str(thr) if cfg.get("threshold_text") else thr),
                                             priority_variables=_names(c, "priority_vars"), variables_to_drop=_names(c, "drop_vars"))
        if cfg.get("blacklist"):
            tbs.cache_blacklist = set(_names(c, "blacklist_vars"))
            sim.opt_out_cache = True
    return configure, tmp


def _no_store(c: rs.SysCase):
    cfg = c.config
    drop = set(cfg.get("drop_vars", [])) if cfg.get("memory") else set()
    black = set(cfg.get("blacklist_vars", [])) if cfg.get("blacklist") else set()
    return lambda i, v: i in drop or i in black


def _case(c: rs.SysCase, tags=(), claimed=True) -> Case:
    return Case(line=rs.to_line(c, no_store_override=_no_store(c)), payload=pickle.dumps(c).hex(), tags=tuple(tags), claimed=claimed)


def _reads(c: rs.SysCase, v: int, tok: str):
    """the variable-at-period reads the formula in force at (v, tok) performs, in order (requested periods)"""
    import datetime as dt
    from ..perutil import parse_date
    var = c.vars[v]
    start_ord = dt.date(*parse_date(tok.split("/")[1])).toordinal()
    if var.end is not None and start_ord > var.end:
        return []
    cands = [(s, e) for (s, e) in var.formulas if s <= start_ord]
    if not cands:
        return []
    e = max(cands, key=lambda se: se[0])[1]
    out = []

    def walk(e):
        k = e[0]
        if k == "o1" and e[1] == rs.OP_PARAM and e[2][0] == "v":
            return                                   # a parameter, not a variable
        if k == "o1" and e[1] == rs.OP_DIVIDE and e[2][0] == "v":
            # DIVIDE: one read, of the variable at its definition-period-long period around the start of the requested one
            w, pt = e[2][1], e[2][2]
            out.append((w, rs.div_target(c.vars[w], c01._pt(tok, pt))[0]))
            return
        if k == "v":
            _, w, pt, add = e
            q = c01._pt(tok, pt)
            if add:
                for s in c01._subperiods(q, c.vars[w].unit):
                    out.append((w, s))
            else:
                out.append((w, q))
        elif k == "o1":
            walk(e[2])
        elif k == "o2":
            walk(e[2]); walk(e[3])
        elif k == "f":
            walk(e[2])
    walk(e)
    return out


def _param_reads(c: rs.SysCase, v: int, tok: str):
    """the parameter reads the formula in force at (v, tok) performs, in order: (parameter name, instant text, value);
    from the declaration alone (dated values: the latest start on or before the instant)"""
    import datetime as dt
    from ..perutil import parse_date
    var = c.vars[v]
    start_ord = dt.date(*parse_date(tok.split("/")[1])).toordinal()
    if var.end is not None and start_ord > var.end:
        return []
    cands = [(s, e) for (s, e) in var.formulas if s <= start_ord]
    if not cands:
        return []
    e = max(cands, key=lambda se: se[0])[1]
    out = []

    def walk(e):
        k = e[0]
        if k == "o1" and e[1] == rs.OP_PARAM and e[2][0] == "v":
            i, pt = e[2][1], e[2][2]
            q = c01._pt(tok, pt)
            day = dt.date(*parse_date(q.split("/")[1]))
            vals = [(st, val) for (st, val) in c.params[i] if st <= day.toordinal()]
            name = rs.param_name(i, c)
            out.append((name if "." in name else "." + name, day.isoformat(), max(vals)[1]))
        elif k == "o1":
            walk(e[2])
        elif k == "o2":
            walk(e[2]); walk(e[3])
        elif k == "f":
            walk(e[2])
    walk(e)
    return out


def _check_reads(c: rs.SysCase, tfield: str):
    """independent of the model: the recorded children of every node equal the reads of its formula in force"""
    if tfield == "T:":
        return None
    for item in tfield[2:].split("&"):
        k, deps = item.split(">")
        deps = deps.split("$")[0]
        v, tok = k.split("@")
        v = int(v)
        if c.vars[v].unit == "eternity":
            continue
        if not deps:
            continue
        try:
            want = []
            for (w, q) in _reads(c, v, tok):
                want.append(f"{w}@" + ("eternity/-1,-1,-1/-1" if c.vars[w].unit == "eternity" else q))
        except Exception:
            continue
        if deps.split("+") != want:
            return f"the trace of v{v}@{tok} lists the reads {deps.split('+')[:8]}, its formula performs {want[:8]}"
    return None


def _trace_check(c: rs.SysCase, sim):
    """every calculated node of the flat trace lists exactly the reads of its formula, in order, with the values returned"""
    from ..perutil import fmt_period
    from openfisca_core import periods
    flat = sim.tracer.get_flat_trace()
    keyof = lambda w, tok: f"v{w}<{periods.period(_tok_to_str(tok))}>"
    for key, node in flat.items():
        deps = node["dependencies"]
        if not deps:
            continue
        name, per = key[:-1].split("<")
        v = int(name[1:])
        tok = fmt_period(periods.period(per))
        if c.vars[v].unit == "eternity":
            continue
        try:
            want = [keyof(w, q) for (w, q) in _reads(c, v, tok)]
        except Exception:
            continue
        if deps != want:
            return f"trace of {key} lists reads {deps[:8]}, its formula performs {want[:8]}"
        for d in deps:
            if d not in flat:
                return f"trace of {key} lists {d}, which has no trace node"
    return None


def _params_check(c: rs.SysCase, sim):
    """every COMPLETED calculation of the trace trees recorded exactly the parameter reads of its formula in force, in
    order, with the values read (from the declaration alone)"""
    from ..perutil import fmt_period
    if not getattr(c, "params", None):
        return None

    def walk(node):
        v = int(node.name[1:])
        if node.value is not None and v < len(c.vars) and c.vars[v].unit != "eternity" and (node.children or node.parameters):
            try:
                want = _param_reads(c, v, fmt_period(node.period))
            except Exception:
                want = None
            got = [(p.name, str(p.period), p.value.tolist() if hasattr(p.value, "tolist") else p.value) for p in node.parameters]
            if want is not None and got != want:
                return f"the trace of {node.name}<{node.period}> records the parameter reads {got[:6]}, its formula performs {want[:6]}"
        for ch in node.children:
            m = walk(ch)
            if m:
                return m
        return None
    for root in sim.tracer.trees:
        m = walk(root)
        if m:
            return m
    return None


def _flat_check(sim, light=False):
    """the flat trace (what the web API serves) against the trace trees: the entry of every node is its
    chronologically first occurrence -- the calculation itself, later occurrences being cache reads --
    with that occurrence's reads, in order, and its value"""
    import sys
    import numpy
    from openfisca_core.indexed_enums import EnumArray
    try:
        flat = sim.tracer.get_flat_trace()
    except Exception as exc:
        return f"get_flat_trace raised {type(exc).__name__}: {str(exc)[:80]}"
    first: dict = {}

    def walk(node):
        k = f"{node.name}<{node.period}>"
        if k not in first:
            first[k] = node
        for ch in node.children:
            walk(ch)
    for root in sim.tracer.trees:
        walk(root)
    for k, node in first.items():
        if k not in flat:
            return f"the flat trace has no entry for {k}, which the trace trees record"
        want = [f"{ch.name}<{ch.period}>" for ch in node.children]
        if list(flat[k]["dependencies"]) != want:
            return f"the flat trace of {k} lists the reads {list(flat[k]['dependencies'])[:8]}, its calculation performed {want[:8]}"
        wantp = {f"{p.name}<{p.period}>": (p.value.tolist() if hasattr(p.value, "tolist") else p.value) for p in node.parameters}
        if dict(flat[k]["parameters"]) != wantp:
            return f"the flat trace of {k} lists the parameters {dict(flat[k]['parameters'])}, its calculation read {wantp}"
        a, b = flat[k]["value"], node.value
        if (a is None) != (b is None) or (a is not None and not numpy.array_equal(numpy.asarray(a), numpy.asarray(b))):
            return f"the flat trace of {k} carries a value other than the one its calculation returned"
    for k in flat:
        if k not in first:
            return f"the flat trace lists {k}, which the trace trees do not record"
    if light:                    # after every request: the flat trace against the trees; the rest once, at the end
        return None
    # the serialised form (web API /trace): same keys, same reads, the values written out
    try:
        ser = sim.tracer.get_serialized_flat_trace()
    except Exception as exc:
        return f"get_serialized_flat_trace raised {type(exc).__name__}: {str(exc)[:80]}"
    if set(ser) != set(flat):
        return "the serialised flat trace does not have the keys of the flat trace"
    for k, node in first.items():
        if list(ser[k]["dependencies"]) != list(flat[k]["dependencies"]):
            return f"the serialised flat trace of {k} lists other reads than the flat trace"
        v = node.value
        if v is None:
            want = None
        elif isinstance(v, EnumArray):
            want = [v.possible_values.names[int(i)] if hasattr(v.possible_values, "names") else list(v.possible_values)[int(i)].name
                    for i in numpy.asarray(v.view(numpy.ndarray)).tolist()]
        elif v.dtype.kind in "iufb":
            want = v.tolist()
        else:
            continue
        if ser[k]["value"] != want:
            return f"the serialised flat trace of {k} carries {str(ser[k]['value'])[:60]}, its calculation returned {str(want)[:60]}"
    # the computation log: one line per node of the trees, in chronological (depth-first) order, indented by depth
    want_lines = []

    def walk2(node, depth):
        want_lines.append("  " * depth + f"{node.name}<{node.period}> >> ")
        for ch in node.children:
            walk2(ch, depth + 1)
    for root in sim.tracer.trees:
        walk2(root, 1)
    try:
        lines = sim.tracer.computation_log.lines()
    except Exception as exc:
        return f"computation_log.lines raised {type(exc).__name__}: {str(exc)[:80]}"
    if len(lines) != len(want_lines) or any(not l.startswith(w) for l, w in zip(lines, want_lines)):
        return "the computation log does not list the calculations in the order and at the depth of the trace trees"
    # ... with the values returned: each line ends with the value of its node as numpy prints it
    nodes = []

    def walk3(node):
        nodes.append(node)
        for ch in node.children:
            walk3(ch)
    for root in sim.tracer.trees:
        walk3(root)
    for l, w, node in zip(lines, want_lines, nodes):
        v = node.value
        if v is None:
            continue
        shown = numpy.array2string(v.decode_to_str() if isinstance(v, EnumArray) else v, max_line_width=sys.maxsize)
        if l != w + shown:
            return f"the computation log line {l[:80]!r} does not carry the value its calculation returned ({shown[:40]})"
    # what print_computation_log() prints by default IS that log (values, not aggregates, whole depth)
    import contextlib
    import io
    buf = io.StringIO()
    with contextlib.redirect_stdout(buf):
        sim.tracer.print_computation_log()
    if buf.getvalue().splitlines() != "\n".join(lines).splitlines():
        return "print_computation_log() does not print the computation log (values of every calculation, whole depth)"
    # the aggregated log: same calculations, same order and depth; minimum, maximum and mean of numeric values
    agg = sim.tracer.computation_log.lines(aggregate=True)
    if len(agg) != len(want_lines) or any(not l.startswith(w) for l, w in zip(agg, want_lines)):
        return "the aggregated computation log does not list the calculations in the order and at the depth of the trace trees"
    for l, w, node in zip(agg, want_lines, nodes):
        v = node.value
        if v is None or isinstance(v, EnumArray) or v.dtype.kind not in "iufb":
            continue
        want = str({"avg": numpy.mean(v), "max": numpy.max(v), "min": numpy.min(v)})
        if l != w + want:
            return f"the aggregated computation log line {l[:90]!r} does not carry the mean / maximum / minimum of the value ({want})"
    # limited depth: exactly the lines of the calculations at depth <= d
    depths = []

    def walk4(node, d):
        depths.append(d)
        for ch in node.children:
            walk4(ch, d + 1)
    for root in sim.tracer.trees:
        walk4(root, 1)
    cut = sim.tracer.computation_log.lines(max_depth=1)
    if cut != [l for l, d in zip(lines, depths) if d <= 1]:
        return "the computation log limited to depth 1 is not the list of the top-level calculations"
    return None


def _tok_to_str(tok: str) -> str:
    from ..perutil import parse_period_token
    return str(parse_period_token(tok))


def _real_reads(c: rs.SysCase, sim) -> str:
    """children of every calculation recorded by the real FullTracer, for the nodes still known at the end"""
    from ..perutil import fmt_period
    known = {k for k, _ in rs.known_entries(c, sim)}
    table: dict = {}

    def key(node):
        v = int(node.name[1:])
        tok = "eternity/-1,-1,-1/-1" if c.vars[v].unit == "eternity" else fmt_period(node.period)
        return f"{v}@{tok}"

    import datetime as dt
    pid = {("." + rs.param_name(i, c) if "." not in rs.param_name(i, c) else rs.param_name(i, c)): i for i in range(len(getattr(c, "params", None) or []))}

    def pkey(pn):
        val = pn.value.tolist() if hasattr(pn.value, "tolist") else pn.value
        return f"{pid.get(pn.name, pn.name)}:{dt.date.fromisoformat(str(pn.period)).toordinal()}:{val}"

    def walk(node):
        if node.children or node.parameters:
            table.setdefault(key(node), "+".join(key(ch) for ch in node.children)
                             + ("$" + "+".join(pkey(pn) for pn in node.parameters) if node.parameters else ""))
        for ch in node.children:
            walk(ch)
    for root in sim.tracer.trees:
        walk(root)
    items = sorted((k, v) for k, v in table.items() if k in known)
    return "T:" + "&".join(f"{k}>{v}" for k, v in items)



# --------------------------------------------------------------------------------------
# the holder's two-tier value store (protocol `hst`, model `HolderStore.lean`)

HST_MONTHS = ["month/2018,1,1/1", "month/2018,2,1/1", "month/2018,3,1/1"]
HST_ANY = HST_MONTHS + ["year/2018,1,1/1", "day/2018,1,15/1", "eternity/-1,-1,-1/-1"]


def _hst_value(kind: str, x: int, E5):
    import datetime as dt
    import numpy as np
    if kind == "enum":
        return np.array([list(E5)[x]], dtype=object)
    if kind == "str":
        return np.array([f"s{x}"], dtype=object)
    if kind == "date":
        return np.array([np.datetime64(dt.date.fromordinal(x + 1))], dtype="datetime64[D]")
    if kind == "bool":
        return np.array([bool(x)])
    if kind == "int":
        return np.array([x], dtype=np.int32)
    return np.array([float(x)], dtype=np.float32)


def _impl_hst(case: Case) -> str:
    """the history on a REAL holder: writes through set_input / put_in_cache with the memory-occupation
    threshold moved below / above the machine's occupation before each write, reads through get_array,
    deletions through delete_arrays, get_known_periods"""
    import gc
    import numpy as np
    from openfisca_core import entities, simulations, taxbenefitsystems, variables
    from openfisca_core.experimental import MemoryConfig
    from openfisca_core.indexed_enums import Enum
    from openfisca_core.periods import DateUnit
    import datetime as dt
    from ..perutil import fmt_period, parse_period_token
    f = case.line.split()
    eternal, diskable, n = f[1] == "1", f[2] == "1", int(f[3])
    kind = dict(t.split("=", 1) for t in case.tags if "=" in t).get("vtype", "float")
    variant = int(dict(t.split("=", 1) for t in case.tags if "=" in t).get("variant", "0"))
    person = entities.Entity("person", "persons", "", "")
    tbs = taxbenefitsystems.TaxBenefitSystem([person])
    E5 = Enum("E5", {f"m{i}": f"m{i}" for i in range(5)})
    vt = {"int": int, "float": float, "bool": bool, "enum": Enum, "date": dt.date, "str": str}[kind]
    attrs = dict(value_type=vt, entity=person, definition_period=DateUnit.ETERNITY if eternal else DateUnit.MONTH)
    if kind == "enum":
        attrs.update(possible_values=E5, default_value=list(E5)[0])
    tbs.add_variable(type("v0", (variables.Variable,), attrs))
    sim = simulations.Simulation(tbs, tbs.instantiate_entities())
    sim.persons.count = 1
    sim.persons.ids = ["p0"]
    tmp = None
    mc = None
    try:
        if diskable or variant % 2:
            # not disk-storable = no memory configuration at all, or a configuration naming v0 a priority variable
            tmp = tempfile.mkdtemp(prefix="ofv_c17h_", dir="/var/tmp")
            sim._data_storage_dir = tmp
            mc = MemoryConfig(max_memory_occupation=0, priority_variables=[] if diskable else ["v0"])
            sim.memory_config = mc
        holder = sim.persons.get_holder("v0")
        out = []
        i = 4
        nw = 0
        while i < len(f):
            op = f[i]
            if op == "s":
                p, x, b = parse_period_token(f[i + 1]), int(f[i + 2]), f[i + 3] == "1"
                if mc is not None:
                    mc.max_memory_occupation_pc = 0 if b else 101
                val = _hst_value(kind, x, E5)
                if (nw + variant) % 2:
                    sim.set_input("v0", p, val)
                else:
                    holder.put_in_cache(holder._to_array(val), p)
                nw += 1
                i += 4
            elif op == "g":
                a = holder.get_array(parse_period_token(f[i + 1]))
                if a is None:
                    out.append("none")
                else:
                    out.append(rs.canon_array(a))
                    if kind == "date":      # canon_array prints the ordinal; values are ordinal - 1
                        out[-1] = str(int(out[-1]) - 1)
                i += 2
            elif op == "d":
                holder.delete_arrays(None if f[i + 1] == "*" else parse_period_token(f[i + 1]))
                i += 2
            elif op == "k":
                out.append("+".join(sorted({fmt_period(q) for q in holder.get_known_periods()})))
                i += 1
            else:
                raise ValueError(op)
        return ";".join(out)
    finally:
        sim = holder = None
        gc.collect()
        if tmp:
            shutil.rmtree(tmp, ignore_errors=True)


def _oracle_hst(case: Case, out: str):
    """independent of the model: one dictionary; the latest write wins, a deletion removes, wherever the values live"""
    f = case.line.split()
    eternal = f[1] == "1"
    key = (lambda t: "eternity/-1,-1,-1/-1") if eternal else (lambda t: t)
    d: dict = {}
    want = []
    i = 4
    while i < len(f):
        op = f[i]
        if op == "s":
            d[key(f[i + 1])] = f[i + 2]; i += 4
        elif op == "g":
            want.append(d.get(key(f[i + 1]), "none")); i += 2
        elif op == "d":
            if f[i + 1] == "*":
                d.clear()
            else:
                d.pop(key(f[i + 1]), None)
            i += 2
        else:
            want.append("+".join(sorted(d))); i += 1
    got = out.split(";") if out else []
    if got != want:
        j = next((j for j, (a, b) in enumerate(zip(got, want)) if a != b), min(len(got), len(want)))
        return ("store-read", f"read #{j} of the history returned {got[j] if j < len(got) else '-'}, the values written say {want[j] if j < len(want) else '-'}")
    return None


def gen_hst(rng: random.Random, n: int):
    out = []
    for _ in range(n):
        eternal = rng.random() < 0.3
        diskable = rng.random() < 0.7
        pool = HST_ANY if eternal else HST_MONTHS
        kind = rng.choice(["float", "int", "bool", "enum", "str", "date"])
        ops = []
        for _ in range(rng.randint(3, 12)):
            u = rng.random()
            if u < 0.45:
                ops += ["s", rng.choice(pool), str(rng.randint(0, 1 if kind == "bool" else 4)), str(rng.randint(0, 1))]
            elif u < 0.8:
                ops += ["g", rng.choice(pool)]
            elif u < 0.9:
                ops += ["d", rng.choice(pool + ["*"])]
            else:
                ops += ["k"]
        ops += ["k"] + [x for q in pool[:3] for x in ("g", q)]
        nops = sum(1 for t in ops if t in ("s", "g", "d", "k"))
        line = " ".join(["hst", "1" if eternal else "0", "1" if diskable else "0", str(nops)] + ops)
        out.append(Case(line=line, payload="", tags=("hst", f"vtype={kind}", f"variant={rng.randint(0, 3)}",
                                                       "eternal" if eternal else "dated", "disk" if diskable else "memory-only")))
    return out


def impl(case: Case) -> str:
    if case.line.startswith("hst "):
        return _impl_hst(case)
    c: rs.SysCase = pickle.loads(bytes.fromhex(case.payload))
    tbs, ctx, E5 = rs.build_system(c)
    configure, tmp = _configure(c, tbs)
    trace = bool(c.config.get("trace"))
    state = {"msg": None}

    def after_request(sim, r, o):
        if trace and state["msg"] is None and r[0] in ("calc", "add", "div", "out"):
            state["msg"] = _flat_check(sim, light=True)      # consulted after EVERY request, not only at the end
    sim = None
    try:
        out, sim, _problems = rs.run_real(c, configure=configure, after_request=after_request, system=(tbs, ctx, E5),
                                          on_reads=(lambda sim: _real_reads(c, sim)) if trace else None)
        if trace:
            msg = state["msg"] or _flat_check(sim) or _params_check(c, sim)
            if msg:
                out += "#TRACE:" + msg
        return out
    finally:
        import gc
        sim = _problems = configure = after_request = None
        state.clear()
        gc.collect()                 # the on-disk stores remove their own directories in __del__
        if tmp["dir"]:
            # a store that is still alive here (kept by a frame of an exception, by a returned array ...) would try to
            # remove its sub-directory again in __del__: tell it the directory is not its to remove any more
            for o in gc.get_objects():
                if type(o).__name__ == "OnDiskStorage" and str(getattr(o, "storage_dir", "")).startswith(tmp["dir"]):
                    o.preserve_storage_dir = True
            shutil.rmtree(tmp["dir"], ignore_errors=True)


def canon_equal(case: Case, impl_out: str, model_out: str) -> bool:
    if case.line.startswith("hst "):
        return impl_out == model_out
    if rs.values_too_large(impl_out) or rs.values_too_large(model_out):
        return True
    a, b = impl_out.split("#TRACE:")[0], model_out
    if "T:?" in a or "#L:?" in a:            # tracing off: the model's reads and logs are not observable on this run
        import re
        a = re.sub(r"T:[^;|]*", "T:", a)
        b = re.sub(r"T:[^;|]*", "T:", b)
        a = re.sub(r"#L:[^;|]*", "", a)
        b = re.sub(r"#L:[^;|]*", "", b)
    return a == b


def oracle(case: Case, out: str):
    if case.line.startswith("hst "):
        return _oracle_hst(case, out)
    if not case.claimed or rs.values_too_large(out):
        return None
    c: rs.SysCase = pickle.loads(bytes.fromhex(case.payload))
    if "#ALIAS:" in out:
        return ("returned-array-rewritten", "an array handed out by an earlier request (#" + out.split("#ALIAS:")[1].split(";")[0].split("|")[0].split("#")[0]
                + ") changed its values when the store was written to later: earlier results / trace values are rewritten retroactively")
    if "#UNREADABLE:" in out:
        return ("stored-value-unreadable", "a value stored under this configuration cannot be read back: " + out.split("#UNREADABLE:")[1])
    if "#TRACE:" in out:
        return ("trace-reads", out.split("#TRACE:")[1])
    got = out.split("|")[0].split(";")
    if c.config.get("trace") and got and got[-1].startswith("T:") and not any(g.startswith(("ERR", "CYCLE")) for g in got):
        msg = _check_reads(c, got[-1])
        if msg:
            return ("trace-reads", msg)
    for i, g in enumerate(got):
        if "#STATE" in g:
            return ("stack-not-empty", f"request {c.reqs[i]}: evaluation stack or invalidated set not empty after the request")
    # the plain in-memory run of the same system and requests
    plain = rs.derive(c, reqs=[r for r in c.reqs if r[0] != "reads"], config={})
    pout, _, _ = rs.run_real(plain)
    want = pout.split("|")[0].split(";")
    # once an input is written again between the requests the inputs are no longer fixed: a configuration that does not
    # keep a value recomputes it from the new input where the plain run serves the value it kept (the model says so too,
    # and binds both); the comparison with the plain run covers the requests before that write
    first_set = next((i for i, r in enumerate(r for r in c.reqs if r[0] != "reads") if r[0] == "set"), len(want))
    for i, (g, w) in enumerate(zip(got, want)):
        if i >= first_set:
            break
        g, w = g.split("#L:")[0], w.split("#L:")[0]
        if w.startswith("ok:") and g != w:
            opts = [o for o in OPTS if c.config.get(o)]
            return ("config-changes-result", f"request #{i} {c.reqs[i]} under {opts}: {g}, the plain in-memory run returns {w}")
    return None


def nontrivial(case: Case, out: str) -> bool:
    if case.line.startswith("hst "):
        return any(t.isdigit() for t in out.split(";"))
    c: rs.SysCase = pickle.loads(bytes.fromhex(case.payload))
    return any(c.config.get(o) for o in OPTS) and "ok:" in out


def _with_config(rng, c: rs.SysCase, subset) -> rs.SysCase:
    n = len(c.vars)
    cfg = {o: (o in subset) for o in OPTS}
    pick = lambda k: sorted(rng.sample(range(n), min(n, k)))
    cfg["priority_vars"] = pick(rng.randint(1, 3)) if cfg["priority"] else []
    cfg["drop_vars"] = pick(rng.randint(1, 3)) if cfg["drop"] else []
    cfg["blacklist_vars"] = pick(rng.randint(1, 3)) if cfg["blacklist"] else []
    # priority / drop only exist inside a memory configuration
    if (cfg["priority"] or cfg["drop"]) and not cfg["memory"]:
        cfg["memory"] = True
    # dropping an input-carrying variable loses nothing (inputs are set through set_input, not put_in_cache)
    # a third of the inputs are written twice (the latest value counts)
    cfg["rewrite"] = [i for i in range(len(c.inputs)) if rng.random() < 0.3]
    # any occupation threshold: 0 (everything on disk) mostly, 1 (nothing on disk), as a number or as text
    cfg["threshold"] = 1 if rng.random() < 0.2 else 0
    cfg["threshold_text"] = rng.random() < 0.3
    return rs.derive(c, config=cfg)


def generate(rng: random.Random, tier: str):
    nsys = 220 if tier == "quick" else 1200
    subsets = [s for k in range(len(OPTS) + 1) for s in itertools.combinations(OPTS, k)]
    out = []
    for j in range(nsys):
        # half of the systems use the extended language: DIVIDE reads, parameters (their reads are part of the trace),
        # calculate_divide / get_array / delete_arrays of computed values between the requests
        ext = {"divide", "params", "requests"} if j % 2 else None
        c = rs.gen_case(rng, kind="ranked", msl=1, nreq=rng.randint(3, 7), features=ext)
        # a third of the plain requests ask for the whole trace of the request (compared with the model's log when tracing is on)
        if c.params:
            # one more variable reads EVERY parameter of the tree (by attribute or by item, depending on its index) and is
            # requested at a date where all of them are defined: a key that an object standing in for the parameter node
            # shadows (tracing proxy) shows as a difference between the traced and the plain run
            e = ("c", 0)
            for i in range(len(c.params)):
                e = ("o2", 0, e, ("o1", 150 + 2 + i, ("o1", rs.OP_PARAM, ("v", i, rng.choice(["same", "first_month", "this_year"]), False))))
            c.vars.append(rs.Var(entity=rng.randint(0, 1), vtype="int", unit="month", dflt=0, formulas=[(1, e)]))
            if c.outputs:
                c.outputs.append(0)
            c.reqs.insert(rng.randrange(len(c.reqs) + 1), ("calc", len(c.vars) - 1, rs.MONTHS[3]))
        c.reqs = [(("tcalc",) + tuple(r[1:]) if r[0] == "calc" and rng.random() < 0.35 else r) for r in c.reqs]
        if c.inputs and rng.random() < 0.4:
            # an input is written AGAIN (same period, same length, other values) after requests that read it, then the
            # requests are made again: what was returned and recorded before the second write must not change
            iv, itok, ivals = rng.choice(c.inputs)
            asked = [r for r in c.reqs if r[0] in ("calc", "tcalc", "add", "div", "out")]
            c.reqs = c.reqs + [("get", iv, itok), ("set", iv, itok, rs.gen_values(rng, c.vars[iv], len(ivals)))] + asked[:3] + [("get", iv, itok)]
        c.reqs = c.reqs + [("reads",)]
        for sub in subsets:
            c2 = _with_config(rng, c, sub)
            out.append(_case(c2, tuple("opt:" + o for o in sub) or ("plain",)))
    out += gen_hst(rng, 3000 if tier == "quick" else 40000)
    return out


def corpus():
    M = rs.MONTHS
    # every value type through the disk store: str (object arrays, F-C17), enum, date, bool, int, float
    vs = [rs.Var(vtype=t, unit="month", dflt=d) for t, d in (("str", 3), ("enum", 2), ("date", 40), ("bool", 1), ("int", 5), ("float", 6))]
    vs.append(rs.Var(vtype="float", unit="month", dflt=0, formulas=[(1, ("o2", 0, ("v", 4, "same", False), ("v", 5, "last_month", False)))]))
    c = rs.SysCase(2, 1, [0, 0], 1, vs, [(0, M[1], [7, 8]), (1, M[1], [0, 4]), (2, M[1], [100, 200]), (3, M[1], [0, 1])],
                   [("calc", i, M[1]) for i in range(7)] + [("calc", i, M[2]) for i in range(7)] + [("calc", i, M[1]) for i in range(7)] + [("reads",)])
    out = []
    for sub in [("memory",), ("memory", "trace"), ("trace",), ()]:
        cfg = {o: (o in sub) for o in OPTS}
        cfg.update(priority_vars=[], drop_vars=[], blacklist_vars=[])
        out.append(_case(rs.derive(c, config=cfg), ("corpus",) + tuple("opt:" + o for o in sub)))
    # the extended language under every storage option: DIVIDE reads, parameters (recorded in the trace), the whole trace of
    # a request (`tcalc`), deletion of computed values on disk-backed holders
    import datetime as dt
    y0 = rs.Var(vtype="float", unit="year", dflt=4)
    m1 = rs.Var(vtype="int", unit="month", dflt=0, formulas=[(1, ("o2", 0, ("o1", rs.OP_DIVIDE, ("v", 0, "same", False)), ("o1", rs.OP_PARAM, ("v", 0, "same", False))))])
    m2 = rs.Var(vtype="float", unit="month", dflt=0, formulas=[(1, ("o2", 0, ("o2", 0, ("v", 1, "same", False), ("v", 1, "last_month", False)), ("o1", rs.OP_PARAM, ("v", 1, "this_year", False))))])
    c2 = rs.SysCase(2, 1, [0, 0], 1, [y0, m1, m2], [(0, "year/2018,1,1/1", [25, -25])],
                    [("tcalc", 2, M[3]), ("tcalc", 2, M[3]), ("get", 1, M[2]), ("del", 1, "year/2018,1,1/1"), ("get", 1, M[2]), ("div", 0, M[3]), ("tcalc", 2, M[4]),
                     ("out", 1, M[3]), ("tcalc", 5, M[1]), ("tcalc", 1, "year/2018,1,1/1"), ("reads",)],
                    params=[[(dt.date(2017, 1, 1).toordinal(), 3), (dt.date(2018, 2, 1).toordinal(), 5)], [(dt.date(2016, 1, 1).toordinal(), 2)]], outputs=[2, 1, 0])
    for sub in [("trace",), ("trace", "memory"), ("memory", "drop"), ("trace", "blacklist"), ()]:
        cfg = {o: (o in sub) for o in OPTS}
        cfg.update(priority_vars=[], drop_vars=[1] if "drop" in sub else [], blacklist_vars=[1] if "blacklist" in sub else [])
        out.append(_case(rs.derive(c2, config=cfg), ("corpus", "ext") + tuple("opt:" + o for o in sub)))
    return out


def _init_worker():
    """the adapter calls gc.collect() after every case (the disk stores remove their directories in __del__); a full
    collection walks every tracked object of the process, and a forked worker inherits all the generated cases: freeze
    what exists at start so that a collection only looks at what the cases create"""
    import gc
    gc.collect()
    gc.freeze()


PROP = Prop(
    pid="C17",
    init_worker=_init_worker,
    lean_targets=["OFCore.Props.C17"],
    driver="ofdrv_sim",
    generate=generate, impl=impl, oracle=oracle, nontrivial=nontrivial, corpus=corpus, canon_equal=canon_equal,
    rule=("rule systems of the C01 generator (all value types incl. enum, date and str variables) each run under all 32 subsets of "
          "{trace on, memory configuration with max_memory_occupation = 0 (every value goes to a real file), priority variables, variables to "
          "drop, cache blacklist with opt-out}, the configuration being set on the simulation before any holder exists; compared with the "
          "model (whose only configuration is which variables are not cached): every returned value, the stack, the final known values; oracle: "
          "every request equals the plain in-memory run, and with tracing on every calculated node of the flat trace lists exactly the reads of "
          "its formula in force, in order; a third of the inputs are written twice, the first time below and the second time above the "
          "occupation threshold; the flat trace, its serialised form and the computation log are compared with the trace trees after every "
          "request -- including the parameters read (flat trace vs trees, and against the declaration: exactly the parameter reads of the formula in "
          "force, in order, with the values in force at the instant), the values printed by the log, print_computation_log() (default arguments), the "
          "aggregated log (mean / max / min) and the log cut at depth 1. Half of the systems use the extended language (DIVIDE reads, dated parameters) "
          "and the other entry points between the requests (calculate_divide, calculate_output, get_array, delete_arrays of computed values -- also on "
          "disk-backed holders); a third of the plain requests are `tcalc`: the WHOLE trace of the request (every calculation opened, at every depth, "
          "with its value and its reads) is compared with the log of the model's instrumented machine `runL`, the object of C17_trace_every_calculation; "
          "the memory configuration's threshold is 0 (80%) or 1 (nothing ever goes to disk), given as a number or as text. Second stream (`hst`, 3 000 histories): writes (set_input / put_in_cache, threshold moved before each), reads, deletions and "
          "known periods on ONE real holder -- every value type, dated and eternal variables, disk-storable or not -- against the two-tier store "
          "model and a one-dictionary oracle. Non-trivial = some option set and some value returned; distinct = distinct (line, option subset)."),
    assumptions=[
        "psutil's memory reading is not controlled; the threshold is: max_memory_occupation_pc = 0 (always at or above: disk) or 101 (never: memory)",
        "numpy.save/load and the file system are trusted; disk files live under /var/tmp and are removed after each case",
        "requests that the plain run refuses are outside the quantifier (the statement speaks of the values of the plain in-memory run)",
        "the trace clause: C17_trace_every_calculation is a theorem about the instrumented machine runL (every calculation of a request records exactly the reads of its formula); that the real FullTracer's trees are that log is checked by the correspondence (`tcalc` requests: model log vs tracer trees, entry by entry with values) and by the oracle; reads the engine refuses before it starts (unknown variable, wrong period) are `Expr.bad` in the model and are left out of the compared logs below the root",
        "get_memory_usage (Simulation / Population / Holder / storages) reports memory, not results: outside the statement; performance_log times likewise",
    ],
)
