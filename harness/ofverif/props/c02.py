"""C02 — what was calculated before never corrupts what is calculated or kept next."""
from __future__ import annotations

import os
import pickle
import random
import subprocess

from ..core import BIN, Case, Prop
from .. import rulesys as rs
from ..perutil import parse_period_token


def _no_store(c: rs.SysCase):
    """the model's only caching option: a blacklisted variable is not kept when the simulation opts out of the cache;
    a cache blacklist WITHOUT opt_out_cache changes nothing (such variables are cached, marked and purged like any other)"""
    cfg = c.config or {}
    black = set(cfg.get("blacklist_vars", [])) if cfg.get("opt_out") else set()
    return lambda i, v: v.no_store or i in black


def _case(c: rs.SysCase, tags=(), claimed=True) -> Case:
    return Case(line=rs.to_line(c, no_store_override=_no_store(c)), payload=pickle.dumps(c).hex(), tags=tuple(tags), claimed=claimed)


def _configure(c: rs.SysCase):
    cfg = c.config or {}

    def configure(sim):
        if cfg.get("blacklist_vars") is not None and "blacklist_vars" in cfg:
            sim.tax_benefit_system.cache_blacklist = {f"v{i}" for i in cfg["blacklist_vars"]}
            sim.opt_out_cache = bool(cfg.get("opt_out"))
    return configure


def impl(case: Case) -> str:
    c: rs.SysCase = pickle.loads(bytes.fromhex(case.payload))
    out, sim, problems = rs.run_real(c, configure=_configure(c))
    if problems:        # a result whose dtype is not the variable's (what a later reader gets must not depend on the cache)
        out += "#DTYPE:" + problems[0]
    return out


def _strip(model_out: str) -> str:
    return model_out.replace("!", "")


_values_too_large = rs.values_too_large


def canon_equal(case: Case, impl_out: str, model_out: str) -> bool:
    impl_out = impl_out.split("#DTYPE:")[0]
    if _values_too_large(impl_out) or _values_too_large(_strip(model_out)):
        return True          # off the exact lattice (numeric policy): not compared
    return impl_out == _strip(model_out)


def _model_known(case: Case) -> dict:
    """ghost bits of the model's retained entries: key -> tainted?"""
    p = subprocess.run([os.path.join(BIN, "ofdrv_sim")], input=case.line + "\n", capture_output=True, text=True, timeout=120)
    out = p.stdout.strip()
    known = out.split("|", 1)[1] if "|" in out else ""
    res = {}
    for e in _split_known(known):
        k, v = e.split("=", 1)
        res[k] = (v.rstrip("!"), v.endswith("!"))
    return res


def _split_known(known: str) -> list:
    """entries are `v@unit/Y,M,D/size=a,b,c` joined by commas: split on the commas that precede `<int>@`"""
    import re
    if not known:
        return []
    return re.split(r",(?=\d+@)", known)


def oracle(case: Case, out: str):
    if not case.claimed:
        return None
    c: rs.SysCase = pickle.loads(bytes.fromhex(case.payload))
    if _values_too_large(out):
        return None
    if "#ALIAS:" in out:
        return ("returned-array-rewritten", "an array handed out by an earlier request (#" + out.split("#ALIAS:")[1].split(";")[0].split("|")[0].split("#")[0]
                + ") changed its values when the store was written to later: earlier results / trace values are rewritten retroactively")
    if "#DTYPE:" in out:
        return ("result-type", out.split("#DTYPE:")[1])
    res, known = out.split("|", 1)
    got = res.split(";")
    for i, g in enumerate(got):
        if "#STATE" in g:
            return ("stack-or-invalidated-left", f"request {c.reqs[i]}: evaluation stack or invalidated set not empty after the request")
    kind = dict(t.split("=", 1) for t in case.tags if "=" in t).get("kind", "ranked")
    if "mutating" in case.tags:
        # set_input / delete_arrays of inputs between the requests: the inputs are not fixed, the statement does not
        # say what stays valid (the correspondence with the model still binds every answer and the final store)
        return None
    tbs, ctx, E5 = rs.build_system(c)
    # (i) no self-dependent variable: every request returns what a fresh simulation returns
    if kind == "ranked" and c.msl >= 1:
        for i, r in enumerate(c.reqs):
            if r[0] not in ("calc", "add", "div"):
                continue
            fresh = rs.build_simulation(c, tbs, E5)
            try:
                p = parse_period_token(r[2])
                if r[0] == "div":
                    x = fresh.calculate_divide(f"v{r[1]}", p)
                    tgt = rs.div_target(c.vars[r[1]], r[2]) if r[1] < len(c.vars) else None
                    want = "ok:" + (rs.canon_share(x, tgt[1]) if tgt else "~unexpected")
                else:
                    x = fresh.calculate(f"v{r[1]}", p) if r[0] == "calc" else fresh.calculate_add(f"v{r[1]}", p)
                    want = "ok:" + rs.canon_array(x)
            except Exception as exc:
                want = rs.classify(exc)
            if got[i] != want:
                return ("order-dependent", f"request #{i} {r}: {got[i]} after the earlier requests, {want} on a fresh simulation")
    # (ii) every retained value is what a fresh simulation given the inputs and the other retained values computes
    entries = _split_known(known)
    inputs = {(v, tok) for (v, tok, _) in c.inputs}
    kv = []
    for e in entries:
        k, vals = e.split("=", 1)
        v, tok = k.split("@")
        kv.append((int(v), tok, [int(x) for x in vals.split(",")]))
    ghost = None
    for (v, tok, vals) in kv:
        served_input = any(iv == v and (itok == tok or c.vars[v].unit == "eternity") for (iv, itok) in inputs)
        if served_input:
            continue
        c2 = rs.derive(c, inputs=[(w, t, x) for (w, t, x) in kv if (w, t) != (v, tok)], reqs=[])
        fresh = rs.build_simulation(c2, tbs, E5)
        try:
            # an eternal variable is requested at a dated period (at ETERNITY itself get_formula has no instant)
            rtok = "month/2018,1,1/1" if c.vars[v].unit == "eternity" else tok
            x = fresh.calculate(f"v{v}", parse_period_token(rtok))
            want = rs.canon_array(x)
        except Exception as exc:
            want = rs.classify(exc)
        have = ",".join(str(a) for a in vals)
        if want != have:
            if ghost is None:
                ghost = _model_known(case)
            mval, tainted = ghost.get(f"{v}@{tok}", (None, None))
            msg = f"retained v{v}@{tok} = {have}, a fresh simulation given the inputs and the other retained values computes {want}"
            # the recorded finding F-C02b is exactly: the MODEL (= the code's marking rule) retains this very
            # value and knows it is derived from a substituted default; anything else is a new failure
            if tainted and mval == have:
                return ("retained-derived-from-spiral-default:ancestor-above-earlier-occurrence", msg)
            return ("retained-not-reproducible", msg + f" (model: value {mval}, ghost bit {tainted})")
    return None


def nontrivial(case: Case, out: str) -> bool:
    return "ok:" in out and "|" in out and len(out.split("|", 1)[1]) > 0


def generate(rng: random.Random, tier: str):
    n = 18000 if tier == "quick" else 90000
    out = []
    for i in range(n):
        kind = "spiral" if rng.random() < 0.6 else "ranked"
        msl = rng.choice([1, 1, 1, 2, 3, 1, 1, 1, 2, 3, 1, 1, 1, 2, 3, 0])
        # a third of the ranked systems use the extended language (DIVIDE reads, parameters)
        ext = {"divide", "params"} if kind == "ranked" and rng.random() < 0.35 else None
        c = rs.gen_case(rng, kind=kind, msl=msl, nreq=rng.randint(2, 6), features=ext)
        if kind == "spiral":
            # consumers requested after the spiral: the shape that pollutes the cache
            months = rs.MONTHS
            c.reqs = [("calc", rng.randrange(len(c.vars)), rng.choice(months[1:])) for _ in range(rng.randint(2, 6))]
        if kind == "spiral" and rng.random() < 0.35:
            # siblings that SUM a variable of the spiral chain with the ADD option, evaluated inside the same request after
            # the spiral tainted (and marked) its months: yearly S = a + k * ADD(X), C = b + ADD(X), Top = S + C.  Each piece
            # C reads is a marked entry: C and Top must be discarded with it.
            xs = [j for j, w in enumerate(c.vars) if w.unit == "month"]
            if xs:
                x = rng.choice(xs)
                ent = c.vars[x].entity
                n0 = len(c.vars)
                add_x = ("v", x, "same", True)
                c.vars.append(rs.Var(entity=ent, vtype="float", unit="year", dflt=0,
                                     formulas=[(1, ("o2", 0, ("c", rng.randint(1, 5)), ("o1", 150 + rng.choice([1, 2]), add_x)))]))
                c.vars.append(rs.Var(entity=ent, vtype="float", unit="year", dflt=0, formulas=[(1, ("o2", 0, ("c", rng.randint(1, 5)), add_x))]))
                first, second = (n0, n0 + 1) if rng.random() < 0.7 else (n0 + 1, n0)
                c.vars.append(rs.Var(entity=ent, vtype="float", unit="year", dflt=0,
                                     formulas=[(1, ("o2", 0, ("v", first, "same", False), ("v", second, "same", False)))]))
                year = rng.choice(rs.YEARS)
                extra = [("calc", n0 + 2, year)] + ([("calc", rng.choice([n0, n0 + 1]), year)] if rng.random() < 0.5 else [])
                k = rng.randrange(len(c.reqs) + 1)
                c.reqs = c.reqs[:k] + extra + c.reqs[k:]
        tags = (f"kind={kind}", f"msl={msl}")
        if rng.random() < 0.3:
            # a cache blacklist naming 1-2 variables (inside the spiral chains too), with and without opt_out_cache
            n = len(c.vars)
            c.config = {"blacklist_vars": sorted(rng.sample(range(n), min(n, rng.randint(1, 2)))), "opt_out": rng.random() < 0.5}
            tags += ("blacklist", f"opt_out={c.config['opt_out']}")
        # 40%: the other entry points between the requests -- calculate_divide, get_array, delete_arrays of computed
        # values (all inside the statement: the inputs stay fixed); 12%: set_input / delete_arrays of inputs as well
        u = rng.random()
        if u < 0.40:
            c.reqs = rs.extend_requests(rng, c.vars, c.reqs, c.nP, c.nG, c.inputs, mutate=False)
        elif u < 0.52:
            c.reqs = rs.extend_requests(rng, c.vars, c.reqs, c.nP, c.nG, c.inputs, mutate=True)
            if any(r[0] == "set" or (r[0] == "del" and any(iv == r[1] for (iv, _, _) in c.inputs)) for r in c.reqs):
                tags += ("mutating",)
        if kind == "spiral" and "mutating" not in tags and any(r[0] == "del" for r in c.reqs):
            # with self-dependent variables a value computed bottom-up (each step served from the store) cannot always be
            # recomputed top-down once intermediate values are deleted: the spiral heuristic cuts the longer chain.  The
            # clause "given the other readable values" then compares two different situations: correspondence only.
            tags += ("mutating",)
        out.append(_case(c, tags))
        # a permutation of the same requests on the same system
        if len(c.reqs) > 1 and rng.random() < 0.5:
            c2 = rs.derive(c, reqs=rng.sample(c.reqs, len(c.reqs)))
            out.append(_case(c2, tags + ("permuted",)))
    return out


def corpus():
    M = rs.MONTHS
    out = []
    # F-C02a (fixed): V = X + 100 Z + 7, X = V@last_month + 1, Z = 2 X
    V = rs.Var(vtype="float", unit="month", dflt=0, formulas=[(1, ("o2", 0, ("o2", 0, ("v", 1, "same", False), ("o1", 250, ("v", 2, "same", False))), ("c", 7)))])
    X = rs.Var(vtype="float", unit="month", dflt=0, formulas=[(1, ("o2", 0, ("v", 0, "last_month", False), ("c", 1)))])
    Z = rs.Var(vtype="float", unit="month", dflt=0, formulas=[(1, ("o1", 152, ("v", 1, "same", False)))])
    out.append(_case(rs.SysCase(1, 1, [0], 1, [V, X, Z], [], [("calc", 0, M[3])]), ("kind=spiral", "corpus", "F-C02a")))
    # F-C02b (open): v0 = 6 + 3 v0@last_month, v1 = 7 + 3 v0, input v0@2018-01 = 8
    v0 = rs.Var(vtype="float", unit="month", dflt=0, formulas=[(1, ("o2", 0, ("c", 6), ("o1", 153, ("v", 0, "last_month", False))))])
    v1 = rs.Var(vtype="float", unit="month", dflt=0, formulas=[(1, ("o2", 0, ("c", 7), ("o1", 153, ("v", 0, "same", False))))])
    out.append(_case(rs.SysCase(1, 1, [0], 1, [v0, v1], [(0, M[1], [8])], [("calc", 1, M[4]), ("calc", 0, M[2]), ("calc", 0, M[3])]), ("kind=spiral", "corpus", "F-C02b")))
    # F-C02c (repaired): an eternal variable marked under one period and read back under another
    X = rs.Var(vtype="float", unit="month", dflt=0, formulas=[(1, ("o2", 0, ("o2", 0, ("c", 1), ("v", 1, "same", False)), ("v", 2, "same", False)))])
    E = rs.Var(vtype="float", unit="eternity", dflt=0, formulas=[(1, ("o2", 0, ("c", 5), ("v", 0, "fx:" + M[2], False)))])
    W = rs.Var(vtype="float", unit="month", dflt=0, formulas=[(1, ("o2", 0, ("c", 100), ("v", 1, "this_year", False)))])
    out.append(_case(rs.SysCase(1, 1, [0], 1, [X, E, W], [], [("calc", 0, M[3])]), ("kind=spiral", "corpus", "F-C02c")))
    # the other entry points between the requests, inputs fixed: a deleted value is computed again, get_array never computes
    import datetime as dt
    y0 = rs.Var(vtype="float", unit="year", dflt=4)
    m1 = rs.Var(vtype="int", unit="month", dflt=0, formulas=[(1, ("o2", 0, ("o1", rs.OP_DIVIDE, ("v", 0, "same", False)), ("o1", rs.OP_PARAM, ("v", 0, "same", False))))])
    m2 = rs.Var(vtype="float", unit="month", dflt=0, formulas=[(1, ("o2", 0, ("v", 1, "same", False), ("v", 1, "last_month", False)))])
    reqs = [("calc", 2, M[3]), ("get", 1, M[2]), ("del", 1, "year/2018,1,1/1"), ("get", 1, M[2]), ("div", 0, M[3]), ("calc", 2, M[3]), ("del", 2, "*"),
            ("calc", 1, M[2]), ("out", 1, M[3]), ("calc", 2, M[3]), ("get", 2, M[3])]
    c = rs.SysCase(2, 1, [0, 0], 1, [y0, m1, m2], [(0, "year/2018,1,1/1", [25, -25])], reqs,
                   params=[[(dt.date(2017, 1, 1).toordinal(), 3), (dt.date(2018, 2, 1).toordinal(), 5)]], outputs=[2, 1, 0])
    out.append(_case(c, ("kind=ranked", "corpus", "entry-points")))
    out.append(_case(rs.derive(c, reqs=list(reversed(reqs))), ("kind=ranked", "corpus", "entry-points", "permuted")))
    return out


PROP = Prop(
    pid="C02",
    lean_targets=["OFCore.Props.C02"],
    driver="ofdrv_sim",
    known_diffs_binding=True,      # the model mirrors the code inside F-C02b: the correspondence stays binding there
    generate=generate, impl=impl, oracle=oracle, nontrivial=nontrivial, corpus=corpus, canon_equal=canon_equal,
    rule=("rule systems of the C01 generator (40%) and a spiral stream (60%): 2-5 monthly variables that read themselves or each other at "
          "last_month / offset -2, with consumers requested after the spiral; max_spiral_loops in {1,2,3}; 2-6 top-level requests and a random "
          "permutation of them as a second case; compared with the model: every returned value or error class and, at the end, the complete set "
          "of known (variable, period) values; oracle: (i) for systems without self-dependent variable each request equals a fresh simulation's "
          "answer, (ii) every retained value is recomputed by a fresh real simulation fed the inputs and the other retained values. "
          "A third of the ranked systems use the extended language (DIVIDE reads, dated parameters); max_spiral_loops also 0 (every formula is cut); 40% of the "
          "sequences mix in the other entry points with the inputs fixed -- calculate_divide, calculate_output, requests for unknown variables, refused "
          "calculate_add, get_array (Period / text / int), delete_arrays of computed values (one period, all periods of a year, all) -- and stay under the "
          "full oracle; 12% also set_input and delete_arrays of inputs between the requests (tag `mutating`: the statement does not apply, the "
          "correspondence with the model still binds every answer and the final store). "
          "Non-trivial = some value returned and some value retained; distinct = distinct protocol lines."),
    assumptions=[
        "formulas are those of the expression DSL; values are small integers exactly representable in float32",
        "the ghost provenance bit of the model is used only to classify an oracle failure as the open finding F-C02b (tainted) or a violation (untainted)",
    ],
    partial_theorems=["C02_fresh_agrees_partial"],      # C02_taint_origin (which frames keep a tainted value) is still not proved
)
