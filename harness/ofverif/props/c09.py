"""C09 — tax-scale transformations preserve the amounts they are meant to preserve."""
from __future__ import annotations

import random
from fractions import Fraction as F

from ..core import Case, Prop
from ..scautil import (KINDS, TOL, approx_equal, arr, brackets_of, exact, fmt_scale, fmt_vals, fr, mk, opt_str, parse_rd,
                       parse_scale, parse_vals, show_brackets, show_meta, snap, snapshot, spec_build, spec_mr)
import zlib

from ..scautil import spec_la, spec_ma, spec_sa
from .c08 import rand_ins

Q = F(1, 4)
# ops that go through a true float division: compared with tolerance 2^-20
APPROX_OPS = {"inverse", "toavg", "avgrt", "tomarg", "copyk", "hist"}

SIG_A = "combine:operand-starts-below-receiver"      # F-C09a
SIG_B = "avg-roundtrip:first-threshold-positive"     # F-C09b
SIG_C = "avg-roundtrip:single-bracket-raises"        # F-C09c


# ----------------------------------------------------------------------------------------
# implementation adapter


def _calc(s, bases):
    return fmt_vals(snap(v) for v in s.calc(arr(bases)))


def _calc_raw(s, xs):
    return fmt_vals(exact(v) for v in s.calc(xs))


def _mk_avg(text: str):
    """hand-built LinearAverageRateTaxScale; `inf:r` is the bracket at float('Inf')"""
    from openfisca_core import taxscales
    s = taxscales.LinearAverageRateTaxScale()
    if text != "-":
        for b in text.split(","):
            t, r = b.split(":")
            s.add_bracket(float("inf") if t == "inf" else float(F(t)), float(F(r)))
    return s


def _shares(result, operand, before) -> bool:
    """change the result in every way the API offers: the operand must not move (no shared lists)"""
    try:
        result.add_bracket(12345.0, 0.5)
        if hasattr(result, "multiply_rates"):
            result.multiply_rates(2.0)
            result.multiply_thresholds(3.0)
        vals = result.rates if hasattr(result, "rates") else result.amounts
        if result.thresholds:
            result.thresholds[0] = -1.0
            vals[0] = 9.0
    except Exception:
        pass
    if before is None:
        return False
    return snapshot(operand) != before or result is operand


def _real_node(kids):
    """a genuine ParameterNodeAtInstant whose children are the scales (and plain parameters for `x`)"""
    from openfisca_core.parameters import ParameterNode
    data = {}
    for i, t in enumerate(kids):
        if t == "x":
            data[f"child{i}"] = {"values": {"2000-01-01": {"value": 3.5}}}
        else:
            data[f"child{i}"] = {"brackets": [{"threshold": {"2000-01-01": {"value": float(a)}}, "rate": {"2000-01-01": {"value": float(b)}}}
                                              for a, b in spec_build(parse_scale(t))]}
    return ParameterNode("node", data=data)("2020-06-01")


def _meta(opn, init, arg, alt, h):
    """descriptive attributes (name, option, unit) of the result of each operation; `init` are the constructor
    arguments, `arg` the new_name (mul0 / mul1) or the name of the first child (cts / ctsacc)"""
    from openfisca_core import taxscales
    kind = ["mr", "la", "ma", "sa"][h % 4] if opn in ("init", "copy") else "la" if opn == "tomarg" else "mr"
    cls = getattr(taxscales, KINDS[kind])
    name, option, unit = init
    if alt:
        s = cls(name, option, unit)
    else:
        kw = {k: v for k, v in (("name", name), ("option", option), ("unit", unit)) if v is not None or h % 3 == 0}
        s = cls(**kw)
    for t, r in ((0.0, 0.25), (100.0, 0.5)):
        s.add_bracket(t, r)
    before = show_meta(s)
    flags = ""
    if opn == "init":
        res = s
    elif opn == "copy":
        res = s.copy()
    elif opn == "sts":
        res = s.scale_tax_scales(2.0)
    elif opn == "inv":
        res = s.inverse()
    elif opn == "toavg":
        res = s.to_average()
    elif opn == "tomarg":
        res = s.to_marginal()
    elif opn == "avgrt":
        res = s.to_average().to_marginal()
    elif opn in ("mul0", "mul1"):
        inplace = opn == "mul0"
        if h % 2:
            res = (s.multiply_rates(2.0, inplace, arg) if alt else s.multiply_rates(2.0, inplace=inplace, new_name=arg) if arg is not None or h % 3
                   else s.multiply_rates(2.0, inplace=inplace))
        else:
            res = (s.multiply_thresholds(2.0, None, inplace, arg) if alt else s.multiply_thresholds(2.0, inplace=inplace, new_name=arg)
                   if arg is not None or h % 3 else s.multiply_thresholds(2.0, inplace=inplace))
        if inplace and res is not s:
            flags += " !INPLACE"
    elif opn in ("cts", "ctsacc"):
        other = taxscales.MarginalRateTaxScale("other-child", "o", "u")
        other.add_bracket(0.0, 0.125)
        node = {} if arg is None else {arg: other, "zz-second": mk("mr", [(F(50), F(1, 8))])}
        if alt and arg is None:
            node = None
        res = taxscales.combine_tax_scales(node, s) if opn == "ctsacc" else taxscales.combine_tax_scales(node)
        if res is None:
            return "none"
        if opn == "ctsacc" and res is not s:
            flags += " !INPLACE"
    else:
        raise ValueError("unknown meta op " + opn)
    if res is not s and show_meta(s) != before:
        flags += " !MUT"
    return show_meta(res) + flags


def impl(case: Case) -> str:
    f = case.line.split()
    op = f[1]
    flags = ""
    alt = zlib.crc32(case.line.encode()) % 2 == 0        # second spelling / container kind on half of the lines
    try:
        if op == "seq":
            texts = f[2].split(";")
            recv = mk("mr", parse_scale(texts[0]))
            cache = {}                      # the same operand text is the same object, used again
            others = [recv if t == "@" else cache.setdefault(t, mk("mr", parse_scale(t))) for t in texts[1:]]
            bases = parse_vals(f[3])
            for o in others:
                before = None if o is recv else snapshot(o)
                recv.add_tax_scale(o)
                if before is not None and snapshot(o) != before:
                    flags = " !MUT"
            out = show_brackets(brackets_of(recv)) + "|" + _calc(recv, bases)
            ops = [(o, snapshot(o)) for o in others if o is not recv]
            _shares(recv, recv, None)                  # change the receiver in every way ...
            if any(snapshot(o) != b for o, b in ops):  # ... no operand may move
                flags += " !SHARE"
            return out + flags
        if op == "cts":
            from openfisca_core import taxscales
            init = None if f[2] == "none" else mk("mr", parse_scale(f[2]))
            kids = [] if f[3] == "." else f[3].split(";")
            bases = parse_vals(f[4])
            if alt and "-" not in kids:
                node = _real_node(kids)
                objs = [node[k] for k in node if not isinstance(node[k], float)]
            else:
                # a child that is not a marginal-rate scale: a plain value, or a scale of another kind
                other = [3.5, mk("la", [(F(0), F(0)), (F(40), F(1, 4))]), mk("ma", [(F(0), F(3)), (F(20), F(5))])]
                node = {f"child{i}": (other[i % 3] if t == "x" else mk("mr", parse_scale(t))) for i, t in enumerate(kids)}
                objs = [c for c in node.values() if not isinstance(c, float)]
            before = [snapshot(c) for c in objs]
            res = taxscales.combine_tax_scales(node, init) if init is not None or alt else taxscales.combine_tax_scales(node)
            if [snapshot(c) for c in objs] != before:
                flags += " !MUT"
            if res is None:
                return "none" + flags
            out = show_brackets(brackets_of(res)) + "|" + _calc(res, bases)
            _shares(res, res, None)
            if [snapshot(c) for c in objs] != before:
                flags += " !SHARE"
            return out + flags
        if op == "cb":
            ins, rate, lo, hi, bases = parse_scale(f[2]), float(F(f[3])), f[4], f[5], parse_vals(f[6])
            s = mk("mr", ins)
            lo_v = None if lo == "~" else float(F(lo))
            hi_v = None if hi == "~" else float(F(hi))
            if alt and lo_v is not None and lo_v == int(lo_v):
                lo_v = int(lo_v)                                  # the signature says int
            if lo_v is None and hi_v is None:
                s.combine_bracket(rate)
            elif hi_v is None:
                s.combine_bracket(rate, lo_v) if alt else s.combine_bracket(rate, threshold_low=lo_v)
            elif lo_v is None:
                s.combine_bracket(rate, threshold_high=hi_v)
            else:
                s.combine_bracket(rate, lo_v, hi_v) if alt else s.combine_bracket(rate, threshold_low=lo_v, threshold_high=hi_v)
            return show_brackets(brackets_of(s)) + "|" + _calc(s, bases)
        if op == "meta":
            return _meta(f[2], [opt_str(t) for t in f[3:6]], opt_str(f[6]), alt, zlib.crc32(case.line.encode()) // 2)
        if op == "inverse":
            s = mk("mr", parse_scale(f[2]))
            xs = arr(parse_vals(f[3]))
            before = snapshot(s)
            inv = s.inverse()
            if snapshot(s) != before or inv is s:
                flags += " !MUT"
            nets = xs - s.calc(xs)
            out = show_brackets(brackets_of(inv)) + "|" + _calc_raw(inv, nets)
            if _shares(inv, s, before):
                flags += " !SHARE"
            return out + flags
        if op == "hist":
            bases = parse_vals(f[3])
            regs = [mk("mr", []) for _ in range(4)]
            toks = []
            for st in f[2].split(";"):
                g = st.split("_")
                name = g[0]
                if name == "calc":
                    toks.append(_calc_raw(regs[int(g[1])], arr(bases)))
                    continue
                d = int(g[1])
                others = [(i, r, snapshot(r)) for i, r in enumerate(regs) if i != d]
                try:
                    if name == "new":
                        regs[d] = mk("mr", parse_scale(g[2]))
                    elif name == "addb":
                        regs[d].add_bracket(float(F(g[2])), float(F(g[3])))
                    elif name == "addts":
                        regs[d].add_tax_scale(regs[int(g[2])])
                    elif name == "cb":
                        kw = {}
                        if g[3] != "~":
                            kw["threshold_low"] = float(F(g[3]))
                        if g[4] != "~":
                            kw["threshold_high"] = float(F(g[4]))
                        regs[d].combine_bracket(float(F(g[2])), **kw)
                    elif name == "multi":
                        regs[d].multiply_thresholds(float(F(g[2])))
                    elif name == "mulri":
                        regs[d].multiply_rates(float(F(g[2])), inplace=True)
                    elif name == "mult":
                        regs[d] = regs[int(g[2])].multiply_thresholds(float(F(g[3])), inplace=False)
                    elif name == "mulr":
                        regs[d] = regs[int(g[2])].multiply_rates(float(F(g[3])), inplace=False)
                    elif name == "sts":
                        regs[d] = regs[int(g[2])].scale_tax_scales(float(F(g[3])))
                    elif name == "inv":
                        regs[d] = regs[int(g[2])].inverse()
                    elif name == "avgrt":
                        regs[d] = regs[int(g[2])].to_average().to_marginal()
                    elif name == "copy":
                        regs[d] = regs[int(g[2])].copy()
                    else:
                        raise ValueError("unknown step " + st)
                    toks.append(show_brackets(brackets_of(regs[d])) + "|" + _calc_raw(regs[d], arr(bases)))
                except ValueError:
                    raise
                except Exception:
                    toks.append("ERR")
                # no step may touch another object (two registers may hold the same object only
                # through this adapter, which never does that: every assignment is a fresh result)
                if any(snapshot(r) != b for i, r, b in others if r is not regs[d]):
                    flags = " !MUT"
                if len({id(r) for r in regs}) != len(regs):
                    flags = " !MUT"
            toks.append("#" + "&".join(show_brackets(brackets_of(r)) for r in regs))
            return ";".join(toks) + flags
        if op == "copyk":
            kind, ins, bases = f[2], parse_scale(f[3]), parse_vals(f[4])
            s = mk(kind, ins)
            before = snapshot(s)
            c = s.copy()
            vals = c.calc(arr(bases))
            out = show_brackets(brackets_of(c)) + "|" + fmt_vals(exact(v) for v in vals)
            if type(c) is not type(s) or _shares(c, s, before):
                flags += " !SHARE"
            return out + flags
        if op in ("mult", "mulr", "sts"):
            k = F(f[2])
            if op == "mult":
                dec, ins, bases = parse_rd(f[3]), parse_scale(f[4]), parse_vals(f[5])
            else:
                dec, ins, bases = None, parse_scale(f[3]), parse_vals(f[4])
            s = mk("mr", ins)
            before = snapshot(s)
            kf = int(k) if k.denominator == 1 and alt else float(k)          # integer factors as int
            if op == "mult":
                res = (s.multiply_thresholds(kf, dec, False, "renamed") if alt else
                       s.multiply_thresholds(kf, decimals=dec, inplace=False))
                t = mk("mr", ins)
                r2 = t.multiply_thresholds(kf, decimals=dec, inplace=True) if alt else t.multiply_thresholds(kf, decimals=dec)
            elif op == "mulr":
                res = s.multiply_rates(kf, False, "renamed") if alt else s.multiply_rates(kf, inplace=False)
                t = mk("mr", ins)
                r2 = t.multiply_rates(kf, inplace=True) if alt else t.multiply_rates(kf)
            else:
                res = s.scale_tax_scales(kf)
                t = r2 = res
            if snapshot(s) != before or res is s:
                flags += " !MUT"
            if r2 is not t or brackets_of(r2) != brackets_of(res):
                flags += " !INPLACE"
            pts = bases if op == "mulr" else [k * b for b in bases]
            out = show_brackets(brackets_of(res)) + "|" + _calc(res, pts)
            if _shares(res, s, before):
                flags += " !SHARE"
            return out + flags
        if op == "toavg":
            s = mk("mr", parse_scale(f[2]))
            before = snapshot(s)
            av = s.to_average()
            if snapshot(s) != before:
                flags += " !MUT"
            out = show_brackets(brackets_of(av))
            if _shares(av, s, before):
                flags += " !SHARE"
            return out + flags
        if op == "avgrt":
            s = mk("mr", parse_scale(f[2]))
            bases = parse_vals(f[3])
            before = snapshot(s)
            av = s.to_average()
            snap_av = snapshot(av)
            rt = av.to_marginal()
            if snapshot(s) != before or snapshot(av) != snap_av:
                flags += " !MUT"
            out = show_brackets(brackets_of(rt)) + "|" + _calc_raw(rt, arr(bases))
            if _shares(rt, av, snap_av) or snapshot(s) != before:
                flags += " !SHARE"
            return out + flags
        if op == "tomarg":
            av = _mk_avg(f[2])
            before = snapshot(av)
            m = av.to_marginal()
            if snapshot(av) != before:
                flags += " !MUT"
            return show_brackets(brackets_of(m)) + flags
        if op == "copy":
            s = mk("mr", parse_scale(f[2]))
            bases = parse_vals(f[3])
            before = snapshot(s)
            c = s.copy()
            out = show_brackets(brackets_of(c)) + "|" + _calc(c, bases)
            if type(c) is not type(s) or (c.name, c.option, c.unit) != (s.name, s.option, s.unit) or _shares(c, s, before):
                flags += " !SHARE"
            return out + flags
    except Exception:
        return "ERR"
    raise ValueError("unknown op " + op)


def canon_equal(case: Case, a: str, b: str) -> bool:
    if a == b:
        return True
    f = case.line.split()
    if f[1] in APPROX_OPS:
        return approx_equal(a, b)
    if f[1] == "mult" and f[3] not in ("-", "0"):
        # thresholds rounded to 1 or 2 decimals: n / 10^d is not a binary fraction, the float is the
        # nearest one (which n is compared exactly enough: the tolerance is 2^-20, a step is >= 10^-2)
        return approx_equal(a, b)
    return False


# ----------------------------------------------------------------------------------------
# oracle: the preservation laws, evaluated with Fraction on the textbook definition


def _split(out: str):
    parts = out.split(" !")
    return parts[0], parts[1:]


def _vals(body: str):
    return parse_vals(body.split("|")[1])


def _below_receiver(start, operands):
    """does some operand start below every threshold of the receiver built so far (or meet an
    empty receiver)? -- the situation of finding F-C09a"""
    have = {t for t, _ in start}
    for o in operands:
        if o and (not have or min(t for t, _ in o) < min(have)):
            return True
        have |= {t for t, _ in o}
    return False


def _combine_oracle(case, body, start, operands, bases):
    """calc(receiver after all add_tax_scale) = sum of the calcs"""
    parts = [start] + operands
    if any(t < 0 for p in parts for t, _ in p):
        return None
    sig_fail = SIG_A if _below_receiver(start, operands) else "combine:sum"
    if body == "ERR":
        return (SIG_A if _below_receiver(start, operands) else "combine:raises",
                "add_tax_scale raised on " + case.line[:200])
    vals = _vals(body)
    for b, v in zip(bases, vals):
        want = sum((spec_mr(p, b) for p in parts), F(0))
        if v != want:
            return (sig_fail, f"{' + '.join(fmt_scale(p) for p in parts)}: combined scale taxes base {b} at {v}, the sum of the taxes is {want}")
    return None


def _rate_at(brs, y):
    r = F(0)
    for t, q in brs:
        if t <= y:
            r = q
    return r


def _hist_oracle(case, body, steps, bases):
    """every step of a history against the preservation laws, on the *meaning* of each object: a
    scale means its rate function (rate of the last threshold <= y, 0 below the first); combining
    adds rate functions, scalings scale them, copy / average round trip keep them.  `None` = the
    meaning is not tracked any more (after inverse, or outside thresholds >= 0)."""
    toks = body.split(";")
    if len(toks) != len(steps) + 1:
        return ("history:shape", "wrong number of answers for " + case.line[:200])
    regs = [[], [], [], []]
    for st, tok in zip(steps, toks):
        g = st.split("_")
        name = g[0]
        if name == "calc":
            src, d = regs[int(g[1])], None
            want = src
        else:
            d = int(g[1])
            if name == "new":
                want = spec_build(parse_scale(g[2]))
            elif name == "addb":
                cur = regs[d]
                want = None if cur is None else sorted({**dict(cur), F(g[2]): dict(cur).get(F(g[2]), F(0)) + F(g[3])}.items())
            elif name == "addts":
                a, b = regs[d], regs[int(g[2])]
                if a is None or b is None or any(t < 0 for t, _ in a + b):
                    want = None
                else:
                    ths = sorted({t for t, _ in a + b})
                    want = [(t, _rate_at(a, t) + _rate_at(b, t)) for t in ths]
            elif name == "cb":
                cur, rate = regs[d], F(g[2])
                lo = F(0) if g[3] == "~" else F(g[3])
                hi = None if g[4] == "~" else F(g[4])
                if cur is None or any(t < 0 for t, _ in cur) or lo < 0 or (hi is not None and hi <= lo):
                    want = None
                else:
                    ths = sorted({t for t, _ in cur} | {lo} | ({hi} if hi is not None else set()))
                    want = [(t, _rate_at(cur, t) + (rate if lo <= t and (hi is None or t < hi) else 0)) for t in ths]
            elif name in ("multi", "mulri"):
                cur, k = regs[d], F(g[2])
                want = None if cur is None or k <= 0 else [((t * k, r) if name == "multi" else (t, r * k)) for t, r in cur]
            elif name in ("mult", "sts", "mulr"):
                cur, k = regs[int(g[2])], F(g[3])
                want = None if cur is None or k <= 0 else [((t, r * k) if name == "mulr" else (t * k, r)) for t, r in cur]
            elif name == "copy":
                want = regs[int(g[2])]
            elif name == "avgrt":
                cur = regs[int(g[2])]
                want = cur if cur and cur[0][0] >= 0 else None
            else:                       # inverse: the law is checked by the `inverse` lines
                want = None
        if tok == "ERR":
            if want is not None and name not in ("inv",):
                return (f"history:{name}", f"step {st} raised in {case.line[:200]}")
            if d is not None and name in ("inv", "avgrt"):
                pass                    # the register keeps its object
            continue
        vals = parse_vals(tok.split("|")[1] if "|" in tok else tok)
        if want is not None:
            for b, v in zip(bases, vals):
                w = spec_mr(want, b)
                if abs(v - w) > TOL:
                    return (f"history:{name}", f"after step {st} of {case.line.split()[2][:160]} base {b} is taxed {float(v)}, "
                                               f"the operations so far mean {float(w)}")
        if d is not None:
            regs[d] = want
    return None


def oracle(case: Case, out: str):
    if not case.claimed or SILENT in case.tags:
        return None
    f = case.line.split()
    op = f[1]
    body, flags = _split(out)
    if "MUT" in flags:
        return ("mutates-operand", f"{op} altered the scale it was applied to / given: " + case.line[:200])
    if "SHARE" in flags:
        return ("copy-shares-state", "changing the result (copy / new scale) changed the scale it came from: " + case.line[:200])
    if "INPLACE" in flags:
        return ("inplace-differs", "in-place and new-scale variants give different brackets: " + case.line[:200])
    if op == "seq":
        texts = f[2].split(";")
        comps = [spec_build(parse_scale(texts[0]))]       # the scales whose taxes must add up
        for t in texts[1:]:
            comps += list(comps) if t == "@" else [spec_build(parse_scale(t))]     # `@`: the receiver added to itself
        return _combine_oracle(case, body, comps[0], comps[1:], parse_vals(f[3]))
    if op == "cts":
        init = None if f[2] == "none" else spec_build(parse_scale(f[2]))
        kids = [] if f[3] == "." else f[3].split(";")
        if not kids:
            want = "none" if init is None else None
            if want == "none" and body != "none":
                return ("combine:empty-node", f"empty node, no accumulator: expected None, got {body[:80]}")
            if init is not None and body != "ERR":
                for b, v in zip(parse_vals(f[4]), _vals(body)):
                    if v != spec_mr(init, b):
                        return ("combine:sum", "empty node changed the accumulator")
            return None
        if body == "none":
            return ("combine:raises", "non-empty node returned None")
        start = init if init is not None else [(F(0), F(0))]
        ops = [spec_build(parse_scale(t)) for t in kids if t != "x"]
        return _combine_oracle(case, body, start, ops, parse_vals(f[4]))
    if op == "cb":
        # combine_bracket(rate, lo, hi) adds `rate` on [lo, hi) ([lo, inf) without hi): the mechanism add_tax_scale is made of
        brs, rate, bases = spec_build(parse_scale(f[2])), F(f[3]), parse_vals(f[6])
        lo = F(0) if f[4] == "~" else F(f[4])
        hi = None if f[5] == "~" else F(f[5])
        if any(t < 0 for t, _ in brs) or lo < 0 or (hi is not None and hi <= lo):
            return None
        if body == "ERR":
            return ("combine:raises", "combine_bracket raised on " + case.line[:200])
        piece = [(lo, rate)] + ([(hi, F(0))] if hi is not None else [])
        for b, v in zip(bases, _vals(body)):
            want = spec_mr(brs, b) + spec_mr(piece, b)
            if v != want:
                return ("combine:bracket", f"{fmt_scale(brs)} combine_bracket({rate}, {lo}, {hi}): base {b} is taxed {v}, scale + rate on the bracket = {want}")
        return None
    if op == "inverse":
        brs = spec_build(parse_scale(f[2]))
        if not brs or brs[0][0] != 0 or any(r >= 1 for _, r in brs):
            return None
        if body == "ERR":
            return ("inverse:raises", "inverse raised on " + f[2])
        for x, v in zip(parse_vals(f[3]), _vals(body)):
            if x >= 0 and abs(v - x) > TOL:
                return ("inverse", f"scale {fmt_scale(brs)}: net of gross {x} is mapped back to {float(v)}")
        return None
    if op in ("mult", "sts", "mulr"):
        k = F(f[2])
        if op == "mult":
            dec, ins, bases = parse_rd(f[3]), parse_scale(f[4]), parse_vals(f[5])
        else:
            dec, ins, bases = None, parse_scale(f[3]), parse_vals(f[4])
        brs = spec_build(ins)
        if dec is not None or k < 0 or (k == 0 and op != "mulr"):
            return None
        if body == "ERR":
            return (f"{op}:raises", f"{op} raised on " + case.line[:200])
        for b, v in zip(bases, _vals(body)):
            want = k * spec_mr(brs, b)
            if v != want:
                what = "scaled base" if op != "mulr" else "base"
                return (op, f"scale {fmt_scale(brs)} factor {k}: tax on the {what} of {b} is {v}, factor x tax = {want}")
        return None
    if op in ("avgrt", "toavg"):
        brs = spec_build(parse_scale(f[2]))
        if not brs or brs[0][0] < 0:
            return None
        if body == "ERR":
            return (SIG_C if len(brs) == 1 else "avg-roundtrip:raises", f"to_average / to_marginal raised on {fmt_scale(brs)}")
        if op == "toavg":
            return None
        for b, v in zip(parse_vals(f[3]), _vals(body)):
            want = spec_mr(brs, b)
            if abs(v - want) > TOL:
                return (SIG_B if brs[0][0] > 0 else "avg-roundtrip",
                        f"scale {fmt_scale(brs)}: after to_average().to_marginal() base {b} is taxed {float(v)} instead of {float(want)}")
        return None
    if op == "hist":
        return _hist_oracle(case, body, f[2].split(";"), parse_vals(f[3]))
    if op == "copyk":
        kind, brs, bases = f[2], spec_build(parse_scale(f[3])), parse_vals(f[4])
        if body == "ERR":
            return ("copy:raises", "copy raised") if brs or kind != "la" else None
        if body.split("|")[0] != fmt_scale(brs):
            return ("copy", f"copy of the {kind} scale {fmt_scale(brs)} has brackets {body.split('|')[0]}")
        for b, v in zip(bases, _vals(body)):
            want = spec_ma(brs, b) if kind == "ma" else spec_sa(brs, b, False) if kind == "sa" else spec_la(brs, b)
            if want is not None and abs(v - want) > TOL:
                return ("copy", f"copy of the {kind} scale {fmt_scale(brs)} gives {float(v)} at base {b}, the scale's definition gives {float(want)}")
        return None
    if op == "copy":
        brs = spec_build(parse_scale(f[2]))
        if body == "ERR":
            return ("copy:raises", "copy raised")
        if body.split("|")[0] != fmt_scale(brs):
            return ("copy", f"copy of {fmt_scale(brs)} has brackets {body.split('|')[0]}")
        for b, v in zip(parse_vals(f[3]), _vals(body)):
            if v != spec_mr(brs, b):
                return ("copy", f"copy of {fmt_scale(brs)} taxes base {b} at {v}")
        return None
    return None


def nontrivial(case: Case, out: str) -> bool:
    if out.startswith("ERR") or out.startswith("none"):
        return False
    f = case.line.split()
    if f[1] in ("seq", "cts", "hist", "cb"):
        return True
    if f[1] == "meta":
        return False
    src = f[2] if f[1] in ("inverse", "toavg", "avgrt", "tomarg", "copy") else f[-2]
    if src == "@":
        return True
    return src.count(":") >= 2


# ----------------------------------------------------------------------------------------
# generators


SILENT = "oracle-silent"


def _mk(op, *fields, claimed=True, tags=(), binding=True):
    """`claimed=False`: outside the statement's claim domain (Appendix A) -- the ORACLE is silent there,
    but the line stays binding for the correspondence, because the model transcribes the code on
    that region too (a diff there is a behaviour change nobody has proved harmless).
    `binding=False` would be for regions that are genuinely unmodelled; no stream needs it."""
    return Case(line=" ".join(["sca", op, *map(str, fields)]), claimed=binding,
                tags=(op,) + tuple(tags) + (() if claimed else (SILENT,)))


def bases30(rng, scales, scale_by=F(1)):
    """30 bases: every threshold, +- 1/4, 0, below / above everything, random lattice points"""
    ths = sorted({t for s in scales for t, _ in s}) or [F(0)]
    bs = []
    for t in ths:
        bs += [t, t + Q, t - Q]
    bs += [F(0), F(-3), ths[-1] + 1000, ths[0] - Q, ths[-1] + Q]
    rng.shuffle(bs)
    seen, out = set(), []
    for b in bs:
        if b not in seen:
            seen.add(b)
            out.append(b)
    out = out[:24]
    while len(out) < 30:
        b = F(rng.randint(-40, 4400), 4) if rng.random() < 0.7 else F(rng.randint(0, 2 * max(0, int(ths[-1])) + 8), 4)
        if b not in seen:
            seen.add(b)
            out.append(b)
    return sorted(out)


def nonneg_scale(rng, nmax=6, start0=None, maxrate=None):
    ins = rand_ins(rng, nmax=nmax, nonneg=True)
    ins = [(abs(t), r) for t, r in ins]
    if start0 is True and all(t != 0 for t, _ in ins):
        ins[rng.randrange(len(ins))] = (F(0), ins[0][1])
    if start0 is False:
        ins = [(t if t != 0 else F(rng.randint(1, 60)), r) for t, r in ins]
    if maxrate is not None:
        # the *summed* rate of each threshold must stay below 1
        seen = set()
        out = []
        for t, r in ins:
            if t in seen:
                continue
            seen.add(t)
            out.append((t, min(r, F(maxrate, 16))))
        ins = out
    return ins


def combine_cases(rng):
    out = []
    kind = rng.choice(["generic", "generic", "below", "below", "empty-recv", "shared", "empty-op", "seq", "seq", "same-first",
                       "reuse", "self"])
    a = nonneg_scale(rng)
    b = nonneg_scale(rng)
    if kind == "below":
        if min(t for t, _ in a) == 0:
            shift = rng.randint(1, 80)
            a = [(t + shift, r) for t, r in a]
        lo = min(t for t, _ in a)
        b = b + [(F(rng.randint(0, int(lo) - 1)), F(rng.randint(1, 16), 16))]
        parts = [a, b]
    elif kind == "empty-recv":
        parts = [[], b]
    elif kind == "empty-op":
        parts = [a, []] if rng.random() < 0.5 else [a, [], b]
    elif kind == "shared":
        ths = [t for t, _ in a]
        b = [(rng.choice(ths), F(rng.randint(-4, 16), 16)) for _ in range(rng.randint(1, len(ths)))]
        if rng.random() < 0.5:
            b.append((F(rng.randint(0, 1024)), F(rng.randint(0, 16), 16)))
        parts = [a, b]
    elif kind == "same-first":
        t0 = min(t for t, _ in a)
        b = [(t + t0 - min(x for x, _ in b), r) for t, r in b]
        parts = [a, b]
    elif kind == "seq":
        parts = [a, b] + [nonneg_scale(rng, nmax=4) for _ in range(rng.randint(1, 3))]
        if rng.random() < 0.3:
            parts[0] = []
    elif kind == "reuse":
        parts = [a, b, b] if rng.random() < 0.6 else [a, b, nonneg_scale(rng, nmax=3), b]     # the same operand object twice
    else:
        parts = [a, b]
    texts = [fmt_scale(p) for p in parts]
    if kind == "self":
        texts = rng.choice([[texts[0], "@"], texts + ["@"], [texts[0], "@", texts[1]], [texts[0], "@", "@"]])
    bases = bases30(rng, [spec_build(p) for p in parts])
    out.append(_mk("seq", ";".join(texts), fmt_vals(bases), tags=(kind,)))
    return out


def cts_cases(rng):
    kids = []
    for _ in range(rng.randint(0, 4)):
        kids.append("x" if rng.random() < 0.2 else fmt_scale(nonneg_scale(rng, nmax=4)))
    init = "none" if rng.random() < 0.7 else fmt_scale(nonneg_scale(rng, nmax=3))
    scs = [spec_build(parse_scale(k)) for k in kids if k != "x"] + ([] if init == "none" else [spec_build(parse_scale(init))])
    bases = bases30(rng, scs)
    return [_mk("cts", init, ";".join(kids) if kids else ".", fmt_vals(bases), tags=(f"kids{len(kids)}",))]


def unary_cases(rng):
    out = []
    # inverse: first threshold 0, rates < 1 (claimed); others answered, not binding
    s = nonneg_scale(rng, start0=True, maxrate=15)
    brs = spec_build(s)
    out.append(_mk("inverse", fmt_scale(s), fmt_vals(bases30(rng, [brs])), tags=("start0",)))
    if rng.random() < 0.25:
        t = nonneg_scale(rng, start0=rng.random() < 0.5)
        tb = spec_build(t)
        ok = tb[0][0] == 0 and all(r < 1 for _, r in tb)
        out.append(_mk("inverse", fmt_scale(t), fmt_vals(bases30(rng, [tb])), claimed=ok, tags=("any",)))
    # scalings
    s = nonneg_scale(rng)
    brs = spec_build(s)
    bases = bases30(rng, [brs])
    k = F(rng.choice([1, 2, 3, 4, 5, 7, 8, 9, 12, 16, 20, 24, 40, 64]), 8)
    out.append(_mk("mult", fr(k), "-", fmt_scale(s), fmt_vals(bases), tags=("pos",)))
    kr = F(rng.choice([0, 1, 2, 3, 4, 5, 7, 8, 9, 12, 16, 20, 24]), 8)
    out.append(_mk("mulr", fr(kr), fmt_scale(s), fmt_vals(bases), tags=("nonneg",)))
    out.append(_mk("sts", fr(k), fmt_scale(s), fmt_vals(bases)))
    if rng.random() < 0.3:
        out.append(_mk("mult", fr(k), 0, fmt_scale(s), fmt_vals(bases), tags=("decimals0",)))
    if rng.random() < 0.5:
        # decimals 1 and 2 on scaled thresholds that are NOT on the 10^-d lattice (t*k = m/8: .125 -> .1 / .12,
        # 12.25 -> 12.2, exact binary ties rounded half to even as numpy.around does)
        kd = F(rng.choice([1, 3, 5, 7, 9, 11, 13, 15, 17, 21, 27, 2, 6, 10]), 8)
        dd = rng.choice([1, 2])
        out.append(_mk("mult", fr(kd), dd, fmt_scale(s), fmt_vals(bases), tags=(f"decimals{dd}",)))
    if rng.random() < 0.2:
        nk = -F(rng.choice([1, 4, 8, 12]), 8)
        out.append(_mk("mult", fr(nk), "-", fmt_scale(s), fmt_vals(bases), claimed=False, tags=("neg",)))
        out.append(_mk("mulr", fr(nk), fmt_scale(s), fmt_vals(bases), claimed=False, tags=("neg",)))
    if rng.random() < 0.05:
        out.append(_mk("mult", 0, "-", fmt_scale(s), fmt_vals(bases), claimed=False, tags=("zero",)))
    # average round trip: any first threshold >= 0, single brackets included
    s = nonneg_scale(rng, nmax=rng.choice([1, 2, 6, 6]), start0=rng.choice([True, False, None]))
    brs = spec_build(s)
    out.append(_mk("avgrt", fmt_scale(s), fmt_vals(bases30(rng, [brs])), tags=("t0=0" if brs[0][0] == 0 else "t0>0", f"n{min(len(brs), 3)}")))
    out.append(_mk("toavg", fmt_scale(s)))
    out.append(_mk("copy", fmt_scale(s), fmt_vals(bases30(rng, [brs]))))
    if rng.random() < 0.4:
        kind = rng.choice(["ma", "sa", "la"])
        out.append(_mk("copyk", kind, fmt_scale(s), fmt_vals(bases30(rng, [brs])), claimed=kind != "la" or len(brs) >= 2, tags=(kind,)))
    return out


def cb_cases(rng):
    """combine_bracket called directly, with and without its optional arguments: lower / upper threshold existing in the
    receiver, new, below the first, above the last; no upper threshold; an upper threshold 0 (falsy: treated as none),
    equal to or below the lower one (nothing is added); an empty receiver"""
    a = [] if rng.random() < 0.08 else nonneg_scale(rng, nmax=5)
    ths = sorted({t for t, _ in a}) or [F(0)]
    rate = F(rng.randint(-4, 16), 16)

    def pick():
        r = rng.random()
        if r < 0.35:
            return rng.choice(ths)
        if r < 0.5:
            return F(0)
        if r < 0.6:
            return ths[-1] + rng.randint(1, 300)
        return F(rng.randint(0, int(ths[-1]) + 40))
    lo = "~" if rng.random() < 0.25 else pick()
    lo_v = F(0) if lo == "~" else lo
    r = rng.random()
    if r < 0.35:
        hi = "~"
    elif r < 0.8:
        hi = lo_v + rng.choice([1, 2, 5, 50, rng.randint(1, 400)])
        if rng.random() < 0.4:
            up = [t for t in ths if t > lo_v]
            hi = rng.choice(up) if up else hi
    elif r < 0.88:
        hi = F(0)
    elif r < 0.94:
        hi = lo_v
    else:
        hi = F(rng.randint(0, max(0, int(lo_v))))
    silent = hi != "~" and hi <= lo_v
    bases = bases30(rng, [spec_build(a), [(lo_v, rate)] + ([(hi, rate)] if hi != "~" else [])])
    return [_mk("cb", fmt_scale(a), fr(rate), lo if lo == "~" else fr(lo), hi if hi == "~" else fr(hi), fmt_vals(bases),
                claimed=not silent, tags=("lo-default" if lo == "~" else "lo", "hi-none" if hi == "~" else "hi-falsy" if hi == 0 else
                                          "hi<=lo" if silent else "hi"))]


META_NAMES = ["~", "@e", "scale", "bareme", "impot-sur-le-revenu", "a'"]
META_OPTS = ["~", "~", "main-option", "@e", "contrib"]
META_UNITS = ["~", "currency", "/1", "@e"]


def meta_cases(rng):
    """descriptive attributes through every operation (outside the statement: the oracle is silent, the model answers)"""
    opn = rng.choice(["init", "copy", "sts", "inv", "toavg", "tomarg", "avgrt", "mul0", "mul1", "mul1", "mul1", "cts", "ctsacc"])
    arg = "~"
    if opn in ("mul0", "mul1"):
        arg = rng.choice(["~", "~", "renamed", "@e", "new-name"]) if opn == "mul1" else rng.choice(["~", "~", "~", "renamed"])
    elif opn in ("cts", "ctsacc"):
        arg = rng.choice(["~", "first-child", "bareme", "a"])
    return [_mk("meta", opn, rng.choice(META_NAMES), rng.choice(META_OPTS), rng.choice(META_UNITS), arg, claimed=False, tags=(opn,))]


def frac_scale(rng, nonneg, nmax=5):
    """thresholds on the quarter lattice (also strictly between -1 and 0, 0 and 1), rates in 2^-4 Z"""
    n = rng.randint(1, nmax)
    lo = 0 if nonneg else -12
    ths = rng.sample(range(lo, 40), min(n, 40 - lo)) if rng.random() < 0.6 else [rng.randint(lo, 400) for _ in range(n)]
    if rng.random() < 0.5 and not nonneg:
        ths[0] = rng.choice([-1, -2, -3])                     # -1/4, -1/2, -3/4: strictly between -1 and 0
    if rng.random() < 0.3:
        ths[-1] = 0
    return [(F(t, 4), F(rng.choice([0, 1, 2, 4, 8, rng.randint(-4, 15)]), 16)) for t in ths]


def frac_cases(rng):
    """fractional thresholds: the conversions and the combination on scales whose first threshold lies strictly
    between two integers (in particular between -1 and 0, and between 0 and 1)"""
    out = []
    nonneg = rng.random() < 0.5
    a = frac_scale(rng, nonneg)
    brs = spec_build(a)
    bases = bases30(rng, [brs])
    out.append(_mk("avgrt", fmt_scale(a), fmt_vals(bases), claimed=nonneg, tags=("frac",)))
    out.append(_mk("toavg", fmt_scale(a), claimed=nonneg, tags=("frac",)))
    b = frac_scale(rng, nonneg, nmax=3)
    out.append(_mk("seq", fmt_scale(a) + ";" + fmt_scale(b), fmt_vals(bases30(rng, [brs, spec_build(b)])), claimed=nonneg, tags=("frac",)))
    if rng.random() < 0.5:
        c = [(t, min(r, F(15, 16))) for t, r in spec_build(frac_scale(rng, True))]
        c[0] = (F(0), c[0][1])
        c = spec_build(c)
        out.append(_mk("inverse", fmt_scale(c), fmt_vals(bases30(rng, [c])), claimed=all(r < 1 for _, r in c), tags=("frac",)))
    return out


HIST_K = [F(1, 2), F(3, 2), F(2), F(3), F(1, 4), F(5, 4)]


def hist_cases(rng):
    """a history: 5..12 operations, in place and not, on four scale objects, every operation also
    repeated with the same arguments after a mutation of its source (a memo would answer stale).
    Exactness: thresholds >= 0, factors in HIST_K, a register produced by inverse / the average round
    trip (inexact rates) is afterwards only scaled, copied, converted or evaluated."""
    steps = []
    exact = [True] * 4
    used = [False] * 4
    nscal = [0] * 4                     # scalings so far: bounds the binary digits

    def new(d):
        steps.append(f"new_{d}_{fmt_scale(nonneg_scale(rng, nmax=5, start0=rng.choice([True, None])))}")
        exact[d], used[d], nscal[d] = True, True, 0

    new(0)
    if rng.random() < 0.7:
        new(1)

    def pick(cond=lambda i: True):
        c = [i for i in range(4) if used[i] and cond(i)]
        return rng.choice(c) if c else None

    def derive():
        """one out-of-place operation `r_d := op(r_s)`; returns the step text"""
        opn = rng.choice(["sts", "sts", "mult", "mulr", "copy", "avgrt", "inv"])
        s_ = pick((lambda i: exact[i]) if opn == "inv" else (lambda i: nscal[i] < 3 or opn in ("copy", "avgrt")))
        if s_ is None:
            return None
        d = rng.randrange(4)
        txt = f"{opn}_{d}_{s_}" + (f"_{fr(rng.choice(HIST_K))}" if opn in ("sts", "mult", "mulr") else "")
        return txt, d, s_, opn

    def apply(txt, d, s_, opn):
        steps.append(txt)
        used[d] = True
        exact[d] = exact[s_] and opn not in ("inv", "avgrt")
        nscal[d] = nscal[s_] + (opn in ("sts", "mult", "mulr"))

    def mutate(i):
        """one in-place operation on r_i"""
        opn = rng.choice(["mulri", "multi", "addb", "addts", "cb"] if exact[i] else ["mulri", "multi"])
        if opn in ("mulri", "multi") and nscal[i] >= 3:
            opn = "addb" if exact[i] else None
        if opn is None:
            return
        if opn == "addb":
            steps.append(f"addb_{i}_{rng.choice([0, 5, 50, 100, rng.randint(0, 1200)])}_{fr(F(rng.randint(0, 16), 16))}")
        elif opn == "addts":
            o = pick(lambda j: exact[j])
            steps.append(f"addts_{i}_{o}")
        elif opn == "cb":
            lo = rng.choice(["~", 0, 5, 50, 100, rng.randint(0, 1200)])
            lo_v = 0 if lo == "~" else lo
            hi = rng.choice(["~", "~", lo_v + 50, lo_v + rng.randint(1, 600)])
            steps.append(f"cb_{i}_{fr(F(rng.randint(-2, 8), 16))}_{lo}_{hi}")
        else:
            steps.append(f"{opn}_{i}_{fr(rng.choice(HIST_K))}")
            nscal[i] += 1

    for _ in range(rng.randint(2, 6)):
        r = rng.random()
        if r < 0.45:
            x = derive()
            if x:
                apply(*x)
        elif r < 0.85:
            i = pick()
            mutate(i)
        elif r < 0.93:
            steps.append(f"calc_{pick()}")
        else:
            new(rng.randrange(4))
    # the same operation with the same arguments, before and after a mutation of its source
    for _ in range(rng.randint(1, 2)):
        x = derive()
        if not x:
            continue
        txt, d, s_, opn = x
        if d == s_:
            d = (s_ + 1) % 4
            txt = txt.replace(f"{opn}_{s_}_{s_}", f"{opn}_{d}_{s_}", 1)
        apply(txt, d, s_, opn)
        mutate(s_)
        if rng.random() < 0.3:
            mutate(s_)
        d2 = rng.choice([i for i in range(4) if i != s_])
        parts = txt.split("_")
        parts[1] = str(d2)
        apply("_".join(parts), d2, s_, opn)
        if rng.random() < 0.4:
            c = rng.choice([i for i in range(4) if i != d2])
            apply(f"copy_{c}_{d2}", c, d2, "copy")
    bases = sorted({F(rng.randint(0, 5000), 4) for _ in range(9)} | {F(0), F(-3), F(50), F(100)})
    return [_mk("hist", ";".join(steps), fmt_vals(bases), tags=(f"len{min(len(steps), 12)}",))]


def unclaimed_cases(rng):
    """negative thresholds, hand-built average scales: answered (the model mirrors the code), not binding"""
    out = []
    a = rand_ins(rng, nmax=5)
    b = rand_ins(rng, nmax=5)
    nonneg = all(t >= 0 for t, _ in a + b)
    bases = bases30(rng, [spec_build(a), spec_build(b)])
    out.append(_mk("seq", fmt_scale(a) + ";" + fmt_scale(b), fmt_vals(bases), claimed=nonneg, tags=("any-sign",)))
    out.append(_mk("avgrt", fmt_scale(a), fmt_vals(bases), claimed=False, tags=("any-sign",)))
    out.append(_mk("inverse", fmt_scale(a), fmt_vals(bases), claimed=False, tags=("any-sign",)))
    # to_marginal of a hand-built average scale (with and without the Inf bracket)
    brs = spec_build(nonneg_scale(rng, nmax=5))
    txt = fmt_scale(brs)
    if rng.random() < 0.5:
        txt += ",inf:" + fr(F(rng.randint(0, 16), 16))
    out.append(_mk("tomarg", txt, claimed=False, tags=("hand-built",)))
    return out


def generate(rng: random.Random, tier: str):
    n = 6500 if tier == "quick" else 100000
    out = [
        _mk("cts", "none", ".", "0,1", tags=("empty-node",)),
        _mk("cts", "0:1/4", ".", "0,1", tags=("empty-node",)),
        _mk("seq", "-;-", "0,1", tags=("empty",)),
        _mk("copy", "-", "0,1", claimed=False),
        _mk("toavg", "-", claimed=False), _mk("avgrt", "-", "0,1", claimed=False), _mk("inverse", "-", "0,1", claimed=False),
        _mk("tomarg", "-", claimed=False), _mk("tomarg", "inf:1/4", claimed=False), _mk("tomarg", "0:0", claimed=False),
        _mk("inverse", "0:1", "0,1", claimed=False, tags=("rate1",)),
    ]
    for _ in range(n):
        out += combine_cases(rng)
        out += unary_cases(rng)
        if rng.random() < 0.5:
            out += cts_cases(rng)
        if rng.random() < 0.25:
            out += unclaimed_cases(rng)
        out += hist_cases(rng)
        if rng.random() < 0.5:
            out += cb_cases(rng)
        if rng.random() < 0.3:
            out += meta_cases(rng)
        if rng.random() < 0.15:
            out += frac_cases(rng)
    return out


def enumerate_thorough():
    """every scale with <= 3 brackets over thresholds {0,1,3,6} x rates {1/8,1/2} (65 scales, the
    empty one included): every ordered pair for add_tax_scale, every unary operation on each,
    bases -1..8 step 1/4"""
    import itertools
    T = [F(0), F(1), F(3), F(6)]
    R = [F(1, 8), F(1, 2)]
    bases = fmt_vals([F(k, 4) for k in range(-4, 33)])
    scales = [[]]
    for n in (1, 2, 3):
        for ths in itertools.combinations(T, n):
            for rs in itertools.product(R, repeat=n):
                scales.append(list(zip(ths, rs)))
    out = []
    for a in scales:
        for b in scales:
            out.append(_mk("seq", fmt_scale(a) + ";" + fmt_scale(b), bases, tags=("enum",)))
    for s in scales:
        if not s:
            continue
        t = fmt_scale(s)
        out.append(_mk("inverse", t, bases, claimed=s[0][0] == 0, tags=("enum",)))
        out.append(_mk("avgrt", t, bases, tags=("enum",)))
        out.append(_mk("toavg", t, tags=("enum",)))
        out.append(_mk("copy", t, bases, tags=("enum",)))
        for k in ("1/8", "3/2", "4"):
            out.append(_mk("mult", k, "-", t, bases, tags=("enum",)))
            out.append(_mk("mulr", k, t, bases, tags=("enum",)))
            out.append(_mk("sts", k, t, bases, tags=("enum",)))
        out.append(_mk("cts", "none", t + ";x;" + fmt_scale(scales[(len(s) * 7) % len(scales)] or s), bases, tags=("enum",)))
    # combine_bracket on every scale (the empty one included) x every lower / upper threshold of the grid 0..7, with the defaults
    for s in scales:
        t = fmt_scale(s)
        for lo in ["~", 0, 1, 2, 3, 5, 6, 7]:
            for hi in ["~", 0, 1, 2, 3, 4, 6, 7]:
                lo_v = 0 if lo == "~" else lo
                out.append(_mk("cb", t, "1/4", lo, hi, bases, claimed=hi == "~" or hi > lo_v, tags=("enum",)))
    return out


def corpus():
    """minimal failing inputs of F-C09a, F-C09b, F-C09c (they run first)"""
    b = "0,25,50,75,100,150,1000"
    return [
        _mk("seq", "100:1/8;0:1/4", b, tags=("F-C09a",)),
        _mk("seq", "-;0:1/4", b, tags=("F-C09a",)),
        _mk("avgrt", "50:1/8,100:1/4", b, tags=("F-C09b",)),
        _mk("avgrt", "0:1/8", b, tags=("F-C09c",)),
        _mk("toavg", "7:1/8", tags=("F-C09c",)),
        _mk("avgrt", "7:1/8", b, tags=("F-C09c",)),
        _mk("inverse", "0:1/4,100:1/2", b),
        _mk("mult", "3/2", "-", "0:1/4,10:1/2", "0,4,20"),
        # numpy.around on exact binary ties is half to even: .125 -> .12, .375 -> .38, 2.125 -> 2.12, 12.25 -> 12.2, .25 -> .2
        _mk("mult", "1/8", 2, "0:1/16,1:1/4,3:1/2,17:1,98:1/8", "0,1/8,1/2,2,13", tags=("decimals2", "ties")),
        _mk("mult", "1/4", 1, "0:1/16,1:1/4,3:1/2,49:1,5:1/8", "0,1/4,1,2,13", tags=("decimals1", "ties")),
        _mk("mult", "9/8", 1, "0:1/16,100:1/4,200:1/2", "0,112,113,226", tags=("decimals1",)),
        _mk("cb", "0:1/4,100:1/2", "1/8", "~", "~", b, tags=("defaults",)),
        _mk("cb", "0:1/4,100:1/2", "1/8", "~", "75", b, tags=("lo-default",)),
        _mk("cb", "50:1/4,100:1/2", "1/8", "25", "75", b),
        _mk("cb", "-", "1/8", "25", "~", b, tags=("empty-receiver",)),
        # an upper threshold below EVERY threshold (only possible on a direct call, with hi < lo): it is inserted with rate 0 and nothing is added
        _mk("cb", "50:1/4,100:1/2", "1/8", "60", "20", b, claimed=False, tags=("hi-below-all",)),
        _mk("cb", "50:1/4", "1/8", "70", "10", b, claimed=False, tags=("hi-below-all",)),
        _mk("cb", "50:1/4,100:1/2", "1/8", "100", "30", b, claimed=False, tags=("hi-below-all",)),
        _mk("cb", "7:1/8,9:1/4", "-1/16", "8", "3", b, claimed=False, tags=("hi-below-all",)),
        _mk("toavg", "-1/2:1/8,3:1/4", claimed=False, tags=("frac", "first-threshold-in-(-1,0)")),
        _mk("avgrt", "1/2:1/8,3:1/4", b, tags=("frac",)),
        _mk("meta", "mul1", "scale", "main-option", "currency", "renamed", claimed=False),
        _mk("meta", "mul1", "scale", "main-option", "currency", "~", claimed=False),
        _mk("meta", "inv", "scale", "main-option", "currency", "~", claimed=False),
        _mk("meta", "tomarg", "scale", "main-option", "currency", "~", claimed=False),
        _mk("meta", "cts", "~", "~", "~", "first-child", claimed=False),
        _mk("hist", "new_0_0:1/4,100:1/2;cb_0_1/8_~_~;cb_0_1/8_50_150;copy_1_0;cb_1_1/4_~_75;calc_0;cb_2_1/8_10_~", "0,60,200", tags=("combine-bracket",)),
        _mk("hist", "new_0_0:1/4,100:1/2;sts_1_0_3/2;mulri_0_2;sts_2_0_3/2;copy_3_2;addts_3_1;calc_3;inv_1_0;avgrt_2_3;addb_0_50_1/8", "0,60,200",
            tags=("same-op-after-mutation",)),
    ]


def neighbours(case: Case):
    rng = random.Random(2)
    out = []
    for _ in range(40):
        out += combine_cases(rng) + unary_cases(rng)
    return out


PROP = Prop(
    pid="C09",
    lean_targets=["OFCore.Props.C09"],
    driver="ofdrv_sca",
    generate=generate, impl=impl, oracle=oracle, nontrivial=nontrivial, canon_equal=canon_equal,
    corpus=corpus, neighbours=neighbours, enumerate_thorough=enumerate_thorough,
    level_text=("Theorems (all sorted scales of any length, all bases): add_tax_scale adds the taxes for every receiver and every operand with "
                "thresholds >= 0, also for sequences and combine_tax_scales (C09_combine_*; any eps >= 0, factor with factor + eps > 0); "
                "inverse of a scale starting at 0 with rates < 1 exists and maps net back to gross for x >= 0 (C09_inverse, eps = 0), and where "
                "it raises (C09_inverse_errors); threshold scaling by k > 0 and rate scaling by any k (C09_mul_thresholds, C09_scale_tax_scales, "
                "C09_mul_rates); to_average().to_marginal() returns the same scale, preceded by (0,0) when the first threshold is positive, and "
                "taxes identically with any factor and rounding (C09_average_marginal_roundtrip, repaired to_average); copy (C09_copy). "
                "Round 2: combine_bracket(rate, lo, hi) adds rate on [lo, hi) for every sorted receiver (C09_combine_bracket); the thresholds of a "
                "combination are those of the two scales (C09_combine_thresholds); combination is commutative and associative as a tax function "
                "(C09_combine_comm, C09_combine_assoc); multiply_thresholds with decimals rounds each product, keeps rates and (weak) order, and the "
                "result still computes its definition (C09_mul_thresholds_rounded); the inverse round trip on vectors (C09_inverse_vector); the "
                "descriptive attributes name / option / unit through every operation (C09_meta); calc with threshold factor k = f + eps is the textbook "
                "calc through the change of unit x -> k x (C09_calc_factor_scaling), hence the inverse law for every eps and factor, the code's "
                "2^-52 included (C09_inverse_any_factor); what to_average produces: thresholds 0 and those of the scale, average rate x threshold = "
                "tax at the threshold, last rate on the Inf bracket (C09_to_average_def). "
                "Carried by the correspondence only: non-mutation of operands and independence of copies (deep snapshots before/after every "
                "operation), equality of in-place and new-scale variants, IEEE rounding."),
    exhaustive_note=("thorough: all 65 scales with <= 3 brackets over thresholds {0,1,3,6} x rates {1/8,1/2}: the 4225 ordered pairs for "
                     "add_tax_scale and every unary operation on each scale, bases -1..8 step 1/4"),
    extra_lean_files=["OFCore/TaxScale.lean", "OFCore/Lemmas/TaxScale.lean"],
    rule=("lines `sca seq|cts|cb|inverse|mult|mulr|sts|toavg|avgrt|tomarg|copy|copyk|meta …` (round 2: `cb` = combine_bracket called directly, "
          "with and without its optional arguments, lower / upper threshold existing, new, below the first, above the last, upper threshold "
          "falsy / not above the lower one, empty receiver; `meta` = name / option / unit of the result of every operation, constructor and "
          "new_name arguments None / empty / given, positional and by keyword (oracle silent); scales with thresholds on the quarter lattice, "
          "also strictly between -1 and 0 and between 0 and 1, for the conversions, the combination and the inverse; after seq / cts the result "
          "is changed through the whole API and no operand may move; "
          "cts on dict nodes and, on half of the lines, "
          "on genuine ParameterNodeAtInstant objects; operands reused as the same object, the receiver added to itself; optional "
          "arguments positional / by keyword, integer factors as int; every result is afterwards modified through the whole API to "
          "show that it shares nothing with its operand) over marginal-rate scales of 1..6 brackets with "
          "non-negative integer thresholds <= 2^10 (insertion order, shared / duplicated thresholds), rates in 2^-4 Z: pairs and "
          "sequences of 2..5 scales for add_tax_scale with the situations generic / operand starting below the receiver / empty "
          "receiver / empty operand / shared thresholds / same first threshold; combine_tax_scales on dict nodes with non-scale "
          "children; inverse on scales starting at 0 with rates < 1; factors k/8; 30 bases per case (every threshold, +- 1/4, 0, "
          "negative, far above, random lattice points). Every operand is snapshotted (thresholds and rates) before and after "
          "the operation. Non-trivial = a combination, or a scale with >= 2 brackets, that does not raise."),
    assumptions=[
        "IEEE rounding is modelled, not verified (dyadic lattice inputs; un-rounded calc values are snapped to the 2^-12 lattice after "
        "checking they lie within 2^-20 of it; inverse / to_average / to_marginal contain float divisions and are compared with tolerance 2^-20)",
        "outside the claim domain the ORACLE is silent but every line stays binding for the correspondence (the model transcribes the code "
        "there too: negative / zero factors, negative thresholds, inverse of other scales, hand-built average scales, empty scales)",
        "histories (`hist`): random sequences of in-place and out-of-place operations on four objects, each step recomputed by the pure model "
        "from the brackets alone (any memo or shared list shows as a diff), the same operation repeated with the same arguments after a mutation",
        "non-mutation of the operands is carried by the correspondence only: deep snapshot of thresholds and rates of every operand before/after "
        "each operation (a pure model cannot express it)",
        "claim domain (Appendix A): scales with thresholds >= 0; inverse for first threshold 0 and rates < 1; positive factors; the rest is answered "
        "by the model and compared, not binding",
        "bisect, list.index, deepcopy and the numpy primitives of calc are modelled",
    ],
)
