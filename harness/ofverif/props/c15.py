"""C15 — enum values survive encoding and decoding; invalid ones are rejected.

Protocol (one self-contained case per line, see lean/OFCore/OFCore/Drv/Enm.lean):

    enm enc <names> <container> <items>                   -> OK <owner> <idx> <dec> <str> <re> <reraw> | ERR
    enm sel <names> <container> <items> <how> <positions> -> OK <idx> <dec> <str> | ERR   (decode a selection of the result)
    enm dec <names> <indices> [<dtype>[.0d]]              -> <dec> <str>
    enm cmp <names> <container> <items> <op> <other>      -> V:<T/F...> | S:<T/F> | R:<list> | RAISE | ERR
        (an operator of EnumArray applied to the encoded array: eq ne | add mul lt le gt ge and or (forbidden) | repr str;
         <other>: N | C.own C.twin C.foreign | x:<item> | L.<list|tuple|dtype>:<ints> | B.<str|strarr|mem|none>:<len> |
         E.own:<indices> E.foreign:<indices>)

<names>: declaration order, comma separated, a name = dot-joined hex code points; `<name>~<j>` = an ALIAS: a name bound to the
         value of the j-th member declared before it (no member of its own; E[alias] is that member).
<container>: seq.list seq.tuple seq.deque seq.array | int.<dtype>[.strided] | str.arr str.wide str.strided | obj.arr |
             oth.<dtype> | zd.<dtype> (0-d array) | enc.own[.<dtype>] enc.foreign
<items>: i<int>[.b] s<name> S<name> (numpy.str_) m<k> g<k> f<k> o.<what>   ('-' = empty)
   m = k-th member of the enumeration E under test, f = k-th member of another enumeration F
   (other class name), g = k-th member of another enumeration G declared under the SAME class
   name as E (EnumType compares classes by name: finding F-C15b).
"""
from __future__ import annotations

import array
import collections
import itertools
import random

from ..core import Case, Prop

CLS_NAME = "OfvEnum"          # E and its same-name twin G
OTHER_NAME = "OfvOtherEnum"   # F
INT_DTYPES = ["int8", "int16", "int32", "int64", "uint8", "uint16", "uint32", "uint64"]
OTH_DTYPES = ["float64", "float32", "bool", "bytes", "complex128"]
OTHER_ELEMS = ["float", "none", "bytes", "npbytes", "npint", "npuint8", "npfloat", "tuple", "list"]
SELECTIONS = ["fancy", "fancy", "fancy16", "take", "mask", "mask", "rev", "copy", "view", "astype16", "repeat2", "tile2", "item0d",
              "slice_1_n_n", "slice_n_-1_n", "slice_n_n_2", "slice_1_n_2", "slice_n_n_-2", "slice_-2_n_n", "slice_2_1_n", "slice_n_n_n"]
LOOKALIKES = ["a", "\u0430", "A", "\u0391", "\uff21", "\uff41", "e\u0301", "\u00e9", "\ufb01", "fi", "\u00df", "ss", "\u1e9e", "K", "\u212a",
              "\u03a9", "\u2126", "\u0130", "i", "\u0131", "I", "l", "1", "O", "0", "\u043e", "o", "\u00c5", "\u212b", "A\u030a"]
RANGES = {"int8": (-2**7, 2**7 - 1), "int16": (-2**15, 2**15 - 1), "int32": (-2**31, 2**31 - 1),
          "int64": (-2**63, 2**63 - 1), "uint8": (0, 2**8 - 1), "uint16": (0, 2**16 - 1),
          "uint32": (0, 2**32 - 1), "uint64": (0, 2**64 - 1)}
ALPHABET = ["a", "b", "A", "B", "z", "Z", "0", "1", "9", "_", " ", "-", "é", "ß", "Ω", "中", "😀", "m", "x"]


# --------------------------------------------------------------------------------------
# text forms


def name_tok(s: str) -> str:
    return ".".join(format(ord(c), "x") for c in s)


def tok_name(t: str) -> str:
    return "" if t == "" else "".join(chr(int(h, 16)) for h in t.split("."))


def show_list(xs) -> str:
    xs = list(xs)
    return ",".join(str(x) for x in xs) if xs else "-"


def read_list(t: str) -> list:
    return [] if t == "-" else t.split(",")


class Names(list):
    """the canonical member names of an enumeration; `decl` = the whole class body in declaration order when it has aliases:
    a `str` entry declares a member, a `(alias name, j)` entry binds another name to the value of the j-th canonical member"""
    decl = None

    @property
    def aliases(self):
        return [e for e in (self.decl or []) if not isinstance(e, str)]


def names_field(names) -> str:
    decl = getattr(names, "decl", None)
    if not decl:
        return show_list(name_tok(s) for s in names)
    return show_list(name_tok(e) if isinstance(e, str) else f"{name_tok(e[0])}~{e[1]}" for e in decl)


def parse_names(field: str) -> Names:
    decl = []
    for t in read_list(field):
        nm, sep, j = t.partition("~")
        decl.append((tok_name(nm), int(j)) if sep else tok_name(nm))
    names = Names(e for e in decl if isinstance(e, str))
    if len(names) != len(decl):
        names.decl = decl
    return names


def parse_item(t: str):
    """-> (kind, value, sub)"""
    k, rest = t[0], t[1:]
    if k == "i":
        v, _, sub = rest.partition(".")
        return ("i", int(v), sub)
    if k == "s":
        return ("s", tok_name(rest), "")
    if k == "S":
        return ("s", tok_name(rest), "np")
    if k in "mgf":
        return (k, int(rest), "")
    if k == "o":
        return ("o", None, rest.lstrip("."))
    raise ValueError("bad item " + t)


def parse_line(line: str):
    f = line.split()
    names = parse_names(f[2])
    if f[1] == "dec":
        return "dec", names, None, [int(t) for t in read_list(f[3])], (f[4] if len(f) > 4 else "uint8")
    items = [parse_item(t) for t in read_list(f[4])]
    if f[1] == "cmp":
        return "cmp", names, f[3], items, (f[5], f[6])
    if f[1] == "sel":
        return "sel", names, f[3], items, (f[5], [int(t) for t in read_list(f[6])])
    return "enc", names, f[3], items, None


# --------------------------------------------------------------------------------------
# implementation adapter

_ENUMS: dict = {}


def enums_for(field: str):
    """(E, F, G, position of each member of E by identity, {member position: an alias name}) for a <names> field.
    F and G have n + 2 members.  Aliases are declared as Python declares them: a name bound to an already used value."""
    hit = _ENUMS.get(field)
    if hit is None:
        from openfisca_core import indexed_enums as ie
        if len(_ENUMS) > 64:
            _ENUMS.clear()
        names = parse_names(field)
        n = len(names)
        body, k, via = {}, 0, {}
        for e in (names.decl or list(names)):
            if isinstance(e, str):
                body[e] = f"value-{k}"
                k += 1
            else:
                body[e[0]] = f"value-{e[1]}"
                via.setdefault(e[1], e[0])
        E = ie.Enum(CLS_NAME, body)
        assert len(E) == n and [m.name for m in E] == list(names)
        hit = [E, None, None, {id(m): k for k, m in enumerate(E)}, via]
        _ENUMS[field] = hit
    return hit


def _foreign(hit, which: str):
    from openfisca_core import indexed_enums as ie
    slot = 1 if which == "f" else 2
    if hit[slot] is None:
        n = len(hit[0])
        cls_name = OTHER_NAME if which == "f" else CLS_NAME
        hit[slot] = ie.Enum(cls_name, {f"{which}w{k}": k for k in range(n + 2)})
    return hit[slot]


def _obj(item, hit, via=False):
    import numpy as np
    k, v, sub = item
    if k == "i":
        return bool(v) if sub == "b" else v
    if k == "s":
        return np.str_(v) if sub == "np" else v
    if k == "m":
        if via and v in hit[4]:
            return hit[0][hit[4][v]]          # the member reached through an alias name: the same object
        return list(hit[0])[v]
    if k in "fg":
        return list(_foreign(hit, k))[v]
    first = hit[0].names[0]          # bytes / bytes_ elements spell a declared name
    return {"float": 0.5, "none": None, "bytes": str(first).encode("utf-8"), "npbytes": np.bytes_(str(first).encode("utf-8")),
            "npint": np.int64(0), "npuint8": np.uint8(0), "npfloat": np.float64(1.0), "tuple": (0,),
            "list": [0]}[sub or "float"]


def build_input(cont: str, items: list, hit, via=False):
    import numpy as np
    from openfisca_core import indexed_enums as ie
    head, _, sub = cont.partition(".")
    sub, _, extra = sub.partition(".")
    if head == "enc":
        owner = hit[0] if sub == "own" else _foreign(hit, "f")
        return ie.EnumArray(np.array([v for _, v, _ in items], dtype=getattr(np, extra or "uint8")), owner)
    if head == "seq":
        objs = [_obj(it, hit, via) for it in items]
        if sub == "deque":
            return collections.deque(objs)
        if sub == "array":
            return array.array("q", objs)
        return tuple(objs) if sub == "tuple" else objs
    if head == "int":
        if extra == "strided":
            return np.array([w for _, v, _ in items for w in (v, 0)], dtype=getattr(np, sub))[::2]
        return np.array([v for _, v, _ in items], dtype=getattr(np, sub))
    if head == "str":
        vals = [v for _, v, _ in items]
        if sub == "wide":
            return np.array(vals, dtype=f"<U{max([len(v) for v in vals] + [1]) + 17}")
        if sub == "strided":
            return np.array([w for v in vals for w in (v, "pad")], dtype=np.str_)[::2]
        return np.array(vals, dtype=np.str_)
    if head == "zd":
        (it,) = items
        if sub == "obj":
            a = np.empty((), dtype=object)
            a[()] = _obj(it, hit)
            return a
        return np.array(_obj(it, hit), dtype=None if sub == "str" else getattr(np, sub))
    if head == "obj":
        a = np.empty(len(items), dtype=object)
        for j, it in enumerate(items):
            a[j] = _obj(it, hit, via)
        return a
    if head == "oth":
        n = len(items)
        if sub == "bytes":
            return np.array([str(hit[0].names[0]).encode("utf-8")] * n, dtype=np.bytes_)
        if sub == "bool":
            return np.zeros(n, dtype=np.bool_)
        return np.zeros(n, dtype=getattr(np, sub))
    raise ValueError("bad container " + cont)


def _show_decoded(arr, hit) -> tuple:
    try:
        dec = show_list(hit[3].get(id(m), "?") for m in arr.decode())
    except Exception:
        dec = "ERR"
    try:
        st = show_list(name_tok(str(s)) for s in arr.decode_to_str())
    except Exception:
        st = "ERR"
    return dec, st


def select(r, how: str, positions: list):
    """the numpy spelling `how` of selecting `positions` from the encoded array"""
    import numpy as np
    from openfisca_core import indexed_enums as ie
    if how == "fancy":
        return r[np.array(positions, dtype=np.intp)]
    if how == "fancy16":
        return r[np.array(positions, dtype=np.int16)]
    if how == "take":
        return r.take(np.array(positions, dtype=np.intp))
    if how == "mask":
        m = np.zeros(len(r), dtype=bool)
        m[positions] = True
        return r[m]
    if how.startswith("slice_"):
        a, b, c = (None if t == "n" else int(t) for t in how.split("_")[1:])
        return r[a:b:c]
    if how == "rev":
        return r[::-1]
    if how == "copy":
        return r.copy()
    if how == "view":
        return r.view(ie.EnumArray)
    if how == "astype16":
        return r.astype(np.int16)
    if how == "repeat2":
        return np.repeat(r, 2)
    if how == "tile2":
        return np.tile(r, 2)
    if how == "item0d":
        return r[positions[0]:positions[0] + 1].reshape(())
    raise ValueError("bad selection " + how)


def positions_of(how: str, length: int, rng: random.Random) -> list:
    """positions selected by the spelling `how` on an array of that length"""
    idx = list(range(length))
    if how in ("fancy", "fancy16", "take"):
        return [rng.randrange(length) for _ in range(rng.choice([0, 1, 2, length, length + 2]))] if length else []
    if how == "mask":
        return [j for j in idx if rng.random() < 0.5]
    if how.startswith("slice_"):
        a, b, c = (None if t == "n" else int(t) for t in how.split("_")[1:])
        return idx[a:b:c]
    if how == "rev":
        return idx[::-1]
    if how in ("copy", "view", "astype16"):
        return idx
    if how == "repeat2":
        return [j for j in idx for _ in (0, 1)]
    if how == "tile2":
        return idx + idx
    if how == "item0d":
        return [rng.randrange(length)]
    raise ValueError(how)


CMP_OPS = {
    "eq": lambda a, b: a == b, "ne": lambda a, b: a != b, "add": lambda a, b: a + b, "mul": lambda a, b: a * b,
    "lt": lambda a, b: a < b, "le": lambda a, b: a <= b, "gt": lambda a, b: a > b, "ge": lambda a, b: a >= b,
    "and": lambda a, b: a & b, "or": lambda a, b: a | b,
}
FORBIDDEN = ["add", "mul", "lt", "le", "gt", "ge", "and", "or"]


def build_operand(tok: str, hit):
    """the right operand of a comparison (see the module documentation)"""
    import numpy as np
    from openfisca_core import indexed_enums as ie
    E = hit[0]
    head, _, body = tok.partition(":")
    kind, _, sub = head.partition(".")
    if tok == "N":
        return None
    if kind == "C":
        return E if sub == "own" else _foreign(hit, "g" if sub == "twin" else "f")
    if kind == "x":
        return _obj(parse_item(body), hit)
    if kind == "L":
        vals = [int(t) for t in read_list(body)]
        if sub in ("", "list"):
            return vals
        if sub == "tuple":
            return tuple(vals)
        return np.array(vals, dtype=getattr(np, sub))
    if kind == "B":
        n = int(body)
        first = str(E.names[0])
        if sub == "strarr":
            return np.array([first] * n, dtype=np.str_)
        return {"str": [first] * n, "mem": [list(E)[0]] * n, "none": [None] * n}[sub or "str"]
    if kind == "E":
        owner = E if sub == "own" else _foreign(hit, "f")
        return ie.EnumArray(np.array([int(t) for t in read_list(body)], dtype=np.uint8), owner)
    raise ValueError("bad operand " + tok)


def _show_cmp(res) -> str:
    import numpy as np
    if isinstance(res, (bool, np.bool_)):
        return "S:" + ("T" if res else "F")
    if isinstance(res, np.ndarray) and res.dtype == np.bool_ and res.ndim == 1 and type(res) is np.ndarray:
        return "V:" + ("".join("T" if b else "F" for b in res.tolist()) or "-")
    return "ODD:" + type(res).__name__


def _show_text(r, how: str, hit) -> str:
    """the members `repr(array)` shows / the names `str(array)` shows, read back from the text"""
    E = hit[0]
    text = repr(r) if how == "repr" else str(r)
    if how == "repr":
        if not (text.startswith("EnumArray([") and text.endswith("])")):
            return "R:?" + text[:40]
        toks = text[len("EnumArray(["):-2].split()
        pre = CLS_NAME + "."
        if not all(t.startswith(pre) for t in toks):
            return "R:?" + text[:40]
        pos = {str(nm): k for k, nm in enumerate(E.names)}
        return "R:" + show_list(pos.get(t[len(pre):], "?") for t in toks)
    if not (text.startswith("[") and text.endswith("]")):
        return "R:?" + text[:40]
    toks = text[1:-1].split()
    if not all(len(t) >= 2 and t[0] == t[-1] == "'" for t in toks):
        return "R:?" + text[:40]
    return "R:" + show_list(name_tok(t[1:-1]) for t in toks)


def _indices(arr) -> str:
    import numpy as np
    return show_list(int(v) for v in np.ravel(np.asarray(arr)))


def impl(case: Case) -> str:
    import numpy as np
    from openfisca_core import indexed_enums as ie
    op, names, cont, items, extra = parse_line(case.line)
    hit = enums_for(case.line.split()[2])
    E = hit[0]
    if op == "dec":
        dt, _, shape = extra.partition(".")
        raw = np.array(items[0] if shape == "0d" else items, dtype=getattr(np, dt))
        arr = ie.EnumArray(raw, E)
        return " ".join(_show_decoded(arr, hit))
    x = build_input(cont, items, hit, bool((case.payload or {}).get("via_alias")))
    try:
        r = E.encode(x)
    except Exception:
        return "ERR"
    if op == "cmp":
        how, other = extra
        if how in ("repr", "str"):
            if r.possible_values is not E:
                return "R:~"
            try:
                return _show_text(r, how, hit)
            except Exception:
                return "RAISE"
        o = build_operand(other, hit)
        try:
            res = CMP_OPS[how](r, o)
        except Exception:
            return "RAISE"
        return _show_cmp(res)
    if op == "sel":
        how, positions = extra
        try:
            r2 = select(r, how, positions)
        except Exception:
            return "ERR"
        if not isinstance(r2, ie.EnumArray) or r2.possible_values is not E:
            return "LOST " + type(r2).__name__
        return f"OK {_indices(r2)} {' '.join(_show_decoded(r2, hit))}"
    own = r.possible_values is E
    dec, st = _show_decoded(r, hit) if own else ("~", "~")
    try:
        re_ = _indices(E.encode(r))
    except Exception:
        re_ = "ERR"
    try:
        reraw = _indices(E.encode(np.asarray(r)))
    except Exception:
        reraw = "ERR"
    idx = _indices(r)
    # the encoded array must not be a view of the input: overwrite the input array in place and look at the result again
    if isinstance(x, np.ndarray) and not isinstance(x, ie.EnumArray) and x.ndim == 1 and x.size and x.flags.writeable:
        try:
            if x.dtype.kind in "iu":
                x += 1                         # (wraps around at the limits of the dtype)
            elif x.dtype.kind == "U":
                x[...] = ""
            elif x.dtype.kind == "O":
                x[...] = None
        except (TypeError, ValueError):
            pass
        if _indices(r) != idx:
            return f"ALIASED {idx} {_indices(r)}"
    elif isinstance(x, (list, collections.deque, array.array)) and len(x) > 1:
        x.reverse()                            # a mutable sequence: reversed in place after the call
        if _indices(r) != idx:
            return f"ALIASED {idx} {_indices(r)}"
    return f"OK {'own' if own else 'foreign'} {idx} {dec} {st} {re_} {reraw}"


# --------------------------------------------------------------------------------------
# oracle: the property statement, computed with a dict only

PRIORITY = ["negative-index", "index-too-large", "unknown-name", "foreign-member", "unsupported-kind"]


def _designated(item, n: int, pos: dict, alias_names=()):
    """index of the member the element designates, or the reason why it designates none"""
    k, v, _ = item
    if k == "i":
        return v if 0 <= v < n else ("negative-index" if v < 0 else "index-too-large")
    if k == "s":
        if v in alias_names:
            return "alias-name"
        return pos[v] if v in pos else "unknown-name"
    if k == "m":
        return v
    if k == "f":
        return "foreign-member"
    if k == "g":
        return "same-class-name"
    return "unsupported-kind"


def oracle(case: Case, out: str):
    op, names, cont, items, extra = parse_line(case.line)
    n = len(names)
    if n > 200:
        return None            # the property quantifies over enumerations of 1..200 members
    if op == "dec":
        if all(i < n for i in items):
            want = f"{show_list(items)} {show_list(name_tok(names[i]) for i in items)}"
            if out != want:
                return ("decode-mismatch", f"decoding indices {items} gave {out}, expected {want}")
        return None
    pos = {nm: k for k, nm in enumerate(names)}
    head = cont.split(".")[0]
    if head == "enc":
        if op == "enc" and cont.startswith("enc.own") and all(v < n for _, v, _ in items):
            idx = show_list(v for _, v, _ in items)
            f = out.split()
            if len(f) != 7 or f[:3] != ["OK", "own", idx] or f[5] != idx or f[6] != idx:
                return ("not-idempotent", f"encoding the already encoded array {idx} gave {out}")
            if f[3] != idx:
                return ("decode-mismatch", f"decode() gave members {f[3]}, expected {idx}")
            if f[4] != show_list(name_tok(names[v]) for _, v, _ in items):
                return ("decode-to-str-mismatch", f"decode_to_str() gave {f[4]}")
        return None
    alias_names = {a for a, _ in names.aliases}
    if op == "enc" and out.startswith("ALIASED"):
        f = out.split()
        return ("encoded-array-is-a-view-of-the-input",
                f"the array encoded from {cont} held {f[1]}; after the INPUT array was overwritten in place it holds {f[2]}: what it "
                f"decodes to is no longer what was encoded")
    des = [_designated(it, n, pos, alias_names) for it in items]
    reasons = [d for d in des if isinstance(d, str)]
    if "alias-name" in reasons and op == "enc":
        # whether an ALIAS name counts as a member name is not decided by the statement (the code refuses it, the model
        # mirrors that); what is decided: an encoded array never holds an index that designates no member
        f = out.split()
        if out != "ERR" and len(f) == 7 and f[1] == "own" and any(int(t) >= n for t in read_list(f[2])):
            return ("encoded-index-out-of-range", f"{f[2]} with {n} members (input with an alias name)")
        return None
    if op == "cmp":
        # values survive encoding: the encoded array compares equal to a member exactly where the element designates that
        # member, two encoded arrays compare equal exactly where they hold the same member, the text forms show the members
        kinds = {it[0] for it in items}
        if reasons or not ((head in ("seq", "int", "str") and len(kinds) <= 1) or (head == "obj" and kinds <= {"m"})):
            return None
        how, other = extra
        want = None
        okind, _, obody = other.partition(":")
        if how in ("eq", "ne") and okind == "x" and obody[0] == "m":
            k = int(obody[1:])
            want = "V:" + ("".join("T" if (d == k) == (how == "eq") else "F" for d in des) or "-")
        elif how in ("eq", "ne") and okind == "E.own":
            b = [int(t) for t in read_list(obody)]
            if len(b) == len(des) and all(v < n for v in b):
                want = "V:" + ("".join("T" if (d == v) == (how == "eq") else "F" for d, v in zip(des, b)) or "-")
        elif how == "repr":
            want = "R:" + show_list(des)
        elif how == "str":
            want = "R:" + show_list(name_tok(names[d]) for d in des)
        if want is not None and out != want:
            return ("operator-mismatch:" + how, f"{how} {other} on the encoding of {show_list(des)} gave {out}, expected {want}")
        return None
    if op == "sel":
        kinds = {it[0] for it in items}
        if reasons or not ((head in ("seq", "int", "str") and len(kinds) <= 1) or (head == "obj" and kinds <= {"m"})):
            return None
        if out.startswith("LOST"):
            return ("selection-lost-enumeration", f"{extra[0]} of an encoded array is no EnumArray of the enumeration: {out}")
        sel = [des[p] for p in extra[1]]
        want = f"OK {show_list(sel)} {show_list(sel)} {show_list(name_tok(names[d]) for d in sel)}"
        if out != want:
            return ("selection-decode-mismatch", f"decoding the selection {extra[0]} {extra[1]} gave {out}, expected {want}")
        return None
    if not items:
        if head in ("seq", "int", "str", "obj") and out != "OK own - - - - -":
            return ("empty-input", f"empty {cont} gave {out}")
        return None
    if reasons:
        if out == "ERR":
            return None
        others = [r for r in reasons if r != "same-class-name"]
        if not others:
            return ("foreign-member-accepted:same-class-name",
                    f"members of a different enumeration with the same class name were encoded: {out}")
        why = min(others, key=PRIORITY.index)
        if why == "foreign-member" and head == "obj" and items[0][0] == "m":
            why = "object-array-only-first-checked"
        return ("invalid-accepted:" + why, f"an input holding a non-member ({why}) was encoded: {out}")
    kinds = {it[0] for it in items}
    supported = (head in ("seq", "int", "str") and len(kinds) == 1) or (head == "obj" and kinds == {"m"})
    if out == "ERR":
        if supported:
            return ("valid-rejected:" + "".join(sorted(kinds)) + ":" + head,
                    "a sequence/array of valid names, indices or members was rejected")
        return None            # mixed kinds / names or integers in an object array: not decided by the statement
    f = out.split()
    idx = show_list(des)
    if len(f) != 7 or f[1] != "own":
        return ("malformed-result", out)
    if f[2] != idx:
        return ("wrong-index:" + "".join(sorted(kinds)), f"encoded {f[2]}, the elements designate {idx}")
    if f[3] != idx:
        return ("decode-mismatch", f"decode() gave members {f[3]}, expected {idx}")
    if f[4] != show_list(name_tok(names[d]) for d in des):
        return ("decode-to-str-mismatch", f"decode_to_str() gave {f[4]}")
    if f[5] != idx or f[6] != idx:
        return ("not-idempotent", f"re-encoding gave {f[5]} / {f[6]}, expected {idx}")
    if any(int(t) >= n for t in read_list(f[2])):
        return ("encoded-index-out-of-range", f"{f[2]} with {n} members")
    return None


def nontrivial(case: Case, out: str) -> bool:
    f = case.line.split()
    return (f[4] if f[1] == "cmp" else f[-1]) != "-"


# --------------------------------------------------------------------------------------
# generators


def _mk(names, cont, items, claimed=True, tags=(), payload=None):
    line = f"enm enc {names_field(names)} {cont} {show_list(items)}"
    if payload is None and getattr(names, "decl", None) and any(str(it).startswith("m") for it in items):
        payload = {"via_alias": True}           # members of an enumeration with aliases are fetched through an alias name
    return Case(line=line, claimed=claimed, tags=(cont,) + tuple(tags) + (("aliases",) if getattr(names, "decl", None) else ()),
                payload=payload)


def _mkdec(names, idx, claimed=True, dtype=None):
    line = f"enm dec {names_field(names)} {show_list(idx)}" + (f" {dtype}" if dtype else "")
    return Case(line=line, claimed=claimed, tags=("dec",) + ((dtype,) if dtype else ()))


def _mkcmp(names, cont, items, how, other, claimed=True, tags=()):
    line = f"enm cmp {names_field(names)} {cont} {show_list(items)} {how} {other}"
    return Case(line=line, claimed=claimed, tags=("cmp", how, other.partition(":")[0]) + tuple(tags))


def _simple_names(names) -> bool:
    """names that numpy prints as they are, without blanks or quotes (the repr / str texts can be read back)"""
    return all(nm.isascii() and nm.replace("_", "a").isalnum() for nm in names)


def random_operand(rng: random.Random, n: int, length: int) -> str:
    """a right operand for `==` / `!=`: mostly a member, otherwise every other kind of thing the code dispatches on"""
    r = rng.random()
    if r < 0.4:
        return f"x:m{rng.randrange(n)}"
    kind = rng.choice(["f", "g", "i", "i", "s", "o", "N", "C", "C", "L", "L", "B", "E", "E", "E"])
    if kind in "fg":
        return f"x:{kind}{rng.choice([0, n - 1, n, n + 1])}"
    if kind == "i":
        return f"x:i{rng.choice([0, n - 1, n, -1, 255, 256, 300, rng.randrange(n)])}"
    if kind == "s":
        return "x:s" + name_tok(rng.choice(["m0", "0", "zz"]))
    if kind == "o":
        return "x:o.float"
    if kind == "N":
        return "N"
    if kind == "C":
        return rng.choice(["C.own", "C.own", "C.twin", "C.foreign"])
    ln = rng.choice([length, length, length, 1, 1, 0, length + 1, n + 2, rng.randint(0, 4)])
    if kind == "L":
        cont = rng.choice(["list", "tuple", "int8", "int64", "uint8"])
        lo = 0 if cont == "uint8" else -1
        return f"L.{cont}:" + show_list(rng.choice([lo, 0, n - 1, rng.randrange(n), n]) for _ in range(ln))
    if kind == "B":
        return f"B.{rng.choice(['str', 'strarr', 'mem', 'none'])}:{ln}"
    return f"E.{rng.choice(['own', 'own', 'foreign'])}:" + show_list(rng.randrange(n) for _ in range(ln))


def _mksel(names, cont, items, how, positions, tags=()):
    line = f"enm sel {names_field(names)} {cont} {show_list(items)} {how} {show_list(positions)}"
    return Case(line=line, tags=("sel", how) + tuple(tags))


def _dtype_holding(rng: random.Random, top: int) -> str:
    return rng.choice([d for d in INT_DTYPES if RANGES[d][1] >= top])


def _safe(nm: str) -> str:
    # keep clear of Enum's own attribute names (mro, names, indices, enums, index, name, value, ...)
    if nm.startswith("_"):
        nm = "u" + nm
    if nm.isascii() and nm.isalpha() and nm.islower() and len(nm) >= 3:
        nm += "0"
    return nm


def gen_names(rng: random.Random, n: int) -> list:
    style = rng.choice(["m", "m", "rand", "rand", "rand", "prefix", "sorted", "reversed", "lookalike"])
    if style == "lookalike":        # names that render alike but are different strings
        seen, names = set(), []
        while len(names) < n:
            nm = _safe("".join(rng.choice(LOOKALIKES) for _ in range(rng.choice([1, 1, 2, 3] if n < 100 else [2, 3]))))
            if nm not in seen:
                seen.add(nm)
                names.append(nm)
        return names
    if style == "m":
        names = [f"m{j}" for j in range(n)]
        rng.shuffle(names)
        return names
    if style == "prefix":
        base = rng.choice(["a", "A", "é", "m1"])
        names = [base * (j + 1) if len(base) == 1 else base + "0" * j for j in range(n)]
        names = [_safe(s) for s in names]
        rng.shuffle(names)
        return names
    seen: set = set()
    names = []
    while len(names) < n:
        ln = rng.choice([1, 1, 2, 2, 3, 4]) if n < 150 else rng.choice([2, 3, 4])
        nm = _safe("".join(rng.choice(ALPHABET) for _ in range(ln)))
        if nm in seen:
            continue
        seen.add(nm)
        names.append(nm)
    if style == "sorted":
        names.sort()
    elif style == "reversed":
        names.sort(reverse=True)
    return names


def with_aliases(rng: random.Random, names: list) -> Names:
    """the enumeration `names` declared with 1-4 aliases: right after the first member (every later member is declared after an
    alias), last, in the middle; several aliases of one value; an alias of the last member"""
    n = len(names)
    taken = set(names)
    out = Names(names)
    decl = list(names)
    # position in the class body of each canonical member
    def canon_pos(k):
        return [j for j, e in enumerate(decl) if isinstance(e, str)][k]
    shapes = rng.sample(["after-first", "last", "middle", "twice", "of-last"], rng.randint(1, 3))
    count = 0
    for shape in shapes:
        nm = _safe(f"al{count}{rng.choice(['', 'x', 'Z', '_'])}")
        while nm in taken:
            nm += "q"
        taken.add(nm)
        count += 1
        if shape == "after-first":
            decl.insert(canon_pos(0) + 1, (nm, 0))
        elif shape == "last":
            decl.append((nm, rng.randrange(n)))
        elif shape == "of-last":
            decl.append((nm, n - 1))
        elif shape == "middle":
            k = rng.randrange(n)
            decl.insert(rng.randint(canon_pos(k) + 1, len(decl)), (nm, k))
        else:
            k = rng.randrange(n)
            nm2 = nm + "b"
            taken.add(nm2)
            decl.insert(rng.randint(canon_pos(k) + 1, len(decl)), (nm, k))
            decl.insert(rng.randint(canon_pos(k) + 1, len(decl)), (nm2, k))
    out.decl = decl
    return out


def unknown_names(rng: random.Random, names: list) -> list:
    have = set(names) | {a for a, _ in getattr(names, "aliases", [])}
    cands = ["", " ", "\U0010ffff", "zzz", "0"]
    for s in rng.sample(names, min(4, len(names))):
        cands += [s + "x", s + " ", s[:-1], s.swapcase(), s + s, " " + s, s[:-1] + chr(ord(s[-1]) + 1),
                  s[:-1] + chr(max(33, ord(s[-1]) - 1))]
    return [c for c in cands if c not in have and not c.endswith("\x00")]


def _len(rng: random.Random, n: int) -> int:
    return rng.choice([1, 1, 2, 2, 3, 3, 4, 5, 7, n, n + 1, min(2 * n, 60), rng.randint(1, 40)])


def _bad_ints(rng: random.Random, n: int, lo: int, hi: int) -> list:
    pool = [-1, -2, -128, -129, -130, -127, -n, n, n + 1, 2 * n, 127, 128, 199, 200, 201, 255, 256, 257, 300, lo, hi,
            lo + 1, hi - 1, -2**31, 2**31, -2**63, 2**63 - 1, 2**63, 2**64 - 1] + [rng.randint(-130, 300) for _ in range(4)]
    return [v for v in pool if lo <= v <= hi and not 0 <= v < n]


def cases_for_enum(rng: random.Random, names: list, budget: int) -> list:
    n = len(names)
    out = []
    unk = unknown_names(rng, names)

    def idxs(k=None):
        return [rng.randrange(n) for _ in range(k if k is not None else _len(rng, n))]

    def spoil(items, bad):
        """put 1-2 bad items at the front / middle / end of a valid list"""
        items = list(items)
        for b in bad[:rng.choice([1, 1, 2])]:
            items.insert(rng.choice([0, len(items), rng.randint(0, len(items))]), b)
        return items

    aliased = [a for a, _ in getattr(names, "aliases", [])]
    while len(out) < budget:
        if aliased and rng.random() < 0.15:
            # an alias NAME among valid names (the code refuses it like an unknown name; not claimed either way)
            good = ["s" + name_tok(names[i]) for i in idxs(rng.choice([0, 1, 2, 4]))]
            out.append(_mk(names, rng.choice(["seq.list", "seq.tuple", "str.arr"]),
                           spoil(good, ["s" + name_tok(a) for a in rng.sample(aliased, min(2, len(aliased)))]), tags=("alias-name",)))
            continue
        if n > 200:
            cat = rng.choice(["names", "ints", "members", "badname", "badint", "sel", "dec", "cmp"])
        else:
            cat = rng.choice(["names"] * 4 + ["ints"] * 4 + ["members"] * 3 + ["badname"] * 3 + ["badint"] * 5 +
                             ["foreign"] * 3 + ["mixed"] * 2 + ["other"] * 2 + ["sel"] * 3 + ["cmp"] * 6 +
                             ["empty", "enc", "bool", "bigint", "dec", "dec", "twin", "zd"])
        if cat == "names":
            cont = rng.choice(["seq.list", "seq.tuple", "seq.deque", "str.arr", "str.arr", "str.wide", "str.strided"])
            mark = rng.choice(["s", "s", "S", "sS"]) if cont.startswith("seq") else "s"
            items = [rng.choice(mark) + name_tok(names[i]) for i in idxs()]
            out.append(_mk(names, cont, items, tags=("valid-names",)))
        elif cat == "ints":
            dt = rng.choice(INT_DTYPES + ["list", "tuple", "deque", "array"])
            if dt in ("list", "tuple", "deque", "array"):
                out.append(_mk(names, "seq." + dt, [f"i{i}" for i in idxs()], tags=("valid-ints",)))
            else:
                top = min(n - 1, RANGES[dt][1])
                k = _len(rng, n)
                vals = [rng.choice([0, top, rng.randint(0, top)]) for _ in range(k)]
                out.append(_mk(names, "int." + dt + rng.choice(["", "", ".strided"]), [f"i{v}" for v in vals], tags=("valid-ints",)))
        elif cat == "members":
            out.append(_mk(names, rng.choice(["seq.list", "seq.tuple", "seq.deque", "obj.arr", "obj.arr"]), [f"m{i}" for i in idxs()],
                           tags=("valid-members",)))
        elif cat == "sel":
            kind = rng.choice(["names", "ints", "members"])
            ix = idxs(rng.choice([1, 2, 3, 4, 5, 8, min(n, 30)]))
            if kind == "names":
                cont, items = rng.choice(["seq.list", "str.arr"]), ["s" + name_tok(names[i]) for i in ix]
            elif kind == "ints":
                cont, items = rng.choice(["seq.list", "int." + _dtype_holding(rng, max(ix))]), [f"i{i}" for i in ix]
            else:
                cont, items = rng.choice(["seq.list", "obj.arr"]), [f"m{i}" for i in ix]
            how = rng.choice(SELECTIONS)
            out.append(_mksel(names, cont, items, how, positions_of(how, len(ix), rng), tags=(kind,)))
        elif cat == "cmp":
            kind = rng.choice(["names", "ints", "members", "members", "empty", "enc", "encf"])
            ix = idxs(rng.choice([1, 1, 2, 3, 4, 5, 8, min(n, 30)]))
            if kind == "names":
                cont, items = rng.choice(["seq.list", "str.arr"]), ["s" + name_tok(names[i]) for i in ix]
            elif kind == "ints":
                cont, items = rng.choice(["seq.list", "int." + _dtype_holding(rng, max(ix))]), [f"i{i}" for i in ix]
            elif kind == "members":
                cont, items = rng.choice(["seq.list", "obj.arr"]), [f"m{i}" for i in ix]
            elif kind == "empty":
                cont, items, ix = rng.choice(["seq.list", "int.int64", "str.arr"]), [], []
            elif kind == "enc":
                cont, items = "enc.own", [f"i{i}" for i in ix]
            else:
                cont, items = "enc.foreign", [f"i{rng.randrange(n + 2)}" for _ in ix]
            r = rng.random()
            if r < 0.12:
                how, other = rng.choice(FORBIDDEN), rng.choice(["x:i1", f"x:m{rng.randrange(n)}", "E.own:" + show_list(ix), "N"])
            elif r < 0.22 and _simple_names(names) and len(ix) <= 200:
                how, other = rng.choice(["repr", "str"]), "-"
            else:
                how, other = rng.choice(["eq", "eq", "ne"]), random_operand(rng, n, len(ix))
                if other.startswith("C.") and kind in ("names", "ints", "members") and rng.random() < 0.6:
                    # comparison with a class: an array as long as its greatest index + 1 (numpy can broadcast), or of length 1
                    ln = rng.choice([1, rng.randint(1, min(n, 6)), rng.randint(1, min(n, 30))])
                    ix = [rng.randrange(ln) for _ in range(ln - 1)] + [ln - 1] if rng.random() < 0.8 else [rng.randrange(n)]
                    rng.shuffle(ix)
                    items = [{"names": "s" + name_tok(names[i]), "ints": f"i{i}", "members": f"m{i}"}[kind] for i in ix]
                    if cont.startswith("int."):
                        cont = "int.int64"
            out.append(_mkcmp(names, cont, items, how, other, claimed=kind != "encf", tags=(kind,)))
        elif cat == "zd":
            what = rng.choice(["int", "int", "badint", "str", "obj", "float"])
            if what == "int":
                dt = rng.choice(INT_DTYPES)
                out.append(_mk(names, "zd." + dt, [f"i{rng.randint(0, min(n - 1, RANGES[dt][1]))}"], tags=("zero-dim",)))
            elif what == "badint":
                out.append(_mk(names, "zd.int64", [f"i{rng.choice([-1, n, 255])}"], tags=("zero-dim",)))
            elif what == "str":
                out.append(_mk(names, "zd.str", ["s" + name_tok(rng.choice(names))], tags=("zero-dim",)))
            elif what == "obj":
                out.append(_mk(names, "zd.obj", [f"m{rng.randrange(n)}"], tags=("zero-dim",)))
            else:
                out.append(_mk(names, "zd.float64", ["o.float"], tags=("zero-dim",)))
        elif cat == "badname":
            good = ["s" + name_tok(names[i]) for i in idxs(rng.choice([0, 1, 2, 5, n]))]
            bad = ["s" + name_tok(u) for u in rng.sample(unk, min(2, len(unk)))]
            out.append(_mk(names, rng.choice(["seq.list", "seq.tuple", "seq.deque", "str.arr", "str.arr", "str.wide", "str.strided"]),
                           spoil(good, bad), tags=("bad-name",)))
        elif cat == "badint":
            dt = rng.choice(INT_DTYPES + ["list", "list", "tuple", "deque", "array"])
            lo, hi = RANGES[dt] if dt in RANGES else (RANGES["int64"] if dt == "array" else (-2**63, 2**64 - 1))
            bads = _bad_ints(rng, n, lo, hi)
            if not bads:
                continue
            rng.shuffle(bads)
            top = min(n - 1, hi)
            good = [f"i{rng.randint(0, top)}" for _ in range(rng.choice([0, 1, 2, 5, n]))]
            cont = "int." + dt + rng.choice(["", "", ".strided"]) if dt in RANGES else "seq." + dt
            out.append(_mk(names, cont, spoil(good, [f"i{b}" for b in bads]), tags=("bad-int", "neg" if bads[0] < 0 else "big")))
        elif cat == "foreign":
            shape = rng.choice(["all", "own-first", "foreign-first", "middle"])
            k = rng.choice([1, 2, 3, 5])
            fo = [f"f{rng.choice([0, n - 1, n, n + 1, rng.randrange(n + 2)])}" for _ in range(k)]
            own = [f"m{i}" for i in idxs(rng.choice([1, 2, 4]))]
            items = {"all": fo, "own-first": own + fo, "foreign-first": fo + own, "middle": own + fo + own}[shape]
            out.append(_mk(names, rng.choice(["seq.list", "seq.tuple", "obj.arr", "obj.arr"]), items, tags=("foreign", shape)))
        elif cat == "twin":
            k = rng.choice([1, 2, 3])
            tw = [f"g{rng.choice([0, n - 1, n, n + 1])}" for _ in range(k)]
            own = [f"m{i}" for i in idxs(rng.choice([0, 1, 2]))]
            out.append(_mk(names, rng.choice(["seq.list", "obj.arr"]), own + tw, tags=("same-name-twin",)))
        elif cat == "mixed":
            pool = [lambda: f"i{rng.randrange(n)}", lambda: "s" + name_tok(rng.choice(names)), lambda: f"m{rng.randrange(n)}",
                    lambda: "o." + rng.choice(OTHER_ELEMS), lambda: f"f{rng.randrange(n + 2)}", lambda: f"i{rng.choice([-1, n])}"]
            k = rng.choice([2, 2, 3, 4, 6])
            makers = rng.sample(pool[:3], 2) + [rng.choice(pool) for _ in range(k - 2)]
            rng.shuffle(makers)
            out.append(_mk(names, rng.choice(["seq.list", "seq.tuple", "obj.arr"]), [m() for m in makers], tags=("mixed",)))
            if rng.random() < 0.3:   # homogeneous names / integers inside an object array
                items = [f"i{i}" for i in idxs(2)] if rng.random() < 0.5 else ["s" + name_tok(names[i]) for i in idxs(2)]
                out.append(_mk(names, "obj.arr", items, tags=("obj-of-raw",)))
        elif cat == "other":
            if rng.random() < 0.5:
                k = rng.choice([1, 2, 3])
                out.append(_mk(names, "oth." + rng.choice(OTH_DTYPES), ["o"] * k, tags=("other-dtype",)))
            else:
                items = ["o." + rng.choice(OTHER_ELEMS) for _ in range(rng.choice([1, 2, 3]))]
                out.append(_mk(names, rng.choice(["seq.list", "seq.tuple", "obj.arr"]), items, tags=("other-elem",)))
        elif cat == "empty":
            cont = rng.choice(["seq.list", "seq.tuple", "str.arr", "obj.arr", "enc.own"] + ["int." + d for d in INT_DTYPES] +
                              ["oth." + d for d in OTH_DTYPES])
            out.append(_mk(names, cont, [], tags=("empty",)))
        elif cat == "enc":
            r = rng.random()
            if r < 0.6:
                ix = idxs()
                out.append(_mk(names, "enc.own." + _dtype_holding(rng, max(ix)), [f"i{i}" for i in ix], tags=("encoded",)))
            elif r < 0.8 and n < 255:
                items = [f"i{i}" for i in idxs(2)] + [f"i{rng.choice([n, 255, rng.randint(n, 255)])}"]
                out.append(_mk(names, "enc.own", items, claimed=False, tags=("encoded-handmade-invalid",)))
            else:
                out.append(_mk(names, "enc.foreign", [f"i{rng.randrange(n + 2)}" for _ in range(rng.choice([1, 3]))],
                               claimed=False, tags=("encoded-foreign",)))
        elif cat == "bool":
            items = [rng.choice(["i0.b", "i1.b", f"i{rng.randrange(n)}"]) for _ in range(rng.choice([1, 2, 3]))]
            out.append(_mk(names, "seq.list", items, claimed=False, tags=("bool",)))
        elif cat == "bigint":
            items = [f"i{rng.choice([2**64, 2**70, -2**70, -2**63 - 1, 2**63, -2**63])}"] + [f"i{i}" for i in idxs(rng.choice([0, 1, 2]))]
            rng.shuffle(items)
            out.append(_mk(names, "seq.list", items, claimed=False, tags=("bigint",)))
        elif cat == "dec":
            if rng.random() < 0.8 or n >= 255:
                ix = idxs()
                dt = _dtype_holding(rng, max(ix))
                if rng.random() < 0.15:
                    out.append(_mkdec(names, ix[:1], dtype=dt + ".0d"))
                else:
                    out.append(_mkdec(names, ix, dtype=rng.choice([None, dt]) if max(ix) <= 255 else dt))
            else:
                out.append(_mkdec(names, idxs(2) + [rng.choice([n, 255])], claimed=False))
    if n > 200:                 # outside the property's quantifier: answered, never binding
        for c in out:
            c.claimed = False
            c.tags += ("n>200",)
    return out


SIZES = [1, 1, 2, 2, 3, 3, 4, 5, 6, 7, 8, 9, 10, 13, 16, 17, 26, 31, 32, 33, 50, 64, 100, 127, 128, 129, 150, 199, 200]


def generate(rng: random.Random, tier: str):
    total = 40000 if tier == "quick" else 200000
    per_enum = 24
    out = []
    while len(out) < total:
        n = rng.choice(SIZES + [rng.randint(1, 200)])
        if rng.random() < 0.015:
            n = rng.choice([201, 255, 256, 257, 300])
        names = gen_names(rng, n)
        if rng.random() < 0.15:
            names = with_aliases(rng, names)
        out += cases_for_enum(rng, names, per_enum)
    return out[:total]


# --------------------------------------------------------------------------------------
# exhaustive part: every enumeration size n <= 4, every input of length <= 3


def _elem_universe(names: list) -> list:
    n = len(names)
    unk = "zz" if "zz" not in names else "zzz"
    return ([f"i{v}" for v in range(-1, n + 1)] + ["s" + name_tok(s) for s in names] + ["s" + name_tok(unk)] +
            [f"m{k}" for k in range(n)] + [f"f{0}", f"f{n}"] + ["o.float"])


def enumerate_thorough():
    out = []
    base = ["b", "a", "d", "c"]
    rng_ops = random.Random(151)
    for n in range(1, 5):
        names = base[:n]
        uni = _elem_universe(names)
        for L in range(0, 4):
            for combo in itertools.product(uni, repeat=L):
                out.append(_mk(names, "seq.list", combo, tags=("enum",)))
                out.append(_mk(names, "obj.arr", combo, tags=("enum",)))
        # every declaration order of the names: all name inputs (valid and unknown)
        for order in itertools.permutations(sorted(names)):
            order = list(order)
            strs = ["s" + name_tok(s) for s in order] + ["s" + name_tok("bb"), "s"]
            for L in range(0, 4):
                for combo in itertools.product(strs, repeat=L):
                    out.append(_mk(order, "str.arr", combo, tags=("enum",)))
                    if order != names:
                        out.append(_mk(order, "seq.tuple", combo, tags=("enum",)))
        # integer arrays of every dtype
        for dt in INT_DTYPES:
            lo, hi = RANGES[dt]
            vals = [v for v in sorted({lo, hi, -129, -128, -1, 0, 1, 2, 3, 4, 5, 127, 255}) if lo <= v <= hi]
            for L in range(0, 4):
                for combo in itertools.product(vals, repeat=L):
                    out.append(_mk(names, "int." + dt, [f"i{v}" for v in combo], tags=("enum",)))
        for dt in OTH_DTYPES:
            for L in range(0, 4):
                out.append(_mk(names, "oth." + dt, ["o"] * L, tags=("enum",)))
        rsel = random.Random(15)
        for L in range(0, 4):
            for combo in itertools.product(range(n), repeat=L):
                out.append(_mk(names, "enc.own", [f"i{v}" for v in combo], tags=("enum",)))
                out.append(_mkdec(names, list(combo)))
                for dt in ("int8", "int16", "uint64"):
                    out.append(_mkdec(names, list(combo), dtype=dt))
                    out.append(_mk(names, "enc.own." + dt, [f"i{v}" for v in combo], tags=("enum",)))
                if L:
                    for how in sorted(set(SELECTIONS)):
                        out.append(_mksel(names, "obj.arr", [f"m{v}" for v in combo], how, positions_of(how, L, rsel), tags=("enum",)))
        # operators: every encoded array of length <= 3 x every operand of a small universe
        operands = (["N", "C.own", "C.twin", "C.foreign", "x:o.float", "x:s" + name_tok(names[0]), "x:i-1", f"x:i{n}", f"x:f0", f"x:f{n}", "x:g0"] +
                    [f"x:m{k}" for k in range(n)] + [f"x:i{k}" for k in range(n)] +
                    ["L.list:-", "L.list:0", "L.tuple:0,0", "L.int8:0,-1", f"L.int64:{n - 1},0,0", "L.list:0,1,2,3", "B.str:1", "B.strarr:2", "B.mem:3", "B.none:0",
                     "E.own:-", "E.own:0", f"E.own:{n - 1},0", "E.own:0,0,0", f"E.foreign:{n}", "E.foreign:0,1"])
        for L in range(0, 4):
            for combo in itertools.product(range(n), repeat=L):
                items = [f"m{v}" for v in combo]
                for other in operands:
                    out.append(_mkcmp(names, "seq.list", items, "eq", other, tags=("enum",)))
                    out.append(_mkcmp(names, "obj.arr", items, "ne", other, tags=("enum",)))
                for how in FORBIDDEN:
                    out.append(_mkcmp(names, "seq.list", items, how, rng_ops.choice(operands), tags=("enum",)))
                out.append(_mkcmp(names, "seq.list", items, "repr", "-", tags=("enum",)))
                out.append(_mkcmp(names, "seq.list", items, "str", "-", tags=("enum",)))
        # the enumeration declared with aliases: every placement of one alias, and of two aliases, in the class body
        if n <= 3:
            decls = []
            for p1 in range(1, n + 1):                   # an alias declared after p1 canonical members
                for t1 in range(p1):
                    decls.append([(p1, t1)])
                    for p2 in range(p1, n + 1):
                        for t2 in range(p2):
                            decls.append([(p1, t1), (p2, t2)])
            for spec in decls:
                an = Names(names)
                decl = []
                for k in range(n + 1):
                    decl += [(f"al{j}", t) for j, (p_, t) in enumerate(spec) if p_ == k]
                    if k < n:
                        decl.append(names[k])
                an.decl = decl
                strs = ["s" + name_tok(s) for s in names] + ["s" + name_tok(a) for a, _ in an.aliases] + ["s" + name_tok("zz")]
                for L in range(1, 3):
                    for combo in itertools.product(strs, repeat=L):
                        out.append(_mk(an, rng_ops.choice(["seq.list", "str.arr"]), combo, tags=("enum",)))
                    for combo in itertools.product(range(n), repeat=L):
                        out.append(_mk(an, rng_ops.choice(["seq.list", "obj.arr"]), [f"m{v}" for v in combo], tags=("enum",)))
                        out.append(_mkdec(an, list(combo)))
                        out.append(_mkcmp(an, "seq.list", [f"m{v}" for v in combo], "eq", f"x:m{combo[0]}", tags=("enum",)))
                    for combo in itertools.product(range(-1, n + 1), repeat=L):
                        out.append(_mk(an, rng_ops.choice(["seq.list", "int.int8", "int.uint64"]), [f"i{v}" for v in combo if v >= 0 or True], tags=("enum",)))
        for item in _elem_universe(names):
            out.append(_mk(names, "zd." + {"i": "int64", "s": "str", "m": "obj", "f": "obj", "o": "float64"}[item[0]], [item], tags=("enum",)))
        for k in range(n):
            out.append(_mkdec(names, [k], dtype="int32.0d"))
    return out


# --------------------------------------------------------------------------------------
# regression corpus: minimal failing inputs of F-C15 (fixed) and F-C15b (open)


def corpus():
    three = ["b", "a", "c"]
    out = [
        _mk(three, "seq.list", ["i-1"], tags=("F-C15",)),                 # -> index 255 on the unrepaired tree
        _mk(three, "int.int8", ["i-1"], tags=("F-C15",)),
        _mk(three, "int.int64", [f"i{-2**63}"], tags=("F-C15",)),        # -> index 0
        _mk(three, "int.int16", ["i1", "i-256"], tags=("F-C15",)),
        _mk(three, "seq.list", ["f1", "f3"], tags=("F-C15",)),            # foreign members encoded by index
        _mk(three, "seq.list", ["m1", "f3"], tags=("F-C15",)),
        _mk(three, "seq.tuple", ["f0"], tags=("F-C15",)),
        _mk(three, "obj.arr", ["m1", "f3"], tags=("F-C15",)),             # only the first element's class was checked
        _mk(three, "obj.arr", ["m0", "m2", "f0"], tags=("F-C15",)),
        _mk(three, "obj.arr", ["f0", "m1"], tags=("F-C15",)),             # rejected on both trees
        _mk(three, "obj.arr", ["m0", "s61"], tags=("F-C15",)),            # unrepaired: TypeError, still an error
        _mk(["a"], "seq.list", ["g1"], tags=("F-C15b",)),                # same class name: open finding
        _mk(three, "obj.arr", ["g3", "g0"], tags=("F-C15b",)),
        _mk(three, "seq.list", ["m0", "g1"], tags=("F-C15b",)),
        _mk(three, "seq.list", ["s63", "s61", "s62", "s61"]),
        _mk(three, "str.arr", ["s63", "s61", "s7a"]),
        _mk(three, "seq.list", ["s61", "i0"]),
        _mk(three, "seq.list", []),
        _mk(three, "oth.float64", []),
        _mk(three, "oth.float64", ["o"]),
        _mk(three, "enc.own", ["i2", "i0"]),
        _mk([f"m{j}" for j in range(199, -1, -1)], "int.uint8", ["i199", "i200", "i0"]),
        _mk([f"m{j}" for j in range(200)], "str.arr", ["s" + name_tok("m10"), "s" + name_tok("m2"), "s" + name_tok("m199")]),
        _mkdec(three, [2, 0, 1]),
        _mkdec(three, [2, 0, 1], dtype="int16"),
        _mkdec(three, [2], dtype="int64.0d"),
        _mk(three, "enc.own.int16", ["i2", "i0"]),
        _mk(three, "zd.int64", ["i1"]),
        _mk(three, "zd.str", ["s61"]),
        _mk(three, "seq.deque", ["S61", "s63"]),
        _mk(three, "seq.array", ["i2", "i0"]),
        _mk(three, "seq.array", ["i2", "i-1"]),
        _mk(three, "int.int16.strided", ["i2", "i0", "i1"]),
        _mk(three, "str.strided", ["s63", "s61"]),
        _mk(three, "seq.list", ["o.bytes"]),
        _mk(three, "oth.bytes", ["o"]),
        _mk(["a", "\u0430", "A", "\u0391", "e\u0301", "\u00e9", "\u2126", "\u03a9", "\u212a", "K"], "str.arr",
            ["s" + name_tok(x) for x in ["\u0430", "a", "\u03a9", "\u2126", "\u00e9", "e\u0301", "K", "\u212a"]]),
        _mk(["a", "\u0430"], "seq.list", ["s" + name_tok("\u0251")]),
        _mksel(three, "seq.list", ["s63", "s61", "s62", "s61"], "fancy", [3, 3, 0]),
        _mksel(three, "seq.list", ["s63", "s61", "s62", "s61"], "mask", [0, 2]),
        _mksel(three, "obj.arr", ["m2", "m1", "m0"], "rev", [2, 1, 0]),
        _mksel(three, "int.int8", ["i2", "i1", "i0"], "slice_1_n_n", [1, 2]),
        _mksel(three, "int.int8", ["i2", "i1", "i0"], "view", [0, 1, 2]),
        _mksel(three, "int.int8", ["i2", "i1", "i0"], "item0d", [1]),
        # aliases: A = 'first'; B = 'first' (alias of A); C; D; E -- the members are A, C, D, E with indices 0..3
    ] + _alias_corpus() + [
        # operators (what formulas write: housing == Housing.owner)
        _mkcmp(three, "seq.list", ["s63", "s61", "s63"], "eq", "x:m2"),
        _mkcmp(three, "seq.list", ["s63", "s61", "s63"], "ne", "x:m2"),
        _mkcmp(three, "seq.list", ["s63", "s61", "s63"], "eq", "x:f2"),
        _mkcmp(three, "seq.list", ["s63", "s61", "s63"], "eq", "x:g2"),
        _mkcmp(three, "seq.list", ["s63", "s61", "s63"], "eq", "x:i2"),
        _mkcmp(three, "seq.list", ["s63", "s61", "s63"], "eq", "x:s63"),
        _mkcmp(three, "seq.list", ["s63", "s61", "s63"], "eq", "C.own"),
        _mkcmp(three, "seq.list", ["s63", "s61", "s62"], "ne", "C.own"),
        _mkcmp(three, "seq.list", ["s61"], "eq", "C.own"),
        _mkcmp(three, "seq.list", ["s63", "s61", "s63"], "eq", "C.twin"),
        _mkcmp(three, "seq.list", ["s63", "s61", "s63"], "eq", "C.foreign"),
        _mkcmp(three, "seq.list", ["s63", "s61", "s63", "s61", "s61"], "ne", "C.foreign"),
        _mkcmp(three, "seq.list", [], "eq", "C.own"),
        _mkcmp(three, "seq.list", ["s63", "s61", "s63"], "eq", "N"),
        _mkcmp(three, "seq.list", ["s63", "s61", "s63"], "ne", "N"),
        _mkcmp(three, "seq.list", ["s63", "s61", "s63"], "eq", "L.list:2,1,2"),
        _mkcmp(three, "seq.list", ["s63", "s61", "s63"], "eq", "L.list:2,1"),
        _mkcmp(three, "seq.list", ["s63", "s61", "s63"], "eq", "L.int8:2"),
        _mkcmp(three, "seq.list", ["s63", "s61", "s63"], "eq", "B.mem:3"),
        _mkcmp(three, "seq.list", ["s63", "s61", "s63"], "eq", "B.str:2"),
        _mkcmp(three, "seq.list", ["s63", "s61", "s63"], "eq", "E.own:2,2,2"),
        _mkcmp(three, "seq.list", ["s63", "s61", "s63"], "eq", "E.foreign:2,4,2"),
        _mkcmp(three, "seq.list", ["s63", "s61", "s63"], "ne", "E.own:1"),
        _mkcmp(three, "seq.list", ["s63", "s61", "s63"], "repr", "-"),
        _mkcmp(three, "seq.list", ["s63", "s61", "s63"], "str", "-"),
    ] + [_mkcmp(three, "seq.list", ["s63", "s61"], how, "x:i1") for how in FORBIDDEN] + [
        _mkcmp(three, "obj.arr", ["m2", "m1"], how, "E.own:2,1") for how in FORBIDDEN]
    return out


def _alias_corpus():
    an = Names(["A", "C", "D", "E"])
    an.decl = ["A", ("B", 0), "C", "D", "E"]
    last = Names(["b", "a", "c"])
    last.decl = ["b", "a", "c", ("z", 2)]
    several = Names(["b", "a", "c"])
    several.decl = ["b", ("b1", 0), ("b2", 0), "a", ("a1", 1), "c", ("b3", 0)]
    S = lambda *xs: ["s" + name_tok(x) for x in xs]
    out = [
        _mk(an, "seq.list", S("E", "D", "C", "A", "A", "C")),
        _mk(an, "str.arr", S("E", "D", "C", "A")),
        _mk(an, "seq.list", ["m3", "m2", "m1", "m0", "m0", "m1"]),
        _mk(an, "obj.arr", ["m3", "m2", "m1", "m0"]),
        _mk(an, "seq.list", ["m0", "m1"], payload={}),                     # fetched by their own names
        _mk(an, "seq.list", ["i3", "i2", "i1", "i0"]),
        _mk(an, "int.uint8", ["i3", "i0"]),
        _mk(an, "seq.list", ["i0", "i4"]),
        _mk(an, "seq.list", S("C")),
        _mk(an, "seq.list", S("B")),                                        # an alias name
        _mk(an, "seq.list", S("A", "B")),
        _mkdec(an, [3, 2, 1, 0]),
        _mkcmp(an, "seq.list", S("E", "C", "E"), "eq", "x:m3"),
        _mksel(an, "seq.list", S("E", "D", "C", "A"), "rev", [3, 2, 1, 0]),
        _mk(last, "seq.list", S("c", "a", "b")),
        _mk(last, "seq.list", S("z")),                                      # an alias declared last
        _mk(last, "str.arr", S("c", "z")),
        _mk(last, "seq.list", ["m2", "m0"]),
        _mk(several, "seq.list", S("c", "a", "b")),
        _mk(several, "seq.list", ["m2", "m1", "m0"]),
        _mk(several, "obj.arr", ["m1", "m2"]),
        _mk(several, "seq.list", S("b3", "c")),
        _mk(several, "seq.list", ["i2", "i1", "i0"]),
        _mk(several, "seq.list", ["i3"]),
    ]
    return out


def neighbours(case: Case):
    f = case.line.split()
    if f[1] != "enc":
        return []
    f = f[:5]
    items = read_list(f[4])
    out = []
    for j in range(len(items)):
        out.append(Case(line=" ".join(f[:4] + [show_list(items[:j] + items[j + 1:])]), tags=("neighbour",)))
        if items[j][0] == "i" and "." not in items[j] and not f[3].startswith(("int.", "enc.")):
            for d in (-1, 1):
                out.append(Case(line=" ".join(f[:4] + [show_list(items[:j] + [f"i{int(items[j][1:]) + d}"] + items[j + 1:])]),
                                tags=("neighbour",)))
    for j in range(len(items)):
        out.append(Case(line=" ".join(f[:4] + [items[j]]), tags=("neighbour",)))
    return out


PROP = Prop(
    pid="C15",
    lean_targets=["OFCore.Props.C15"],
    driver="ofdrv_enm",
    generate=generate, impl=impl, oracle=oracle, nontrivial=nontrivial,
    corpus=corpus, enumerate_thorough=enumerate_thorough, neighbours=neighbours,
    extra_lean_files=["OFCore/EnumCodec.lean", "OFCore/Lemmas/EnumCodec.lean", "OFCore/Drv/Enm.lean"],
    rule=("lines `enm enc <names> <container> <items>`: real Enum subclasses of 1..200 members created with "
          "Enum(name, {...}) (sizes drawn from a boundary pool 1,2,3,...,127,128,129,199,200 and uniformly; names m<k> "
          "shuffled, random 1-4 character names over an alphabet with upper/lower case, digits, blank, '-', accented, Greek, "
          "CJK and astral characters, prefix chains, sorted and reverse-sorted declaration orders); 15% of the enumerations are "
          "DECLARED WITH ALIASES (1-4 more names bound to an already used value: right after the first member, last, in the middle, "
          "several aliases of one value, an alias of the last member; members then fetched through an alias name E[alias], "
          "and alias NAMES given as input: refused by the code, mirrored by the model, not claimed); 24 inputs per "
          "enumeration: lists, tuples, numpy arrays of the eight integer dtypes, str_ and object arrays of valid names / "
          "indices / members (lengths 1..60), near-miss unknown names, integers from -130..300 plus dtype limits and "
          "n, n+1, 255, 256, members of a second enumeration (all / after an own first element / first / in the middle), "
          "mixed kinds, unsupported element types and dtypes, empty inputs of every container, EnumArrays. Compared: the "
          "encoded indices or ERR, decode(), decode_to_str(), encode(result), encode(asarray(result)); after these observations a "
          "numpy INPUT array is overwritten in place (integers + 1, names emptied, objects set to None) and the encoded array is "
          "read again: it must still hold what was encoded (not be a view of its input). 15% of the inputs are "
          "`enm cmp` lines: an operator of EnumArray applied to the encoded array (of names / indices / members, empty, a hand-made "
          "EnumArray, an EnumArray of another enumeration): == and != against a member (own, of a same-name twin, of another "
          "enumeration), an int (in and out of range, negative, 255, 256, 300), a str, a float, None, the enumeration class (own / twin / "
          "other; arrays as long as their greatest index + 1 so that numpy can broadcast), lists / tuples / int8 / int64 / uint8 arrays of "
          "integers of equal, unit, zero and mismatching lengths, lists of strings / members / None, EnumArrays of either enumeration; "
          "the eight forbidden operators (+ * < <= > >= & |) with every kind of operand; repr() and str() read back into members / names "
          "(enumerations with plain ASCII names). Oracle on these: == / != against an own member and against an own EnumArray of the same "
          "length is the pointwise test on the designated members; repr / str show the designated members. A case is "
          "non-trivial when the input is not empty; distinct = distinct protocol lines."),
    assumptions=[
        "numpy primitives used by the code (asarray, boolean mask, isin, argsort, searchsorted, astype, fancy indexing) are modelled (filter / insertion sort / leftmost binary search / list indexing), tied by this correspondence",
        "the integer width of EnumDType (uint8) is not modelled: enumerations have at most 200 members (property quantifier), where astype(uint8) is the identity",
        "claim domain: valid inputs, and whether an invalid input errs (not which error class); hand-made EnumArrays, EnumArrays of another enumeration, bool elements and integers beyond 64 bits are answered but not binding",
        "the class test cls == item.__class__ compares classes by the identity of their name (EnumType.__eq__): the foreign enumeration F has another class name; a different enumeration declared under the same name is finding F-C15b",
        "strings are compared by code point (numpy str_ order); names never end with NUL",
        "aliases: the members of an enumeration are its canonical members (Python's enum semantics: a second name bound to a used value creates no member); whether an alias NAME is a 'valid member name' for encode is not decided by the statement: the code refuses it, the model mirrors it, the oracle only requires that no index outside the members is produced",
        "operators: numpy's broadcasting of 1-d operands and its element-wise comparison of an integer array with integers / strings / objects are modelled (bcastEq, bcastLen); an EnumArray without possible_values, 0-d EnumArrays and the reflected / non-forbidden arithmetic operators (1 + a, a - 1, ~a) are not modelled",
    ],
    exhaustive_note=("thorough: every enumeration size n <= 4 and every list / object array of length <= 3 over the element "
                     "universe {-1..n, every name, an unknown name, every member, two foreign members, a float}; every "
                     "declaration order of the names x every str_ array / tuple of names of length <= 3; every integer dtype "
                     "x every array of length <= 3 over {dtype limits, -129, -128, -1..5, 127, 255}; other dtypes; EnumArrays"),
)
