"""C11 — each entity's result is independent of the other entities simulated with it.

One case = one rule system + one MERGED population made of 2-3 unrelated situations (their persons
and households interleaved in a random order) + a list of *selections* of it:

    merge          one situation (or the union of two), in merged order
    permute        the whole merged population, persons and households listed in another order
    permuted-part  one situation, its persons and households listed in another order

The real side builds one real simulation per selection — through the real situation builder
(`SimulationBuilder.build_from_entities`, values written entity by entity in the document, so that
the builder's index assignment is exercised), or, in the `direct` stream, by setting counts,
memberships and input arrays by hand — and runs the same requests on each.  The oracle states the
property: what the merged simulation returns, read at the part's persons / households, is what
the part returns alone (values and error classes).  The model (`ofdrv_eqv`) answers the same
merged and per-part results and must agree line by line.
"""
from __future__ import annotations

import datetime as dt
import pickle
import random

import numpy as np
from dataclasses import dataclass, field

from ..core import Case, Prop
from .. import rulesys as rs
from ..perutil import parse_period_token


@dataclass
class EqvCase:
    case: rs.SysCase                     # the merged simulation (population, inputs, requests)
    pids: list                           # person ids, merged order
    gids: list                           # household ids, merged order
    sels: list                           # [(kind, sel, gsel)]
    direct: bool = False                 # build the simulations by hand instead of through the builder
    member_seed: int = 0                 # order of the member lists inside the households of the document
    holes: list = field(default_factory=list)   # [(input number, [entity indices that carry NO value in the document])]
    own: dict = field(default_factory=dict)     # {household index: person index}: households that are NOT in the document -- the
                                                # person is listed in no household and the builder appends a household of its own
    psit: list = field(default_factory=list)    # situation of each person / household (period spellings differ between situations)
    gsit: list = field(default_factory=list)
    absent: list = field(default_factory=list)  # [(input number, [entity indices])]: a variable WITHOUT formula for which these entities
                                                # declare nothing (or null): they read the default, alone and together
    direct_mode: str = "manual"                 # direct stream: manual | norole (members_role left to its default) | join (join_with_persons)
    int_ids: bool = False                       # document keys are Python ints (YAML-style), member lists name them as text
    short_form: bool = True                     # single household / person / variables-only spellings of a part's document when possible
    trace: bool = False                         # every simulation of the case runs with trace=True
    req_seed: int = 0                           # which requests pass their period as text
    divs: list = field(default_factory=list)    # [(variable, period token)]: calculate_divide, answered after the requests (oracle only)
    default_tok: str = ""                       # builder.set_default_period(...): values of that period are written bare (no period key)


# --------------------------------------------------------------------------------------
# protocol line


def to_line(e: EqvCase) -> str:
    t = ["eqv", rs.to_line(e.case)[len("sim "):], "S", str(len(e.sels))]
    for _, sel, gsel in e.sels:
        t += [str(len(sel))] + [str(i) for i in sel] + [str(len(gsel))] + [str(g) for g in gsel]
    return " ".join(t)


def _case(e: EqvCase, tags=(), claimed=True) -> Case:
    return Case(line=to_line(e), payload=pickle.dumps(e).hex(), tags=tuple(tags), claimed=claimed)


# --------------------------------------------------------------------------------------
# the real side


def is_closed(c: rs.SysCase, sel, gsel) -> bool:
    """a person is kept iff its household is kept (and indices are valid, without repetition)"""
    if len(set(sel)) != len(sel) or len(set(gsel)) != len(gsel):
        return False
    if any(not 0 <= i < c.nP for i in sel) or any(not 0 <= g < c.nG for g in gsel):
        return False
    return all((i in sel) == (c.mem[i] in gsel) for i in range(c.nP))


def _doc_value(var: rs.Var, x: int):
    if var.vtype == "enum":
        return f"m{x}"
    if var.vtype == "date":
        return dt.date.fromordinal(x).isoformat()
    if var.vtype == "str":
        return f"s{x}"
    if var.vtype == "bool":
        return bool(x)
    if var.vtype == "float":
        return float(x)
    return int(x)


def _role_plural(variant: int, r: int) -> str:
    """key under which a person holding flattened role r is listed in a household of the document"""
    if variant == 0:
        return rs.ROLES[r]["plural"]
    return ["parents", "parents", "members", "heads"][r]


def _role_table(variant: int):
    """-> (number of flattened roles, the head role, roles held by at most one person, the unbounded role)"""
    return (3, 2, [2], 0) if variant == 0 else (4, 3, [0, 1, 3], 2)


def _gid(e: EqvCase, g: int) -> str:
    """id of household g: its declared id, or (own household appended by the builder) its person's id"""
    own = getattr(e, "own", None) or {}
    return e.pids[own[g]] if g in own else e.gids[g]


def _spell(tok: str, k: int) -> str:
    """the k-th spelling of a period key (all denote the same period, hence the same input slot)"""
    u = tok.split("/")[0]
    canon = str(parse_period_token(tok))
    alts = ["ETERNITY", "eternity"] if u == "eternity" else [canon, f"{u}:{canon}", f"{u}:{canon}:1"]
    return alts[k % len(alts)]


def document(e: EqvCase, sel, gsel):
    """the situation made of the persons `sel` and the households `gsel`, in that order, as the
    JSON-like document the web API / YAML tests / `build_from_dict` take.  A household lists
    ALL the members it has in the merged population (for a closed selection: the kept ones), each
    under its role.  Households of `e.own` are not written: their person is listed nowhere.
    Every situation writes its period keys in its own spelling.
    -> (document, expected person ids or None, expected household ids)"""
    c = e.case
    own = getattr(e, "own", None) or {}
    roles = list(getattr(c, "roles", None) or [0] * c.nP)
    variant = getattr(c, "role_variant", 0)
    psit = getattr(e, "psit", None) or [0] * c.nP
    gsit = getattr(e, "gsit", None) or [0] * c.nG
    int_ids = getattr(e, "int_ids", False)
    rng = random.Random(e.member_seed)
    key = (lambda x: int(x)) if int_ids else (lambda x: x)
    persons = {key(e.pids[i]): {} for i in sel}
    households = {}
    for g in gsel:
        if g in own:
            continue
        h = {}
        members = [i for i in range(c.nP) if c.mem[i] == g]
        rng.shuffle(members)
        # the builder gives the k-th person listed under a role with sub-roles the k-th sub-role: flattened order
        for i in sorted(members, key=lambda i: roles[i]) if variant else members:
            h.setdefault(_role_plural(variant, roles[i]), []).append(str(e.pids[i]))
        if not members and rng.random() < 0.5:
            h["members"] = []
        households[key(e.gids[g])] = h
    holes = {k: set(idx) for k, idx in e.holes}
    absent = {k: set(idx) for k, idx in (getattr(e, "absent", None) or [])}
    for k, (v, tok, vals) in enumerate(c.inputs):
        var = c.vars[v]
        skip = holes.get(k, ())
        gone = absent.get(k, ())
        for x, sit, target, ids in ([(i, psit[i], persons, e.pids) for i in sel] if var.entity == 0 else
                                    [(g, gsit[g], households, e.gids) for g in gsel if g not in own]):
            if x in skip:
                continue
            spelled = _spell(tok, e.member_seed + 7 * sit + k)
            if x in gone:
                if (e.member_seed + x + k) % 2:
                    target[key(ids[x])].setdefault(f"v{v}", {})[spelled] = None      # null: no value
                continue
            target[key(ids[x])].setdefault(f"v{v}", {})[spelled] = _doc_value(var, vals[x])
    dtok = getattr(e, "default_tok", "")
    if dtok:
        # an instance that gives a variable for the default period only writes the bare value
        dkeys = {_spell(dtok, j) for j in range(3)}
        for inst in list(persons.values()) + list(households.values()):
            for name, vals in list(inst.items()):
                if isinstance(vals, dict) and len(vals) == 1 and name.startswith("v"):
                    (q, x), = vals.items()
                    if q in dkeys and x is not None and (len(name) + len(q)) % 2:
                        inst[name] = x
    doc = {"persons": persons, "households": households}
    pids = [str(e.pids[i]) for i in sel]
    gids = [_gid(e, g) for g in gsel]
    if not households and rng.random() < 0.8:
        del doc["households"]                    # no household section at all: the builder's default-group path
    if getattr(e, "short_form", False):
        r = rng.random()
        if "households" not in doc and len(persons) == 1 and r < 0.4:
            # a single person and nothing else: the variables-only spelling ({"v3": {"2018-01": 5}})
            (only,) = persons.values()
            # (a null value is ignored in the entity spelling but not accepted by the variables-only one: left out)
            return {v: ({q: x for q, x in vals.items() if x is not None} if isinstance(vals, dict) else vals) for v, vals in only.items()
                    if not isinstance(vals, dict) or any(x is not None for x in vals.values())}, None, gids
        if len(households) == 1 and r < 0.4:
            (hid, h), = households.items()
            del doc["households"]
            doc["household"] = h                 # singular key: the household is called "household"
            gids = ["household" if x == str(hid) else x for x in gids]
            if len(persons) == 1 and r < 0.2 and not any("household" == str(q) for q in pids):
                (pid, pp), = persons.items()
                del doc["persons"]
                doc["person"] = pp
                for lst in h.values():
                    if isinstance(lst, list):
                        lst[:] = ["person" if q == str(pid) else q for q in lst]
                pids = ["person"]
                gids = ["person" if x == str(pid) else x for x in gids]       # (the household of its own, if it is listed nowhere)
    return doc, pids, gids


def restricted_case(c: rs.SysCase, sel, gsel) -> rs.SysCase:
    """the part as a population of its own (used by the `direct` stream)"""
    mem = [gsel.index(c.mem[i]) for i in sel]
    inputs = [(v, tok, [vals[i] for i in (sel if c.vars[v].entity == 0 else gsel)]) for v, tok, vals in c.inputs]
    roles = list(getattr(c, "roles", None) or [])
    return rs.SysCase(len(sel), len(gsel), mem, c.msl, c.vars, inputs, c.reqs, roles=[roles[i] for i in sel] if roles else [],
                      role_variant=getattr(c, "role_variant", 0))


def _run_requests(e: EqvCase, sim, ctx, gperm=None) -> tuple:
    """`gperm`: position in the simulation of each household of the selection (the builder appends
    the own households of unlisted persons in set-iteration order; household-level answers are
    read in the selection's order).  -> (request answers, calculate_divide answers)"""
    c = e.case
    ctx.armed.clear()
    if getattr(e, "trace", False):
        sim.trace = True
    outs = []
    for k, r in enumerate(c.reqs):
        if r[0] == "arm":
            ctx.armed.add(r[1]); outs.append("-"); continue
        if r[0] == "disarm":
            ctx.armed.discard(r[1]); outs.append("-"); continue
        kind, v, tok = r
        try:
            p = parse_period_token(tok)
            if (getattr(e, "req_seed", 0) + k) % 3 == 0:
                p = str(p)                # the period as text: same request
            res = sim.calculate(f"v{v}", p) if kind == "calc" else sim.calculate_add(f"v{v}", p)
            if gperm is not None and v < len(c.vars) and c.vars[v].entity != 0:
                res = res[gperm]
            o = "ok:" + rs.canon_array(res)
        except Exception as exc:          # the implementation's error, classified
            o = rs.classify(exc)
        if sim.tracer.stack or sim.invalidated_caches:
            o += "#STATE"
        outs.append(o)
    divs = []
    for v, tok in getattr(e, "divs", None) or []:
        try:
            p = parse_period_token(tok)
            res = sim.calculate_divide(f"v{v}", str(p) if (v + getattr(e, "req_seed", 0)) % 2 else p)
            if gperm is not None and c.vars[v].entity != 0:
                res = res[gperm]
            divs.append("ok:" + ",".join(repr(float(x) + 0.0) for x in np.asarray(res).tolist()))      # (-0.0 and 0.0 are the same value)
        except Exception as exc:
            divs.append(rs.classify(exc))
    ctx.armed.clear()
    return ";".join(outs), ";".join(divs)


def _set_inputs(part: rs.SysCase, sim, E5):
    sim.max_spiral_loops = part.msl
    for v, tok, vals in part.inputs:
        sim.set_input(f"v{v}", parse_period_token(tok), rs._input_array(part.vars[v], vals, E5))
    return sim


def _build_direct(e: EqvCase, part: rs.SysCase, pids, gids, tbs, E5):
    """the part as a simulation made by hand: `manual` (counts, members_entity_id, members_role),
    `norole` (members_role left unset when everybody holds the first role: its default),
    `join` (SimulationBuilder.declare_person_entity / declare_entity / join_with_persons: persons are
    attached to the declared households by identifier — text or integer identifiers, in any order,
    of any width, declared households without member in any position)"""
    from openfisca_core import simulations
    mode = getattr(e, "direct_mode", "manual")
    roles = list(part.roles or [0] * part.nP)
    if mode == "default" and part.nG == part.nP and part.mem == list(range(part.nP)) and not any(roles):
        # everybody alone in a household of its own, in order, holding the first role: SimulationBuilder.build_default_simulation
        sim = simulations.SimulationBuilder().build_default_simulation(tbs, part.nP)
        assert sim.household.count == part.nG and list(sim.household.members_entity_id) == part.mem
        return _set_inputs(part, sim, E5)
    if mode == "join":
        if getattr(e, "int_ids", False):
            pids, gids = [int(x) for x in pids], [int(x) for x in gids]
        b = simulations.SimulationBuilder()
        b.create_entities(tbs)
        b.declare_person_entity("person", pids)
        h = b.declare_entity("household", gids)
        flat = [r.key for r in h.entity.flattened_roles]
        b.join_with_persons(h, [gids[m] for m in part.mem], roles if e.member_seed % 2 else [flat[r] for r in roles])
        return _set_inputs(part, b.build(tbs), E5)
    if mode == "norole" and not any(roles):
        sim = simulations.Simulation(tbs, tbs.instantiate_entities())
        sim.persons.count, sim.persons.ids = part.nP, list(pids)
        sim.household.count, sim.household.ids = part.nG, list(gids)
        sim.household.members_entity_id = np.array(part.mem, dtype=np.int64)
        return _set_inputs(part, sim, E5)
    return rs.build_simulation(part, tbs, E5)


# --------------------------------------------------------------------------------------
# group-level stream: the order-dependent operations (value_nth_person, first person, get_rank), which the expression language
# does not have.  `eqv G <grp line body> S <k> {<n> persons… <m> groups…}`: the operation on the MERGED population and on every
# part (persons in merged order) built as a population of its own; real populations are built as in C10.


def is_grp(case: Case) -> bool:
    return case.line.startswith("eqv G ")


def grp_split(line: str):
    """-> (tokens of the grp line body, [(sel, gsel)])"""
    t = line.split()[2:]
    k = t.index("S")
    body, rest = t[:k], [int(x) for x in t[k + 1:]]
    sels, pos = [], 1
    for _ in range(rest[0]):
        n = rest[pos]; sel = rest[pos + 1:pos + 1 + n]; pos += 1 + n
        m = rest[pos]; gsel = rest[pos + 1:pos + 1 + m]; pos += 1 + m
        sels.append((sel, gsel))
    return body, sels


def grp_level(body) -> str:
    """does the operation answer per person ("p") or per group ("g")"""
    op = body[3]
    if op == "chain":
        return "p" if body[5] == "p" else "g"
    return "p" if op in ("rank", "project", "hasrole") else "g"


def grp_closed(body, sel, gsel) -> bool:
    from .. import grputil as G
    members = G.parse_members(body[2])
    n, count = len(members), int(body[1])
    if any(not 0 <= i < n for i in sel) or any(not 0 <= g < count for g in gsel) or len(set(gsel)) != len(gsel):
        return False
    if any(a >= b for a, b in zip(sel, sel[1:])):
        return False                                  # the part keeps the merged order of its persons
    return all((i in sel) == (members[i][0] in gsel) for i in range(n))


def grp_restrict(body, sel, gsel) -> str:
    """the grp line of the part simulated alone"""
    from .. import grputil as G
    roles, count, mtok, op, role, *args = body
    members = G.parse_members(mtok)
    ms = [(gsel.index(members[i][0]), members[i][1]) for i in sel]

    def re(tok, idx):
        kind, vals = G.parse_vals(tok)
        return G.fmt_vals(kind, [vals[i] for i in idx])

    def rargs(op, a):
        if op == "nth":
            return [a[0], a[1], re(a[2], sel)]
        if op == "rank":
            return [re(a[0], sel), re(a[1], sel)]
        if op == "from":
            return [a[0], re(a[1], sel)]
        if op == "project":
            return [re(a[0], gsel)]
        if op in ("nb", "hasrole"):
            return []
        return [re(a[0], sel)]
    if op == "chain":
        args = args[:3] + rargs(args[2], args[3:])
    else:
        args = rargs(op, args)
    return " ".join(["grp", roles, str(len(gsel)), G.fmt_members(ms), op, role, *args])


def impl_grp(case: Case) -> str:
    from . import c10
    body, sels = grp_split(case.line)
    pl = dict(case.payload.get("grp") or {})
    outs = [c10.impl(Case(line="grp " + " ".join(body), payload=pl))]
    for sel, gsel in sels:
        if not grp_closed(body, sel, gsel):
            outs.append("ERR")
            continue
        outs.append(c10.impl(Case(line=grp_restrict(body, sel, gsel), payload=pl)))
    return "~".join(outs)


def oracle_grp(case: Case, out: str):
    body, sels = grp_split(case.line)
    parts = out.split("~")
    if len(parts) != 1 + len(sels):
        return ("harness-shape", f"{len(parts)} answers for {1 + len(sels)} populations")
    merged = parts[0].split(",")
    level = grp_level(body)
    for (sel, gsel), part in zip(sels, parts[1:]):
        if not grp_closed(body, sel, gsel):
            continue
        idx = sel if level == "p" else gsel
        if parts[0] in ("ERR", "[]") or any(i >= len(merged) for i in idx):
            return ("merge-" + body[3], f"the merged population answered {parts[0]}")
        want = ",".join(merged[i] for i in idx) or "[]"
        if part != want:
            return ("merge-" + body[3],
                    f"{' '.join(body[3:6])}: merged population answered {parts[0][:200]}; read at the part persons={sel} groups={gsel} that is "
                    f"{want}; the part simulated alone (same persons in the same order) answered {part}")
    return None


def gen_grp_merge(rng: random.Random, small=False):
    """a merged population of 2-3 situations, 8-40 households of 1-4 members in all, persons and households interleaved at
    random; the order-dependent operations; every situation as a part (persons and households in merged order)"""
    from .. import grputil as G
    tok = G.DEFAULT_ROLES
    nH = rng.randint(2, 6) if small else rng.choice([8, 9, 12, 16, 17, 24, 33, 40, rng.randint(8, 40)])
    k = rng.choice([2, 2, 3])
    sit = [rng.randrange(k) for _ in range(nH)]
    for s_ in range(k):
        sit[s_ % nH] = s_
    sizes = [rng.choice([1, 2, 2, 3, 3, 4]) for _ in range(nH)]
    persons = [h for h in range(nH) for _ in range(sizes[h])]
    style = rng.random()
    if style < 0.7:
        rng.shuffle(persons)
    elif style < 0.85:
        persons.sort(key=lambda h: (sit[h], h))        # the situations one after the other, households contiguous
    horder = list(range(nH))
    rng.shuffle(horder)                               # position of each household in the merged population
    hpos = {h: j for j, h in enumerate(horder)}
    empties = [rng.randrange(k) for _ in range(rng.choice([0, 0, 1, 2]))]        # households without member (last ones)
    count = nH + len(empties)
    gsit = [sit[h] for h in horder] + empties
    held = {}
    members = []
    for h in persons:
        r = 2
        if held.get(h, 0) == 0 and rng.random() < 0.6:
            r = 3
        elif held.get(h, 0) == 1 and rng.random() < 0.4:
            r = 0
        held[h] = held.get(h, 0) + 1
        members.append((hpos[h], r))
    n = len(members)
    psit = [sit[h] for h in persons]
    sels = [([i for i in range(n) if psit[i] == s_], [g for g in range(count) if gsit[g] == s_]) for s_ in range(k)]
    sels = [x for x in sels if x[0]]
    if k == 3 and len(sels) == 3:
        keep = rng.sample(range(3), 2)
        sels.append(([i for i in range(n) if psit[i] in keep], [g for g in range(count) if gsit[g] in keep]))
    I = lambda v: G.fmt_vals("i", v)
    a = [rng.randint(-40, 40) for _ in range(n)]
    crit = rng.sample(range(-200, 201), n)
    cond = [rng.random() < 0.8 for _ in range(n)]
    ops = [("nth", "-", str(rng.choice([0, 1, 1, 2, 3])), "-7", I(a)), ("first", "-", I(a)), ("rank", "-", I(crit), G.fmt_vals("b", cond)),
           ("rank", "-", I(crit), G.fmt_vals("b", [True] * n)), ("chain", "-", "p", "h", "first", I(a)),
           ("chain", "-", "p", "h", "nth", "1", "0", I(a)), ("chain", "-", "g", "fp", "rank", I(crit), G.fmt_vals("b", cond)),
           ("max", rng.choice(["-", "t1"]), I(a)), ("positions_via_nth",)]
    # a wide range of magnitudes across households, a narrow one within: one person holds +-2**53, the other members of its household
    # 0, everybody else small integers: every household sum is exact in float64, alone and together
    big_i = rng.randrange(n)
    wide = [0 if members[i][0] == members[big_i][0] else rng.choice([1, -1, 3, 2, -3, 5, 7]) for i in range(n)]
    wide[big_i] = rng.choice([1, -1]) * rng.choice([2 ** 53, 2 ** 53, 2 ** 52 + 2 ** 30, 2 ** 40])
    wide_ops = [("sum", "-", I(wide)), ("chain", "-", "p", "h", "sum", I(wide))]
    out = []
    stail = ["S", str(len(sels))]
    for sel, gsel in sels:
        stail += [str(len(sel)), *map(str, sel), str(len(gsel)), *map(str, gsel)]
    for op in rng.sample(ops[:-1], 4) + ([rng.choice(wide_ops)] if rng.random() < 0.5 else []):
        line = " ".join(["eqv", "G", tok, str(count), G.fmt_members(members), *op, *stail])
        out.append(Case(line=line, payload={"grp": {"dtype": "float64" if op in wide_ops else rng.choice(["float64", "float32", "int64", "int32"])}},
                        tags=("grp-merge", op[0] if op[0] != "chain" else "chain-" + op[4], f"situations={k}", f"persons>16={n > 16}") +
                        (("wide-range-across-households",) if op in wide_ops else ())))
    return out


def impl(case: Case) -> str:
    if is_grp(case):
        return impl_grp(case)
    from openfisca_core import errors
    from openfisca_core.simulations import SimulationBuilder
    e: EqvCase = pickle.loads(bytes.fromhex(case.payload))
    c = e.case
    tbs, ctx, E5 = rs.build_system(c)
    outs, douts = [], []
    for kind, sel, gsel in [("whole", list(range(c.nP)), list(range(c.nG)))] + list(e.sels):
        gperm = None
        if e.direct:
            if not is_closed(c, sel, gsel):
                outs.append("ERR"); douts.append("")
                continue
            sim = _build_direct(e, restricted_case(c, sel, gsel), [str(e.pids[i]) for i in sel], [_gid(e, g) for g in gsel], tbs, E5)
        else:
            doc, pids, canon = document(e, sel, gsel)
            try:
                builder = SimulationBuilder()
                if getattr(e, "default_tok", ""):
                    builder.set_default_period(str(parse_period_token(e.default_tok)))
                sim = builder.build_from_dict(tbs, doc)
            except errors.SituationParsingError:
                outs.append("ERR"); douts.append("")
                continue
            sim.max_spiral_loops = c.msl
            ids = [str(x) for x in sim.household.ids]
            if pids is None:                     # variables-only document: one anonymous person in a household of its own
                ok = sim.persons.count == 1 and sim.household.count == 1
            else:
                ok = sorted(ids) == sorted(canon) and [str(x) for x in sim.persons.ids] == pids
                gperm = None
                if ok and (ids != canon or len(set(ids)) != len(ids)):
                    # declared households come first, in document order; the households appended for persons listed nowhere
                    # follow (set-iteration order) and bear their person's id -- which may ALSO be the id of a declared household
                    own_g = getattr(e, "own", None) or {}
                    n_decl = sum(1 for g in gsel if g not in own_g)
                    decl_ids, own_ids = ids[:n_decl], ids[n_decl:]
                    try:
                        gperm = [n_decl + own_ids.index(x) if g in own_g else decl_ids.index(x) for g, x in zip(gsel, canon)]
                        if gperm == list(range(len(gperm))):
                            gperm = None
                    except ValueError:
                        ok = False
            if not ok:
                outs.append("IDS"); douts.append("")   # the builder did not create the entities of the document
                continue
        o, d = _run_requests(e, sim, ctx, gperm)
        outs.append(o); douts.append(d)
    return "~".join(outs) + ("|D:" + "~".join(douts) if getattr(e, "divs", None) else "")



# --------------------------------------------------------------------------------------
# oracle: the statement itself


def _expected_part(merged_res: str, idx: list):
    """the merged answer read at the indices `idx` (None = the merged vector is too short)"""
    state = "#STATE" if merged_res.endswith("#STATE") else ""
    body = merged_res[:-len("#STATE")] if state else merged_res
    if not body.startswith("ok:"):
        return merged_res
    vals = body[3:].split(",") if body[3:] else []
    if any(i >= len(vals) for i in idx):
        return None
    return "ok:" + ",".join(vals[i] for i in idx) + state


def oracle(case: Case, out: str):
    if is_grp(case):
        return oracle_grp(case, out) if case.claimed else None
    if not case.claimed or rs.values_too_large(out.partition("|D:")[0].replace("~", ";")):
        return None
    e: EqvCase = pickle.loads(bytes.fromhex(case.payload))
    c = e.case
    out, _, dout = out.partition("|D:")
    parts = out.split("~")
    if len(parts) != 1 + len(e.sels):
        return ("harness-shape", f"{len(parts)} answers for {1 + len(e.sels)} simulations")
    if parts[0] == "IDS":
        return ("builder-entities", "the merged simulation does not have the document's persons and households")
    if parts[0] == "ERR":
        return ("builder-refused", "the merged situation (every person in exactly one listed household) was refused by the builder")
    merged = parts[0].split(";")
    for (kind, sel, gsel), part in zip(e.sels, parts[1:]):
        if not is_closed(c, sel, gsel):
            continue                        # not a situation: nothing is claimed about it
        if part == "IDS":
            return ("builder-entities", f"{kind} selection persons={sel} households={gsel}: the built simulation does not have the document's persons "
                                        f"(in document order) and households (declared ones plus one per person listed in no household)")
        if part == "ERR":
            return ("builder-refused", f"{kind} selection persons={sel} households={gsel} is a valid situation and was refused by the builder")
        got = part.split(";")
        for k, r in enumerate(c.reqs):
            if r[0] not in ("calc", "add"):
                continue
            v = r[1]
            idx = (sel if c.vars[v].entity == 0 else gsel) if v < len(c.vars) else []
            want = _expected_part(merged[k], idx)
            if want is None:
                return ("length", f"request #{k} {r}: the merged simulation returned {merged[k]}, too short for its population")
            if got[k] != want:
                cls = "value" if (got[k].startswith("ok:") and want.startswith("ok:")) else "error-class"
                if e.holes:
                    return ("uneven-input-slot",
                            f"request #{k} {r}: in the merged document only some entities carry a value for an input slot; the builder "
                            f"gives the others the default AS AN INPUT: merged simulation returned {merged[k]}, read at persons={sel} "
                            f"households={gsel} that is {want}; the part simulated alone (no input, formula applies) returned {got[k]}")
                return (f"{kind}-{cls}",
                        f"request #{k} {r}: merged simulation returned {merged[k]}; read at the {kind} selection "
                        f"persons={sel} households={gsel} that is {want}; the part simulated alone returned {got[k]}")
    # calculate_divide (oracle only: the quotient is one IEEE division per entity, compared for identity)
    if dout:
        dparts = dout.split("~")
        dm = dparts[0].split(";")
        for (kind, sel, gsel), part, dpart in zip(e.sels, parts[1:], dparts[1:]):
            if not is_closed(c, sel, gsel) or part in ("ERR", "IDS"):
                continue
            got = dpart.split(";")
            for k, (v, tok) in enumerate(e.divs):
                idx = sel if c.vars[v].entity == 0 else gsel
                want = dm[k]
                if want.startswith("ok:"):
                    vals = want[3:].split(",")
                    want = "ok:" + ",".join(vals[i] for i in idx)
                if got[k] != want:
                    return (f"{kind}-divide", f"calculate_divide(v{v}, {tok}): merged simulation returned {dm[k]}; read at the {kind} selection "
                                              f"persons={sel} households={gsel} that is {want}; the part simulated alone returned {got[k]}")
    return None


def canon_equal(case: Case, impl_out: str, model_out: str) -> bool:
    if is_grp(case):
        return impl_out == model_out
    impl_out = impl_out.partition("|D:")[0]          # the divide answers are for the oracle only
    if rs.values_too_large(impl_out.replace("~", ";")) or rs.values_too_large(model_out.replace("~", ";")):
        return True          # off the exact lattice (numeric policy): not compared
    return impl_out == model_out


def nontrivial(case: Case, out: str) -> bool:
    if is_grp(case):
        return "ERR" not in out.split("~") and out.count("~") >= 2
    parts = out.partition("|D:")[0].split("~")
    return len(parts) >= 3 and all("ok:" in p for p in parts[:3])


# --------------------------------------------------------------------------------------
# generators


def gen_population(rng: random.Random, unlisted=False, variant=0):
    """2-3 situations, each with its own persons and households (25%: plus a household without
    member, which lands in every position of the merged population; 20% of the populations: one is
    moved to the very end, right after a household with >= 2 members when there is one), merged in
    a random order (or simply concatenated).  Roles: in 75% of the households one member is the
    head (unique role); variant 0: up to two others are parents, the rest plain members (role 0);
    variant 1 (first role with sub-roles): a first parent (flattened role 0), possibly a second
    parent (1), the rest plain members (2).
    `unlisted`: some persons are listed in NO household — single persons, or (30% of the
    situations) the whole situation, which then has no household section at all; the builder gives
    each a household of its own (role: the first flattened role), appended after the declared ones.
    -> nP, nG, mem, roles, person situation, household situation, own {household: person}, k"""
    nroles, head, unique, plain = _role_table(variant)
    k = rng.choice([2, 2, 2, 3, 3, 4])
    persons, groups = [], []                      # (situation, local id)
    p_group, p_role, loose = {}, {}, set()
    bare = set()                                  # situations without household section
    for s in range(k):
        nP = rng.randint(1, 4 if k < 4 else 3)
        nG = rng.randint(1, min(3, nP))
        mem = list(range(nG)) + [rng.randrange(nG) for _ in range(nP - nG)]
        rng.shuffle(mem)
        if unlisted and rng.random() < 0.3 and len(bare) < k - 1:
            bare.add(s)
            for i in range(nP):
                loose.add((s, i))
            nG = 0
        elif rng.random() < 0.25:
            nG += 1                               # a household nobody lives in
        if unlisted and s not in bare and rng.random() < 0.5:
            for i in rng.sample(range(nP), rng.randint(1, min(2, nP))):
                loose.add((s, i))
        for j in range(nG):
            groups.append((s, j))
            members = [i for i in range(nP) if mem[i] == j and (s, i) not in loose]
            rng.shuffle(members)
            for i in members:
                p_role[(s, i)] = plain
            if members and rng.random() < 0.75:
                p_role[(s, members.pop())] = head
            if variant == 0:
                for i in members[:2]:
                    if rng.random() < 0.4:
                        p_role[(s, i)] = 1
            elif members and rng.random() < 0.6:
                p_role[(s, members.pop())] = 0                  # first parent
                if members and rng.random() < 0.5:
                    p_role[(s, members.pop())] = 1              # second parent (never without a first one)
        for i in range(nP):
            persons.append((s, i))
            p_group[(s, i)] = (s, mem[i])
    if rng.random() < 0.7:
        rng.shuffle(persons)
        rng.shuffle(groups)
    elif rng.random() < 0.5:
        rng.shuffle(groups)                       # persons concatenated, households interleaved
    size = {g: sum(1 for p in persons if p not in loose and p_group[p] == g) for g in groups}
    empties = [g for g in groups if size[g] == 0]
    if empties and rng.random() < 0.5:
        # an empty declared household listed LAST, the last non-empty one before it having >= 2 members if possible
        g = rng.choice(empties)
        groups.remove(g)
        big = [h for h in groups if size[h] >= 2]
        if big and rng.random() < 0.8:
            h = rng.choice(big)
            groups.remove(h)
            groups = [x for x in groups if size[x] > 0] + [h] + [x for x in groups if size[x] == 0]
        groups.append(g)
    own = {}
    for i, pp in enumerate(persons):
        if pp in loose:
            own[len(groups)] = i
            p_group[pp] = ("own", pp)
            p_role[pp] = 0                        # the first flattened role, whatever the variant
            groups.append(("own", pp))
    gpos = {g: j for j, g in enumerate(groups)}
    mem = [gpos[p_group[p]] for p in persons]
    roles = [p_role.get(p, 0) for p in persons]
    gsit = [g[1][0] if g[0] == "own" else g[0] for g in groups]
    return len(persons), len(groups), mem, roles, [p[0] for p in persons], gsit, own, k


def _reduce_heavy(rng: random.Random, vars_: list, variant=0) -> list:
    """append monthly household variables built on the reductions max / min / all (without role
    filter and over a role), and a person variable that reads one back through the projection"""
    nroles = _role_table(variant)[0]

    def person_atom():
        cands = [j for j, v in enumerate(vars_) if v.entity == 0 and rs._compat(v, "month")]
        if cands and rng.random() < 0.9:
            j = rng.choice(cands)
            pt, add = rng.choice(rs._compat(vars_[j], "month"))
            return ("v", j, pt, add)
        return ("c", rng.randint(1, 9))

    def digit():
        return rs.NO_ROLE if rng.random() < 0.5 else _digit(rng, variant)
    out = []
    m = len(vars_)
    vars_.append(rs.Var(entity=1, vtype=rng.choice(["int", "float"]), unit="month", dflt=rng.randint(-3, 5),
                        formulas=[(1, ("o1", rng.choice([50, 60]) + digit(), person_atom()))]))
    out.append(m)
    if rng.random() < 0.7:
        g = len(vars_)
        vars_.append(rs.Var(entity=1, vtype="int", unit="month", dflt=0,
                            formulas=[(1, ("o2", rng.choice([0, 1]), ("o1", 50 + digit(), person_atom()), ("o1", 60 + digit(), person_atom())))]))
        out.append(g)
    if rng.random() < 0.7:
        g = len(vars_)
        cond = ("o2", rng.choice([4, 5, 6]), person_atom(), person_atom()) if rng.random() < 0.7 else person_atom()
        vars_.append(rs.Var(entity=1, vtype=rng.choice(["bool", "int"]), unit="month", dflt=0,
                            formulas=[(1, ("o1", 70 + digit(), cond))]))
        out.append(g)
    if rng.random() < 0.5:
        q = len(vars_)
        vars_.append(rs.Var(entity=0, vtype="int", unit="month", dflt=0,
                            formulas=[(1, ("o2", 1, ("o1", 2, ("v", m, "same", False)), person_atom()))]))
        out.append(q)
    return out


def _digit(rng: random.Random, variant: int) -> int:
    """a role digit: a flattened role, sometimes "no filter" (9), with sub-roles sometimes the first top-level role (8)"""
    nroles = _role_table(variant)[0]
    r = rng.random()
    if r < 0.15:
        return rs.NO_ROLE
    if variant and r < 0.4:
        return rs.TOP_ROLE
    return rng.randrange(nroles)


def _role_heavy(rng: random.Random, vars_: list, variant=0) -> list:
    """append monthly variables built on the role operations: the head's value per household
    (`value_from_person`), its projection back onto the members ("the income of my head"), a
    role-filtered sum plus a count of role holders, `any` over a role."""
    def person_atom():
        cands = [j for j, v in enumerate(vars_) if v.entity == 0 and rs._compat(v, "month")]
        if cands and rng.random() < 0.85:
            j = rng.choice(cands)
            pt, add = rng.choice(rs._compat(vars_[j], "month"))
            return ("v", j, pt, add)
        return ("c", rng.randint(1, 9))
    out = []
    nroles, head, unique, plain = _role_table(variant)
    H = head if rng.random() < 0.7 else rng.choice(unique)
    h = len(vars_)
    vars_.append(rs.Var(entity=1, vtype=rng.choice(["int", "float"]), unit="month", dflt=rng.randint(-3, 5),
                        formulas=[(1, ("o1", 20 + H, person_atom()))]))
    out.append(h)
    q = len(vars_)
    second = ("o1", 2, ("v", h, "same", False)) if rng.random() < 0.5 else ("o1", 2, ("o1", 20 + H, person_atom()))
    vars_.append(rs.Var(entity=0, vtype=rng.choice(["int", "float"]), unit="month", dflt=rng.randint(0, 3),
                        formulas=[(1, ("o2", rng.choice([0, 1, 2, 3]), person_atom(), second))]))
    out.append(q)
    if rng.random() < 0.7:
        g = len(vars_)
        vars_.append(rs.Var(entity=1, vtype="int", unit="month", dflt=0,
                            formulas=[(1, ("o2", rng.choice([0, 1]), ("o1", 10 + _digit(rng, variant), person_atom()),
                                           ("o1", 30 + _digit(rng, variant), ("c", 0))))]))
        out.append(g)
    if rng.random() < 0.5:
        g = len(vars_)
        cond = ("o2", rng.choice([4, 5, 6]), person_atom(), ("o1", 2, ("v", h, "same", False)))
        vars_.append(rs.Var(entity=1, vtype=rng.choice(["bool", "int"]), unit="month", dflt=0,
                            formulas=[(1, ("o1", 40 + _digit(rng, variant), cond))]))
        out.append(g)
    if rng.random() < 0.6:
        # household.project(x, role): what the household hands to the holders of a role only
        q2 = len(vars_)
        vars_.append(rs.Var(entity=0, vtype="int", unit="month", dflt=0,
                            formulas=[(1, ("o2", rng.choice([0, 1]), ("o1", 80 + _digit(rng, variant), ("v", h, "same", False)), person_atom()))]))
        out.append(q2)
        if rng.random() < 0.5:
            g2 = len(vars_)
            vars_.append(rs.Var(entity=1, vtype="int", unit="month", dflt=0,
                                formulas=[(1, ("o1", 1, ("o1", 80 + _digit(rng, variant), ("o1", 1, person_atom()))))]))
            out.append(g2)
    return out


def _own_heavy(rng: random.Random, vars_: list) -> list:
    """append a household-level INPUT variable (no formula, default sometimes non-zero: "rent")
    and a person variable that reads it through the projection"""
    r = len(vars_)
    vars_.append(rs.Var(entity=1, vtype=rng.choice(["int", "float"]), unit="month", dflt=rng.choice([0, 0, 3, 5, -2])))
    cands = [j for j, v in enumerate(vars_) if v.entity == 0 and rs._compat(v, "month")]
    atom = ("c", rng.randint(1, 9))
    if cands:
        j = rng.choice(cands)
        pt, add = rng.choice(rs._compat(vars_[j], "month"))
        atom = ("v", j, pt, add)
    q = len(vars_)
    vars_.append(rs.Var(entity=0, vtype="int", unit="month", dflt=0,
                        formulas=[(1, ("o2", rng.choice([0, 1]), ("o1", 2, ("v", r, "same", False)), atom))]))
    # role-dependent: how many holders of the first flattened role (the role the builder gives a person it puts in a
    # household of its own), and a role-filtered sum of ones (= has_role)
    n = len(vars_)
    vars_.append(rs.Var(entity=1, vtype="int", unit="month", dflt=0,
                        formulas=[(1, ("o2", 0, ("o1", 30, ("c", 0)), ("o1", 150 + 3, ("o1", 10, ("c", 1)))))]))
    w = len(vars_)
    vars_.append(rs.Var(entity=0, vtype="int", unit="month", dflt=0,
                        formulas=[(1, ("o2", 0, ("o1", 2, ("v", n, "same", False)), ("o1", 2, ("o1", 30 + rng.randrange(3), ("c", 0)))))]))
    return [r, q, n, w]


def _group_heavy(rng: random.Random, vars_: list) -> list:
    """append monthly variables that go through the group operations on purpose: a household sum
    of a person-level expression, a person variable mixing its own value with the projection of
    that sum, a household sum over a condition on the projection (every member sees every other
    member of its household and nobody else).  -> indices of the new variables"""
    def person_atom():
        cands = [j for j, v in enumerate(vars_) if v.entity == 0 and rs._compat(v, "month")]
        if cands and rng.random() < 0.8:
            j = rng.choice(cands)
            pt, add = rng.choice(rs._compat(vars_[j], "month"))
            return ("v", j, pt, add)
        return ("c", rng.randint(1, 9))
    out = []
    h = len(vars_)
    vars_.append(rs.Var(entity=1, vtype=rng.choice(["int", "float"]), unit="month", dflt=rng.randint(-3, 5),
                        formulas=[(1, ("o1", 1, ("o2", rng.choice([0, 1, 2, 3]), person_atom(), ("c", rng.randint(-4, 4)))))]))
    out.append(h)
    q = len(vars_)
    vars_.append(rs.Var(entity=0, vtype=rng.choice(["int", "float", "bool"]), unit="month", dflt=rng.randint(0, 1),
                        formulas=[(1, ("o2", rng.choice([0, 1, 2, 3, 4, 5, 6]), person_atom(), ("o1", 2, ("v", h, "same", False))))]))
    out.append(q)
    if rng.random() < 0.5:
        g = len(vars_)
        inner = ("o2", 7, ("o2", rng.choice([4, 5]), person_atom(), ("o1", 2, ("v", h, "same", False))), ("v", q, "same", False))
        vars_.append(rs.Var(entity=1, vtype="int", unit="month", dflt=0, formulas=[(1, ("o2", 0, ("o1", 1, inner), ("o1", 1, ("c", 1))))]))
        out.append(g)
    return out


def _rewrite_op(e, old: int, new: int):
    if not isinstance(e, tuple):
        return e
    if e[0] == "o1" and e[1] == old:
        return ("o1", new, _rewrite_op(e[2], old, new))
    return tuple(_rewrite_op(x, old, new) if isinstance(x, tuple) else x for x in e)


def singles_population(rng: random.Random):
    """2-4 situations of single persons, everybody alone in a household of its own stored at the person's index and holding the
    first role: what SimulationBuilder.build_default_simulation builds (the situations interleaved at random)"""
    k = rng.choice([2, 2, 3, 4])
    sit = [s for s in range(k) for _ in range(rng.randint(1, 3))]
    rng.shuffle(sit)
    n = len(sit)
    return n, n, list(range(n)), [0] * n, sit, list(sit), {}, k


def gen_eqv(rng: random.Random, direct=False, faults=True, bad_rate=0.0, unlisted=False) -> tuple:
    variant = 1 if rng.random() < 0.4 else 0
    singles = direct and rng.random() < 0.12
    nP, nG, mem, roles, psit, gsit, own, k = singles_population(rng) if singles else gen_population(rng, unlisted, variant)
    fault_ids = [] if faults else None
    vars_ = rs.gen_vars(rng, rng.randint(3, 9), fault_ids=fault_ids, bad_rate=bad_rate)
    if variant:
        # the generic generator's unique role is role 2 of the plain table; with sub-roles the head is flattened role 3
        # (value_from_person refuses a role that is not unique)
        _, head, _, _ = _role_table(variant)
        for v in vars_:
            v.formulas = [(st, _rewrite_op(f, 20 + rs.UNIQUE_ROLE, 20 + head)) for st, f in v.formulas]
    extra = _group_heavy(rng, vars_) if rng.random() < 0.6 else []
    extra_r = _role_heavy(rng, vars_, variant) if rng.random() < 0.6 else []
    extra_m = _reduce_heavy(rng, vars_, variant) if rng.random() < 0.6 else []
    extra_o = _own_heavy(rng, vars_) if own else []
    extra = extra + extra_r + extra_m + extra_o
    inputs = rs.gen_inputs(rng, vars_, nP, nG, rate=0.3)
    if own:
        # a household the builder creates cannot carry a value: household-level inputs go to variables without
        # formula only (elsewhere the own household would get the default AS AN INPUT: finding F-C11), hold the
        # default at the own households, and the "rent" variable gets an input for sure
        inputs = [i for i in inputs if vars_[i[0]].entity == 0 or not vars_[i[0]].formulas]
        r = extra_o[0]
        for tok in rng.sample(rs.MONTHS, 2):
            if not any(i[0] == r and i[1] == tok for i in inputs):
                inputs.append((r, tok, [rng.randint(1, 40) for _ in range(nG)]))
        inputs = [(v, tok, [vars_[v].dflt if (vars_[v].entity != 0 and g in own) else x for g, x in enumerate(vals)])
                  for v, tok, vals in inputs]
    # a variable WITHOUT formula for which one situation declares nothing: its entities read the default, alone and together
    absent = []
    if not direct:
        for n_, (v, tok, vals) in enumerate(inputs):
            if not vars_[v].formulas and rng.random() < 0.3:
                s_ = rng.randrange(k)
                idx = [x for x in range(len(vals)) if (psit if vars_[v].entity == 0 else gsit)[x] == s_ and not (vars_[v].entity != 0 and x in own)]
                if idx:
                    absent.append((n_, idx))
                    inputs[n_] = (v, tok, [vars_[v].dflt if x in idx else y for x, y in enumerate(vals)])
    reqs = rs.gen_requests(rng, vars_, rng.randint(3, 8), wrong=0.05, add=0.15)
    for j in extra:
        reqs.insert(rng.randrange(len(reqs) + 1), ("calc", j, rng.choice(rs.MONTHS)))
    if rng.random() < 0.05:
        reqs.insert(rng.randrange(len(reqs) + 1), ("calc", len(vars_) + 3, rng.choice(rs.MONTHS)))      # a variable that does not exist
    # calculate_divide: a yearly amount for one month, a monthly amount for one day (and a refused one: a month variable for a year)
    divs = []
    for j, v in enumerate(vars_):
        if v.vtype in ("int", "float") and rng.random() < 0.25:
            if v.unit == "year":
                divs.append((j, rng.choice(rs.MONTHS)))
            elif v.unit == "month":
                divs.append((j, rng.choice(rs.DAYS) if rng.random() < 0.8 else rng.choice(rs.YEARS)))
            elif v.unit == "day":
                divs.append((j, rng.choice(rs.DAYS)))
    divs = divs[:3]
    if fault_ids:
        # arm one fault in the middle of the request list, disarm it later, ask again
        fid = rng.choice(fault_ids)
        a = rng.randrange(len(reqs) + 1)
        reqs = reqs[:a] + [("arm", fid)] + reqs[a:]
        b = rng.randint(a + 1, len(reqs))
        reqs = reqs[:b] + [("disarm", fid)] + reqs[b:] + rng.sample([r for r in reqs if r[0] in ("calc", "add")], 1)
    c = rs.SysCase(nP, nG, mem, rng.choice([1, 1, 2, 3]), vars_, inputs, reqs, roles=roles, role_variant=variant)
    sels = []
    for s in range(k):
        sels.append(("merge", [i for i in range(nP) if psit[i] == s], [g for g in range(nG) if gsit[g] == s]))
    if k >= 3:
        # the union of two (of three) situations out of three (four) is a part as well
        keep = rng.sample(range(k), rng.choice([2, k - 1]))
        sels.append(("merge", [i for i in range(nP) if psit[i] in keep], [g for g in range(nG) if gsit[g] in keep]))
    ps, gs = list(range(nP)), list(range(nG))
    rng.shuffle(ps); rng.shuffle(gs)
    if singles and rng.random() < 0.6:
        gs = list(ps)                             # persons and their households reordered alike: again a default simulation
    sels.append(("permute", ps, gs))
    s = rng.randrange(k)
    ps = [i for i in range(nP) if psit[i] == s]
    gs = [g for g in range(nG) if gsit[g] == s]
    rng.shuffle(ps); rng.shuffle(gs)
    sels.append(("permuted-part", ps, gs))
    style = "plain" if singles else rng.choice(["plain", "plain", "shuffled", "int", "shared"])
    int_ids = False
    if style == "int" and direct:                 # integer identifiers of different widths and signs (join_with_persons): text order
        int_ids = True                            # is not numeric order
        pool = [-120, -12, -3, 0, 2, 7, 8, 9, 10, 11, 12, 19, 20, 21, 99, 100, 101, 110, 999, 1000, 1001, 10000]
        pids = [str(x) for x in rng.sample(pool, nP)]
        gids = [str(x) for x in rng.sample(pool, nG)]
    elif style == "int":                          # Python int keys (YAML-style documents); households may reuse the persons' numbers
        int_ids = True
        pids = [str(x) for x in rng.sample(range(1, 40), nP)]
        gids = [str(x) for x in rng.sample(range(100, 140) if own else [3, 7, 8, 9, 10, 11, 12, 20, 35, 99, 100, 101, 1000, 38, 2, 5, 1, 19, 21, 30], nG)]
    elif style == "shared" and not own:           # the same names on both sides: person "x1" and household "x1" are different things
        pids = [f"x{i}" for i in range(nP)]
        gids = [f"x{g}" for g in range(nG)]
        rng.shuffle(gids)
    else:
        pids = [f"p{i}" for i in range(nP)]
        gids = [f"h{g}" for g in range(nG)]
        if style != "plain":                      # ids that do not sort like the indices
            rng.shuffle(pids); rng.shuffle(gids)
        if own and style == "shared":
            # persons and households are separate namespaces: a DECLARED household of one situation bears the id of a person
            # of ANOTHER situation who is listed in no household (and gets a household of its own, named after it)
            style = "collide"
            taken = set()
            for g_own, i in own.items():
                cands = [g for g in range(nG) if g not in own and gsit[g] != psit[i] and g not in taken]
                if cands and rng.random() < 0.8:
                    g = rng.choice(cands)
                    taken.add(g)
                    gids[g] = pids[i]
    e = EqvCase(c, pids, gids, sels, direct=direct, member_seed=rng.randrange(1 << 30), own=own, psit=psit, gsit=gsit, absent=absent,
                direct_mode=("default" if singles else "join" if int_ids else rng.choice(["manual", "norole", "join", "join"])) if direct else "manual", int_ids=int_ids,
                short_form=rng.random() < 0.7 and style != "collide",
                trace=rng.random() < 0.2, req_seed=rng.randrange(3), divs=divs,
                default_tok=rng.choice([i[1] for i in inputs if not i[1].startswith("eternity")] or [""]) if rng.random() < 0.3 else "")
    tags = ["direct" if direct else "builder", f"situations={k}", f"persons={nP}", f"households={nG}", f"ids={style}"]
    if direct:
        tags.append(f"direct-mode={e.direct_mode}")
    if absent:
        tags.append("input-absent-in-one-situation")
    if divs:
        tags.append("calculate_divide")
    if e.trace:
        tags.append("trace")
    if e.default_tok:
        tags.append("default-period")
    if len(set(mem)) < nG:
        tags.append("empty-household")
        if (nG - 1) not in mem:
            tags.append("empty-household-last")
    if fault_ids:
        tags.append("fault")
    if extra:
        tags.append("group-heavy")
    if extra_r:
        tags.append("role-ops")
    if extra_m:
        tags.append("reductions")
    tags.append(f"role-variant={variant}")
    declared = [g for g in range(nG) if g not in own]
    if declared and declared[-1] not in mem:
        tags.append("empty-declared-household-last")
        ne = [g for g in declared if g in mem]
        if ne and mem.count(ne[-1]) >= 2:
            tags.append("empty-last-after-household>=2")
    if own and any(all(g in own for g in range(nG) if gsit[g] == s_) for s_ in range(k)):
        tags.append("situation-without-household-section")
    if own:
        tags.append("unlisted-persons")
    heads = {mem[i] for i in range(nP) if roles[i] == _role_table(variant)[1] and mem[i] not in own}
    tags.append("heads>=half" if 2 * len(heads) >= nG else "heads<half")
    return e, tags


def generate(rng: random.Random, tier: str):
    n = 5300 if tier == "quick" else 105000
    out = []
    # the order-dependent operations, on the merge clause only (group-level stream)
    for i in range(450 if tier == "quick" else 9000):
        out += gen_grp_merge(rng, small=(i % 6 == 0))
    for i in range(n):
        direct = rng.random() < 0.2
        e, tags = gen_eqv(rng, direct=direct, faults=rng.random() < 0.4, bad_rate=0.03 if rng.random() < 0.2 else 0.0,
                          unlisted=(not direct) and rng.random() < 0.3)
        out.append(_case(e, tags))
    # malformed stream: selections that are not situations (a kept household names a person that is
    # not kept) — the builder must refuse them, the model answers ERR for them
    for i in range(max(10, n // 60)):
        e, tags = gen_eqv(rng, direct=rng.random() < 0.2, faults=False)
        c = e.case
        cands = [(sel, gsel) for kind, sel, gsel in e.sels if kind == "merge" and len(sel) >= 2]
        if not cands:
            continue
        sel, gsel = rng.choice(cands)
        drop = rng.choice(sel)
        e.sels.append(("open", [i for i in sel if i != drop], gsel))
        out.append(_case(e, tags + ["open-selection"]))
    return out


def corpus_base():
    """hand-made cases that run first: the example of Props/C11.lean (a household sum and its
    projection, two situations interleaved); a situation whose last household has no member; a
    single person merged with a large household; an armed fault; calculate_add"""
    M = rs.MONTHS
    out = []
    v0 = rs.Var(entity=0, vtype="int", unit="month", dflt=7)
    v1 = rs.Var(entity=1, vtype="int", unit="month", dflt=0, formulas=[(1, ("o1", 1, ("v", 0, "same", False)))])
    v2 = rs.Var(entity=0, vtype="int", unit="month", dflt=0,
                formulas=[(1, ("o2", 0, ("v", 0, "same", False), ("o1", 2, ("v", 1, "same", False))))])
    v3 = rs.Var(entity=1, vtype="float", unit="year", dflt=0, formulas=[(1, ("f", 0, ("v", 1, "same", True)))])
    v4 = rs.Var(entity=1, vtype="int", unit="month", dflt=0, formulas=[(1, ("o1", 1, ("c", 1)))])          # household size
    v5 = rs.Var(entity=0, vtype="bool", unit="month", dflt=0,
                formulas=[(1, ("o2", 4, ("o1", 2, ("v", 4, "same", False)), ("c", 3)))])                   # fewer than 3 persons in my household
    v6 = rs.Var(entity=1, vtype="int", unit="month", dflt=0, formulas=[(1, ("o1", 22, ("v", 0, "same", False)))])     # the head's v0
    v7 = rs.Var(entity=0, vtype="int", unit="month", dflt=0,
                formulas=[(1, ("o2", 1, ("o1", 2, ("v", 6, "same", False)), ("v", 0, "same", False)))])               # my head's v0 minus mine
    v8 = rs.Var(entity=1, vtype="int", unit="month", dflt=0,
                formulas=[(1, ("o2", 0, ("o1", 11, ("v", 0, "same", False)), ("o2", 0, ("o1", 30, ("c", 0)), ("o1", 42, ("v", 0, "same", False)))))])
    reqs = [("calc", 6, M[1]), ("calc", 7, M[1]), ("calc", 8, M[1]), ("calc", 6, M[0]),
            ("calc", 2, M[1]), ("calc", 1, M[1]), ("calc", 5, M[1]), ("calc", 4, M[0]), ("add", 1, "year/2018,1,1/1"), ("calc", 3, "year/2018,1,1/1"),
            ("arm", 0), ("calc", 3, "year/2017,1,1/1"), ("disarm", 0), ("calc", 3, "year/2017,1,1/1"), ("calc", 2, "year/2018,1,1/1")]
    c = rs.SysCase(5, 3, [1, 0, 1, 2, 0], 1, [v0, v1, v2, v3, v4, v5, v6, v7, v8], [(0, M[1], [10, 20, 30, 40, 50]), (0, M[2], [1, 2, 3, 4, 5])], reqs,
                   roles=[2, 0, 1, 2, 2])          # heads: persons 0 (of h1), 3 (of h2), 4 (of h0) -- not in household order
    sels = [("merge", [1, 3, 4], [0, 2]), ("merge", [0, 2], [1]), ("permute", [4, 2, 0, 3, 1], [2, 0, 1]), ("permuted-part", [4, 1, 3], [2, 0])]
    for direct in (False, True):
        out.append(_case(EqvCase(c, [f"p{i}" for i in range(5)], [f"h{g}" for g in range(3)], sels, direct=direct), ("corpus",)))
    # households without member, in the middle and last; one of them is all a situation has besides one person
    c2 = rs.SysCase(4, 5, [0, 3, 0, 2], 1, [v0, v1, v2, v3, v4, v5], [(0, M[1], [1, 2, 4, 8])],
                    [("calc", 1, M[1]), ("calc", 2, M[1]), ("calc", 4, M[1]), ("calc", 5, M[1]), ("calc", 1, M[0])])
    sels2 = [("merge", [0, 2], [0, 1]), ("merge", [1, 3], [2, 3, 4]), ("merge", [3], [2, 4]), ("permute", [3, 2, 1, 0], [4, 0, 3, 1, 2]),
             ("permuted-part", [3, 1], [4, 3, 2])]
    for direct in (False, True):
        out.append(_case(EqvCase(c2, ["b", "a", "d", "c"], ["z", "y", "x", "w", "v"], sels2, direct=direct), ("corpus", "empty-household-last")))
    # persons listed in no household (the builder appends a household of their own) next to a declared household that
    # carries a household-level input ("rent", default 3): the own households read the default, alone and together
    rent = rs.Var(entity=1, vtype="float", unit="month", dflt=3)
    share = rs.Var(entity=0, vtype="float", unit="month", dflt=0,
                   formulas=[(1, ("o2", 0, ("o1", 2, ("v", 1, "same", False)), ("v", 0, "same", False)))])
    nb = rs.Var(entity=1, vtype="int", unit="month", dflt=0, formulas=[(1, ("o2", 0, ("o1", 1, ("c", 1)), ("v", 1, "same", False)))])
    c3 = rs.SysCase(4, 4, [2, 0, 3, 1], 1, [v0, rent, share, nb], [(0, M[1], [1, 2, 4, 8]), (1, M[1], [500, 40, 3, 3])],
                    [("calc", 1, M[1]), ("calc", 2, M[1]), ("calc", 3, M[1]), ("calc", 1, M[0]), ("calc", 2, M[0])])
    sels3 = [("merge", [1, 2], [0, 3]), ("merge", [0, 3], [1, 2]), ("merge", [0], [2]), ("merge", [2], [3]),
             ("permute", [2, 3, 0, 1], [3, 1, 0, 2]), ("permuted-part", [3, 0], [2, 1])]
    out.append(_case(EqvCase(c3, ["b1", "a1", "a2", "b2"], ["hA", "hB", "?", "?"], sels3, own={2: 0, 3: 2}), ("corpus", "unlisted-persons")))
    # reductions, an empty declared household listed LAST right after a household whose last-stored member is decisive
    # (holds the max, the min, the only zero); situation A = households hA (two members) and hV (vacant), situation B = hB
    inc = rs.Var(entity=0, vtype="int", unit="month", dflt=2)
    hi = rs.Var(entity=1, vtype="int", unit="month", dflt=0, formulas=[(1, ("o1", 59, ("v", 0, "same", False)))])
    lo = rs.Var(entity=1, vtype="int", unit="month", dflt=0, formulas=[(1, ("o1", 69, ("o1", 0, ("v", 0, "same", False))))])
    al = rs.Var(entity=1, vtype="bool", unit="month", dflt=0, formulas=[(1, ("o1", 79, ("o2", 4, ("v", 0, "same", False), ("c", 30))))])
    hr_ = rs.Var(entity=1, vtype="int", unit="month", dflt=0,
                 formulas=[(1, ("o2", 0, ("o1", 51, ("v", 0, "same", False)), ("o2", 0, ("o1", 62, ("v", 0, "same", False)), ("o1", 70, ("v", 0, "same", False)))))])
    back = rs.Var(entity=0, vtype="int", unit="month", dflt=0, formulas=[(1, ("o2", 1, ("o1", 2, ("v", 1, "same", False)), ("v", 0, "same", False)))])
    c4 = rs.SysCase(3, 3, [0, 1, 1], 1, [inc, hi, lo, al, hr_, back], [(0, M[1], [5, 7, 30])],
                    [("calc", 1, M[1]), ("calc", 2, M[1]), ("calc", 3, M[1]), ("calc", 4, M[1]), ("calc", 5, M[1]), ("calc", 1, M[0])],
                    roles=[2, 0, 1])
    sels4 = [("merge", [1, 2], [1, 2]), ("merge", [0], [0]), ("permute", [2, 0, 1], [2, 1, 0]), ("permuted-part", [2, 1], [2, 1])]
    for direct in (False, True):
        out.append(_case(EqvCase(c4, ["b1", "a1", "a2"], ["hB", "hA", "hV"], sels4, direct=direct), ("corpus", "reductions", "empty-declared-household-last")))
    # first role with sub-roles; situation B has NO household section (alone: the builder's default-group path; together with
    # A: the left-out-person path): b1 holds the first flattened role (first_parent) either way
    nfp = rs.Var(entity=1, vtype="int", unit="month", dflt=0,
                 formulas=[(1, ("o2", 0, ("o1", 30, ("c", 0)), ("o1", 153, ("o1", 10, ("c", 1)))))])       # first parents: count + 3 * sum of ones
    fpv = rs.Var(entity=1, vtype="int", unit="month", dflt=0, formulas=[(1, ("o1", 20, ("v", 0, "same", False)))])   # the first parent's value
    mine = rs.Var(entity=0, vtype="int", unit="month", dflt=0,
                  formulas=[(1, ("o2", 0, ("o1", 2, ("v", 1, "same", False)), ("o1", 2, ("o1", 32, ("c", 0)))))])
    c5 = rs.SysCase(4, 3, [0, 1, 0, 2], 1, [inc, nfp, fpv, mine], [(0, M[1], [900, 10, 20, 30])],
                    [("calc", 1, M[1]), ("calc", 2, M[1]), ("calc", 3, M[1])], roles=[0, 0, 2, 0], role_variant=1)
    sels5 = [("merge", [0, 2], [0]), ("merge", [1, 3], [1, 2]), ("merge", [1], [1]), ("permute", [3, 2, 1, 0], [2, 0, 1])]
    out.append(_case(EqvCase(c5, ["a1", "b1", "a2", "b2"], ["hA", "?", "?"], sels5, own={1: 1, 2: 3}), ("corpus", "situation-without-household-section")))
    # the order-dependent operations on a merged population of two situations (households 0, 2 | household 1), persons interleaved
    gl = "eqv G -:2,-:0,1:0 4 0.3,1.3,2.2,0.2,1.2,2.3,0.2,1.0 {} S 2 5 0 2 3 5 6 3 0 2 3 3 1 4 7 1 1"
    for opx in ("nth - 1 -7 i:1,2,3,4,5,6,7,8", "nth - 2 0 i:1,2,3,4,5,6,7,8", "first - i:1,2,3,4,5,6,7,8", "rank - i:5,-2,7,1,9,-4,3,0 b:TTTFTTTT",
                "chain - p h first i:1,2,3,4,5,6,7,8", "chain - g fp rank i:5,-2,7,1,9,-4,3,0 b:TTTTTTTT"):
        out.append(Case(line=gl.format(opx), payload={"grp": {"dtype": "float64"}}, tags=("corpus", "grp-merge")))
    r20 = random.Random(20)
    for _ in range(6):
        out += gen_grp_merge(r20)
    # a selection that is not a situation
    out.append(_case(EqvCase(c, [f"p{i}" for i in range(5)], [f"h{g}" for g in range(3)], [("merge", [0, 2], [1]), ("open", [1, 3], [0, 2])]),
                     ("corpus", "open-selection")))
    return out


def _uneven_recorded() -> bool:
    """the document shape of finding F-C11 is exercised once the finding is recorded in
    known_findings.json (or on demand, OFV_C11_UNEVEN=1)"""
    import os
    from .. import core
    if os.environ.get("OFV_C11_UNEVEN") == "1":
        return True
    return any(k.get("property") == "C11" and k.get("id") == "F-C11" for k in core.load_known())


def uneven_case() -> Case:
    """F-C11: situation A gives a salary for 2018-01, situation B does not (its salary is to be
    computed); in the merged document B's person silently receives the default as an input"""
    M = rs.MONTHS
    v0 = rs.Var(entity=0, vtype="float", unit="month", dflt=0, formulas=[(1, ("c", 1000))])
    c = rs.SysCase(2, 2, [0, 1], 1, [v0], [(0, M[1], [50, 0])], [("calc", 0, M[1])])
    e = EqvCase(c, ["a", "b"], ["ha", "hb"], [("merge", [0], [0]), ("merge", [1], [1])], holes=[(0, [1])])
    return _case(e, ("corpus", "uneven-input-slot"))


def _corpus_all():
    out = list(corpus_base())
    if _uneven_recorded():
        out.append(uneven_case())
    return out


def enumerate_thorough():
    """complete enumeration: every membership map of 1-4 persons into 1-3 households (households
    without member included), a fixed rule system that sends every person's value to every other
    member of its household and back; for each population EVERY union of households with at least
    one person as a part (merged order) and EVERY reordering of persons x households"""
    import itertools
    M = rs.MONTHS
    v0 = rs.Var(entity=0, vtype="int", unit="month", dflt=7)
    v1 = rs.Var(entity=1, vtype="int", unit="month", dflt=3)
    v2 = rs.Var(entity=1, vtype="int", unit="month", dflt=0, formulas=[(1, ("o1", 1, ("v", 0, "same", False)))])
    v3 = rs.Var(entity=0, vtype="int", unit="month", dflt=0,
                formulas=[(1, ("o2", 1, ("o1", 2, ("v", 2, "same", False)), ("v", 0, "same", False)))])          # what the others have
    v4 = rs.Var(entity=0, vtype="int", unit="month", dflt=0,
                formulas=[(1, ("o2", 0, ("o1", 2, ("v", 1, "same", False)), ("v", 0, "same", False)))])
    v5 = rs.Var(entity=1, vtype="int", unit="month", dflt=0,
                formulas=[(1, ("o2", 0, ("o1", 1, ("o2", 4, ("v", 0, "same", False), ("v", 3, "same", False))), ("v", 1, "same", False)))])
    v6 = rs.Var(entity=1, vtype="int", unit="month", dflt=0, formulas=[(1, ("o1", 22, ("v", 0, "same", False)))])      # the head's value
    v7 = rs.Var(entity=0, vtype="int", unit="month", dflt=0,
                formulas=[(1, ("o2", 1, ("o1", 2, ("v", 6, "same", False)), ("v", 0, "same", False)))])
    v8 = rs.Var(entity=1, vtype="int", unit="month", dflt=0,
                formulas=[(1, ("o2", 0, ("o1", 10, ("v", 0, "same", False)), ("o2", 0, ("o1", 32, ("c", 0)), ("o1", 40, ("v", 0, "same", False)))))])
    v9 = rs.Var(entity=1, vtype="int", unit="month", dflt=0,
                formulas=[(1, ("o2", 0, ("o1", 59, ("v", 0, "same", False)), ("o1", 153, ("o1", 69, ("o1", 0, ("v", 0, "same", False))))))])   # max - 3 * max
    v10 = rs.Var(entity=1, vtype="int", unit="month", dflt=0,
                 formulas=[(1, ("o2", 0, ("o1", 79, ("o2", 4, ("v", 0, "same", False), ("c", 8))),
                                ("o2", 0, ("o1", 50, ("v", 0, "same", False)), ("o1", 62, ("v", 0, "same", False)))))])
    reqs = [("calc", 2, M[1]), ("calc", 3, M[1]), ("calc", 4, M[1]), ("calc", 5, M[1]), ("calc", 2, M[0]), ("calc", 5, M[0]),
            ("calc", 6, M[1]), ("calc", 7, M[1]), ("calc", 8, M[1]), ("calc", 9, M[1]), ("calc", 10, M[1])]
    out = []
    for nP in range(1, 5):
        for nG in range(1, 4):
            for mem in itertools.product(range(nG), repeat=nP):
                mem = list(mem)
                # the head of a household is its LAST member in storage order: over all membership maps the heads
                # come in every order relative to their households
                roles = [rs.UNIQUE_ROLE if i == max(k for k in range(nP) if mem[k] == mem[i]) else 0 for i in range(nP)]
                c = rs.SysCase(nP, nG, mem, 1, [v0, v1, v2, v3, v4, v5, v6, v7, v8, v9, v10],
                               [(0, M[1], [1, 2, 4, 8][:nP]), (1, M[1], [100, 200, 300][:nG])], reqs, roles=roles)
                sels = []
                for r in range(1, nG + 1):
                    for gs in itertools.combinations(range(nG), r):
                        ps = [i for i in range(nP) if mem[i] in gs]
                        if ps and (len(ps) < nP or len(gs) < nG):
                            sels.append(("merge", ps, list(gs)))
                for pp in itertools.permutations(range(nP)):
                    for gp in itertools.permutations(range(nG)):
                        if list(pp) != list(range(nP)) or list(gp) != list(range(nG)):
                            sels.append(("permute", list(pp), list(gp)))
                e = EqvCase(c, [f"p{i}" for i in range(nP)], [f"h{g}" for g in range(nG)], sels, member_seed=nP * 100 + nG)
                out.append(_case(e, ("enum", f"persons={nP}", f"households={nG}")))
    return out


PROP = Prop(
    pid="C11",
    lean_targets=["OFCore.Props.C11"],
    driver="ofdrv_eqv",
    generate=generate, impl=impl, oracle=oracle, nontrivial=nontrivial, corpus=_corpus_all, canon_equal=canon_equal,
    enumerate_thorough=enumerate_thorough,
    exhaustive_note=("thorough tier: all 154 membership maps of 1-4 persons into 1-3 households (empty households included) x every union of "
                     "households as a part x every reordering of persons and of households (up to 143 per population), on a fixed rule system "
                     "(household sum, sum of the others, projection of a household input, count of a condition on the projection, the head's "
                     "value and its projection, role-filtered sum / count / any; the head is the last-stored member of each household)"),
    rule=("rule systems of the C01 generator (ranked stream): 3-9 variables over person + household, every value type, definition periods "
          "month/year/day/eternity, 0-3 dated formulas each, optional end, neutralised variables, expression trees of depth <= 3 over "
          "add/sub/min/max/comparisons/where/scaling/negation, sums over members, projections, period transforms and the ADD option, "
          "plus (60% each) variables built on purpose on the group operations and on the ROLE operations (value of the unique-role member "
          "= value_from_person, in household formulas and through the person.household projector chain, role-filtered sum, nb_persons(role), "
          "any(role)) and (60%) on the reductions max / min / all with and without role filter (0 / 0 / 1 for a household without "
          "holder); roles: 75% of the non-empty households have a head (unique role, max 1), up to two parents (max 2), plain members; "
          "in 40% of the systems the household entity's FIRST role has sub-roles (first_parent, second_parent; role indices = flattened "
          "roles); 25% of the situations have a declared household without member, in every position of the merged population and (half of "
          "those populations) LAST, right after a household with >= 2 members; "
          "injected faults (40% of the systems: armed, requested, disarmed, requested again) and a 0.6% stream of invalid reads; "
          "populations made of 2-3 unrelated situations of 1-4 persons in 1-3 households each (15%: plus a household without member), "
          "persons and households of the situations interleaved at random (70%), households only (15%) or concatenated (15%); inputs "
          "on ~30% of the (variable, period) pool, given for every entity; 3-8 requests (calculate / calculate_add, 5% wrong period). "
          "Per case 5-6 real simulations: the merged one, each situation alone (and the union of two out of three), the whole population "
          "in a random other order of persons and of households, one situation reordered; 80% built by "
          "SimulationBuilder.build_from_entities from a document with values per entity and shuffled member lists (30%: ids that do not "
          "sort like the indices), 20% by hand (counts, members_entity_id, set_input). Oracle: merged answer read at the part's "
          "persons/households == the part's own answer, values and error classes, every request. Plus a 2.5% stream of selections that "
          "are not situations (a kept household names a person that is not kept): refused by the builder, ERR in the model. "
          "30% of the builder cases list some persons in NO household (the builder appends a household of their own after the declared "
          "ones; its answers are matched by id) while declared households carry household-level inputs on variables with zero and non-zero "
          "defaults ('rent' read back through the projection), and 30% of their situations have NO household section at all (alone: the "
          "builder's default-group path; merged with a situation that declares households: the left-out-person path), with role-dependent "
          "variables (nb_persons(first role), role-filtered sum of ones) requested. The order-dependent operations (value_nth_person, first_person, get_rank) "
          "are not in the language: the permutation clause is false of them by definition. "
          "GROUP-LEVEL STREAM (merge clause only; 450 populations x 4 operations per quick run): merged populations of 2-3 situations, 8-40 "
          "households of 1-4 members (a sixth: 2-6 households), persons and households interleaved at random, households without "
          "member last; value_nth_person (n = 0..3), value_from_first_person, get_rank (distinct criteria, with and without "
          "condition), the same through person.household / household.first_person, max as a control, and (half of the populations) a household SUM "
          "of float64 amounts with a wide range across households and a narrow one within (one person holds +-2**53, its household's "
          "other members 0, everybody else small integers: exact alone and together); the real populations of "
          "the merged situation and of every part (its persons in merged order, the union of two parts) are built as in C10 and "
          "the merged answer read at the part's persons / groups must be the part's own answer. "
          "Ids 'collide' (a fifth of the documents with unlisted persons): a declared household of one situation bears the id of a person "
          "of another situation who is listed in no household. Document spellings (builder stream): every situation writes its period keys in its own spelling ('2018-01', 'month:2018-01', "
          "'month:2018-01:1', ETERNITY/eternity: same slot); ids plain / shuffled / Python ints / the same names for persons and households; "
          "30%: a default period is set and values of that period are written bare; parts are built through build_from_dict, with the "
          "single-household ('household': ...), single-person ('person': ...) and variables-only spellings when the part allows them; 30% of "
          "the inputs on variables WITHOUT formula are absent (or null) in one situation: its entities read the default alone and together. "
          "Populations of 2-4 situations (the union of two or of all but one is a part too). "
          "Direct stream: 12% populations of single persons built by SimulationBuilder.build_default_simulation (merged, each part, and "
          "reorderings that move persons and households alike); by hand, by hand with members_role left to its default, or declare_person_entity / declare_entity / "
          "join_with_persons (text or integer identifiers of different widths and signs, in any order, declared households without member in "
          "any position) with roles as keys or as indices. Requests: a third of the "
          "periods are passed as text, 5% of the cases ask for a variable that does not exist, 20% run every simulation with trace=True, "
          "up to 3 calculate_divide requests per case (year variable for a month, month variable for a day, day for a day, a refused one), "
          "answered after the other requests and compared by the oracle only (identity of the quotients); calculate_add: 15% of the requests "
          "plus the ADD option inside formulas. Role digits: a flattened role, 9 = no filter, 8 = the first role with its sub-roles; "
          "projection with a role filter (household.project(x, role)). "
          "Non-trivial = the merged simulation and at least two parts returned values; distinct = distinct protocol lines."),
    assumptions=[
        "formulas are those of the expression DSL (arbitrary Python formulas are outside the model); the DSL has no n-th-member / "
        "first-person read (their result is defined by storage order), so reorderings are claimed for the whole DSL",
        "formulas respect the entity discipline (WT): sum over members = person vector -> household vector, projection = household "
        "vector -> person vector; a formula that breaks it fails with a numpy shape error in the real engine",
        "inputs are whole vectors per (variable, period): every situation gives a value for the same (variable, period) slots. "
        "(When only some entities of a merged document carry a value, SimulationBuilder.add_variable_value fills the others with the "
        "variable's default AS AN INPUT, which then takes precedence over their formula: such documents are outside the claim.)",
        "a person listed in no household gets a household of its own appended by the builder (in set-iteration order: the harness matches "
        "them by id); such a household cannot carry inputs, so in those documents household-level inputs go to variables without formula",
        "roles respect their maxima (one head, two parents per household); value_from_person is used with the unique role only",
        "a document is one dict: two situations cannot bring the same person or household id (the second would overwrite the first before "
        "the builder sees it); axes belong to the document, not to a situation (they replicate the whole merged population): C12's subject",
        "max_spiral_loops, trace and the request sequence are identical on the merged and the separate simulations; storage configuration is C17's",
        "values are small integers, exactly representable in float32/int32 (numeric policy, DESIGN section 4); larger results are not compared",
        "numpy primitives used by the group operations (bincount, fancy indexing) are modelled",
        "the machine-level theorems (what Simulation.calculate returns) are for variable-ranked rule systems (C01); the meaning-level "
        "theorems hold for every rule system, cyclic ones included (same error, same non-termination)",
    ],
)
