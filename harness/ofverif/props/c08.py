"""C08 — tax scales compute their mathematical definition for every base."""
from __future__ import annotations

import itertools
import random
from fractions import Fraction as F

from ..core import Case, Prop
import zlib

from ..scautil import (LATTICE, approx_equal, arr, brackets_of, eps_eff, exact, fmt_scale, fmt_vals, fr,
                       half_even, is_tie, mk, parse_rd, parse_scale, parse_vals, show_brackets, snap, snapshot,
                       spec_build, spec_la, spec_ma, spec_mr, spec_mr_rounded, spec_sa, split_bases)

Q = F(1, 4)
APPROX_OPS = {"lacalc", "lacalcR"}          # one true division: compared with tolerance 2^-20


# ----------------------------------------------------------------------------------------
# implementation adapter


def _vec_and_single(fn, n, canon, scale=None, mkarr=None):
    """value on the whole vector (`fn(list of positions)`), and flag when a base alone gives
    another (canonical) value.  With `scale` and `mkarr` (positions -> the argument array; `fn`
    then takes that array): the same call is made a second time after the first result has been
    overwritten (`!AGAIN` when the values differ: a result that is a view of internal state, a memo),
    the argument array must come back unchanged and must not share memory with the result (`!ARG`),
    and the brackets of the scale must not move (`!MUT`)."""
    import numpy
    if mkarr is None:
        out = [canon(v) for v in fn(list(range(n)))]
        call = fn
    else:
        before = snapshot(scale)
        a = mkarr(list(range(n)))
        a0 = a.copy()
        res = fn(a)
        out = [canon(v) for v in res]
        flags = ""
        if a.dtype != a0.dtype or not numpy.array_equal(a, a0) or (isinstance(res, numpy.ndarray) and numpy.shares_memory(res, a)):
            flags += " !ARG"
        if isinstance(res, numpy.ndarray) and res.size and res.flags.writeable:
            res[...] = 12345
        if [canon(v) for v in fn(a)] != out:
            flags += " !AGAIN"
        if snapshot(scale) != before:
            flags += " !MUT"
        if flags:
            return out, flags
        call = lambda ix: fn(mkarr(ix))
    flags = ""
    if len(out) != n:
        return out, " !LEN"
    for j in range(n):
        one = call([j])
        if len(one) != 1 or canon(one[0]) != out[j]:
            flags = " !VEC"
            break
    return out, flags


def _disturb(s, line: str):
    """on a quarter of the lines the scale is copied first and the COPY is changed in place through the whole
    API: the scale itself must still compute the brackets it was built from.  On another quarter the
    symmetric direction: the scale that is evaluated is a copy (`copy()`, or for a marginal-rate scale
    `scale_tax_scales(1)` / `multiply_rates(1, inplace=False)` / `multiply_thresholds(1, inplace=False)`) and its
    ORIGINAL is changed in place afterwards.  Returns the scale to evaluate."""
    h = zlib.crc32(line.encode())
    if h % 4 not in (1, 3):
        return s

    def change(c):
        if c.thresholds:
            c.add_bracket(c.thresholds[0], 1.0)          # an existing threshold: rates[0] += 1
        c.add_bracket(98765.0, 0.5)                      # a new one: both lists grow
        if hasattr(c, "multiply_rates"):
            c.multiply_rates(2.0)
            c.multiply_thresholds(3.0)
    if h % 4 == 1:
        how = (h // 4) % 4 if hasattr(s, "scale_tax_scales") else 0
        c = (s.copy() if how == 0 else s.scale_tax_scales(1.0) if how == 1 else s.multiply_rates(1.0, inplace=False) if how == 2
             else s.multiply_thresholds(1.0, inplace=False))
        change(c)
        return s
    how = (h // 4) % 4 if hasattr(s, "scale_tax_scales") else 0
    c = (s.copy() if how == 0 else s.scale_tax_scales(1.0) if how == 1 else s.multiply_rates(1.0, inplace=False) if how == 2
         else s.multiply_thresholds(1.0, inplace=False))
    change(s)
    return c


def _positional(line: str) -> bool:
    """half of the lines spell the optional arguments positionally, the other half by keyword"""
    return zlib.crc32(line.encode()) % 2 == 0


def impl(case: Case) -> str:
    import numpy
    f = case.line.split()
    op = f[1]
    pos = _positional(case.line)
    if op == "build":
        ins = parse_scale(f[2])
        try:
            a = brackets_of(mk("mr", ins))
            b = brackets_of(mk("ma", ins))
        except Exception:
            return "ERR"
        return show_brackets(a) + ("" if a == b else " !KIND")
    if op in ("mrcalc", "mridx", "mrrate", "mrcalcv", "mridxv", "mrratev"):
        vec = op.endswith("v")
        facs = [float(x) for x in parse_vals(f[3])]
        rd, ins = parse_rd(f[4]), parse_scale(f[5])
        kind, bases = split_bases(f[6])
        n = len(bases)

        def ba(ix):
            return arr([bases[k] for k in ix], kind)
        allix = list(range(n))
        try:
            s = mk("mr", ins)
            s = _disturb(s, case.line)
            before = snapshot(s)
            if op.startswith("mrcalc"):
                den = LATTICE if rd is None else 10 ** rd
                if vec:
                    # an array of factors: built per call for the positions asked
                    def fa(ix):
                        return numpy.array([facs[k] for k in ix])
                    call = ((lambda ix: s.calc(ba(ix), fa(ix), rd)) if pos else
                            (lambda ix: s.calc(ba(ix), factor=fa(ix), round_base_decimals=rd)))
                    vals, flags = _vec_and_single(call, n, lambda v: snap(v, den))
                    if snapshot(s) != before:
                        flags += " !MUT"
                    return fmt_vals(vals) + flags
                call = ((lambda a: s.calc(a, facs[0], rd)) if pos else
                        (lambda a: s.calc(a, factor=facs[0], round_base_decimals=rd)))
                if rd is None and facs[0] == 1.0 and pos:
                    call = lambda a: s.calc(a)                      # all defaults
                vals, flags = _vec_and_single(call, n, lambda v: snap(v, den), s, ba)
                return fmt_vals(vals) + flags
            fa_all = numpy.array(facs) if vec else facs[0]
            idx = (s.bracket_indices(ba(allix), fa_all, rd) if pos else
                   s.bracket_indices(ba(allix), factor=fa_all, round_decimals=rd))
            if op.startswith("mridx"):
                again = (s.bracket_indices(ba(allix), fa_all, rd) if pos else
                         s.bracket_indices(ba(allix), factor=fa_all, round_decimals=rd))
                flags = "" if list(again) == list(idx) and snapshot(s) == before else " !AGAIN"
                return (",".join(str(int(k)) for k in idx) if len(idx) else "-") + flags
            out = (s.marginal_rates(ba(allix), fa_all, rd) if pos else
                   s.marginal_rates(ba(allix), factor=fa_all, round_base_decimals=rd))
            # same arguments to bracket_indices: at or above the first threshold (index >= 0)
            # the reported rate must be the rate of the reported bracket
            flags = ""
            if len(idx) != len(out) or any(int(k) >= 0 and exact(s.rates[int(k)]) != exact(v) for k, v in zip(idx, out)):
                flags = " !IDX"
            res = fmt_vals(exact(v) for v in out)
            # the returned array is the caller's: overwriting it must not reach the scale
            out[...] = 54321.0
            if snapshot(s) != before:
                flags += " !MUT"
            return res + flags
        except Exception:
            return "ERR"
    if op in ("thr", "ratefb"):
        ins = parse_scale(f[3])
        kind, bases = split_bases(f[4])
        try:
            s = mk("mr" if pos or op == "ratefb" else "la", ins)       # threshold_from_tax_base is shared by both rate scales
            s = _disturb(s, case.line)
            before = snapshot(s)
            out = s.threshold_from_tax_base(arr(bases, kind)) if op == "thr" else s.rate_from_tax_base(arr(bases, kind))
            res = fmt_vals(exact(v) for v in out)
            out[...] = 54321.0
            return res + ("" if snapshot(s) == before else " !MUT")
        except Exception:
            return "ERR"
    if op == "ratefi":
        ins = parse_scale(f[2])
        idx = [] if f[3] == "-" else [int(k) for k in f[3].split(",")]
        try:
            s = mk("mr", ins)
            out = s.rate_from_bracket_indice(numpy.array(idx, dtype=numpy.int16 if pos else numpy.int64))
            return fmt_vals(exact(v) for v in out)
        except Exception:
            return "ERR"
    if op in ("macalc", "lacalc", "macalcR", "lacalcR"):
        ins = parse_scale(f[2])
        kind, bases = split_bases(f[3])
        try:
            s = mk("ma" if op.startswith("ma") else "la", ins)
            s = _disturb(s, case.line)
            if op.endswith("R"):
                call = (lambda a: s.calc(a, True)) if pos else (lambda a: s.calc(a, right=True))
            else:
                call = lambda a: s.calc(a)
            vals, flags = _vec_and_single(call, len(bases), exact if op.startswith("ma") else snap_la, s,
                                          lambda ix: arr([bases[k] for k in ix], kind))
            return fmt_vals(vals) + flags
        except Exception:
            return "ERR"
    if op in ("sacalc", "sacalcx"):
        right, ins = f[2] == "R", parse_scale(f[3])
        if op == "sacalcx":                                   # bases may be +-inf
            kind, bases = "", [float(t) if t in ("inf", "-inf") else F(t) for t in f[4].split(",")]
        else:
            kind, bases = split_bases(f[4])
        try:
            s = mk("sa", ins)
            s = _disturb(s, case.line)
            if pos:
                call = lambda a: s.calc(a, right)
            elif right:
                call = lambda a: s.calc(a, right=True)
            else:
                call = lambda a: s.calc(a)        # default right=False
            vals, flags = _vec_and_single(call, len(bases), exact, s, lambda ix: arr([bases[k] for k in ix], kind))
            # this scale also accepts a scalar, a 0-d array and a 2-d array: same values
            if bases and not flags and op == "sacalc":
                b0 = int(bases[0]) if kind == "i" else float(bases[0])
                if exact(s.calc(b0, right=right)) != vals[0] or exact(s.calc(numpy.array(b0), right=right)) != vals[0]:
                    flags = " !VEC"
                if len(bases) % 2 == 0:
                    two = s.calc(arr(bases, kind).reshape(2, -1), right=right)
                    if two.shape != (2, len(bases) // 2) or [exact(v) for v in two.reshape(-1)] != vals:
                        flags = " !VEC"
            return fmt_vals(vals) + flags
        except Exception:
            return "ERR"
    if op == "todict":
        kind, k, dec, ins = f[2], F(f[3]), parse_rd(f[4]), parse_scale(f[5])
        try:
            s = mk(kind, ins)
            s = _disturb(s, case.line)
            if kind in ("mr", "la") and ((k, dec) != (F(1), None) or pos):
                s = s.multiply_thresholds(float(k), dec) if pos else s.multiply_thresholds(float(k), decimals=dec, inplace=False)
            d = s.to_dict()
            if not isinstance(d, dict) or any(not isinstance(key, str) for key in d):
                return "ERR"
            return show_brackets([(exact(float(key)), exact(v)) for key, v in d.items()])
        except Exception:
            return "ERR"
    if op in ("apth", "switch", "avgrate", "margrate"):
        from openfisca_core import commons
        try:
            if op == "apth":
                ths, cs = [float(x) for x in parse_vals(f[2])], [float(x) for x in parse_vals(f[3])]
                kind, xs = split_bases(f[4])
                out = commons.apply_thresholds(arr(xs, kind), ths if pos else numpy.array(ths), cs if pos else numpy.array(cs))
                return fmt_vals(exact(v) for v in out)
            if op == "switch":
                table = {(int(k) if pos and k.denominator == 1 else float(k)): float(v) for k, v in parse_scale(f[2])}
                kind, cs = split_bases(f[3])
                out = commons.switch(arr(cs, kind), table)
                return fmt_vals(exact(v) for v in out)
            trim = None if f[2] == "-" else [float(F(x)) for x in f[2].split(":")]
            ts, vs = arr(parse_vals(f[3])), [float(x) for x in parse_vals(f[4])]
            fn = commons.average_rate if op == "avgrate" else commons.marginal_rate
            vs = vs if pos else numpy.array(vs)                # a list is converted to float32 by the function
            t0 = ts.copy()
            out = fn(ts, vs, trim) if pos else fn(ts, vs, trim=trim) if trim is not None else fn(ts, vs)
            flags = "" if numpy.array_equal(ts, t0) else " !ARG"
            if any(numpy.isinf(v) for v in out):
                return "ERR"
            return (",".join("nan" if numpy.isnan(v) else fr(exact(v)) for v in out) if len(out) else "-") + flags
        except Exception:
            return "ERR"
    raise ValueError("unknown op " + op)


def snap_la(v) -> F:
    """linear average: one float division inside; keep the exact float, but make the vector /
    single comparison insensitive to the last bits"""
    x = exact(v)
    return F(round(x * 2 ** 30), 2 ** 30)


def canon_equal(case: Case, a: str, b: str) -> bool:
    if a == b:
        return True
    f = case.line.split()
    if f[1] in APPROX_OPS:
        return approx_equal(a, b)
    if f[1] == "todict" and f[4] not in ("-", "0"):
        # thresholds rounded to 1 or 2 decimals: n / 10^d is not a binary fraction, the key is the nearest float
        return approx_equal(a, b)
    return False


# ----------------------------------------------------------------------------------------
# oracle: the textbook definitions over Fraction


def _flags(out: str):
    parts = out.split(" !")
    return parts[0], parts[1:]


def _rounded(ths, rd):
    """(ties down, ties up) roundings of the scaled thresholds; identical lists without ties / rounding"""
    if rd is None:
        return ths, ths
    lo, hi = [], []
    for t in ths:
        if is_tie(t, rd):
            q = t * 10 ** rd
            fl = q.numerator // q.denominator
            lo.append(F(fl, 10 ** rd))
            hi.append(F(fl + 1, 10 ** rd))
        else:
            lo.append(half_even(t, rd))
            hi.append(half_even(t, rd))
    return lo, hi


def _containing(ths, b):
    """indices k with t_k <= b <= t_{k+1} (closed: at a threshold both neighbours qualify)"""
    return [k for k in range(len(ths)) if ths[k] <= b and (k + 1 == len(ths) or b <= ths[k + 1])]


def _index_oracle(op, brs, fac, rd, bases, got):
    """reported bracket / rate / threshold against the bracket containing the base"""
    # rounded thresholds; on an exact rounding tie the eps perturbation decides, so both
    # neighbours are admitted: `lo` rounds every tie down, `hi` up (count(hi) <= k + 1 <= count(lo))
    lo, hi = _rounded([fac * t for t, _ in brs], rd)
    for b, g in zip(bases, got):
        if b < hi[0] or (b == hi[0] and hi[0] > 0) or lo[0] != hi[0] and b <= hi[0]:
            continue                      # no bracket contains the base / convention (Appendix A)
        cand = _containing(lo, b) + _containing(hi, b)
        ks = list(range(min(cand), max(cand) + 1))
        if op == "mridx":
            if int(g) not in ks:
                return ("mr-index", f"scale {fmt_scale(brs)} factor {fac} decimals {rd} base {b}: bracket {g} does not contain the base")
        elif op in ("mrrate", "ratefb"):
            if F(g) not in [brs[k][1] for k in ks]:
                return ("mr-rate", f"scale {fmt_scale(brs)} factor {fac} decimals {rd} base {b}: rate {g} is not the rate of the bracket containing the base")
        else:
            if F(g) not in [brs[k][0] for k in ks]:
                return ("mr-index", f"scale {fmt_scale(brs)} base {b}: threshold {g} is not the one of the bracket containing the base")
    return None


def oracle(case: Case, out: str):
    if not case.claimed or SILENT in case.tags:
        return None
    f = case.line.split()
    op = f[1]
    body, flags = _flags(out)
    if "VEC" in flags or "LEN" in flags:
        return ("vector-pointwise", f"{op}: a base evaluated alone differs from its value inside the vector ({case.line[:160]})")
    if "ARG" in flags or "AGAIN" in flags or "MUT" in flags:
        return ("calc-side-effect", f"{op}: the call altered its argument or the scale's brackets, or the same call answered differently "
                                    f"the second time ({', '.join(flags)}): {case.line[:160]}")
    if "KIND" in flags:
        return ("insertion-order", "rate-like and amount-like add_bracket disagree on " + f[2])
    if "IDX" in flags:
        return ("mr-rate-index", "marginal_rates(b, factor, decimals) differs from rates[bracket_indices(b, factor, decimals)] "
                                 "for a base at or above the first threshold: " + case.line[:200])
    if op == "build":
        want = fmt_scale(spec_build(parse_scale(f[2])))
        if body != want:
            return ("insertion-order", f"brackets added as {f[2]} give {body}, the bracket set is {want}")
        return None
    if op in ("mrcalc", "mrcalcv"):
        facs, rd, ins, bases = parse_vals(f[3]), parse_rd(f[4]), parse_scale(f[5]), split_bases(f[6])[1]
        if len(facs) == 1:
            facs = facs * len(bases)
        brs = spec_build(ins)
        if body == "ERR":
            return ("raises", "calc raised on " + case.line[:200])
        vals = parse_vals(body)
        for b, v, fac in zip(bases, vals, facs):
            if fac <= 0:
                continue
            want = spec_mr(brs, b, fac) if rd is None else spec_mr_rounded(brs, b, fac, rd)
            if want is not None and v != want:
                return ("mr-calc", f"scale {fmt_scale(brs)} factor {fac} decimals {rd} base {b}: calc={v}, definition={want}")
        return None
    if op == "ratefi":
        brs = spec_build(parse_scale(f[2]))
        idx = [] if f[3] == "-" else [int(k) for k in f[3].split(",")]
        if not idx or not all(0 <= k < len(brs) for k in idx):
            return None
        if body == "ERR":
            return ("raises", "rate_from_bracket_indice raised on valid indices: " + case.line[:200])
        if parse_vals(body) != [brs[k][1] for k in idx]:
            return ("mr-rate", f"scale {fmt_scale(brs)}: rate_from_bracket_indice({idx}) = {body}")
        return None
    if op in ("mridx", "mrrate", "mridxv", "mrratev", "thr", "ratefb"):
        if op.startswith("mr"):
            facs, rd, ins, bases = parse_vals(f[3]), parse_rd(f[4]), parse_scale(f[5]), split_bases(f[6])[1]
        else:
            facs, rd, ins, bases = [F(1)], None, parse_scale(f[3]), split_bases(f[4])[1]
        brs = spec_build(ins)
        if not brs or not bases or any(x <= 0 for x in facs):
            return None
        if body == "ERR":
            return ("raises", f"{op} raised on " + case.line[:200])
        if len(facs) > 1:                         # an array of factors: element by element
            got = body.split(",")
            for b, g, fac in zip(bases, got, facs):
                r = _index_oracle(op[:-1], brs, fac, rd, [b], [g])
                if r:
                    return r
            return None
        return _index_oracle(op[:-1] if op.endswith("v") else op, brs, facs[0], rd, bases, body.split(","))
    if op in ("macalc", "lacalc", "sacalc"):
        if op == "sacalc":
            right, ins, bases = f[2] == "R", parse_scale(f[3]), split_bases(f[4])[1]
        else:
            right, ins, bases = False, parse_scale(f[2]), split_bases(f[3])[1]
        brs = spec_build(ins)
        if body == "ERR":
            return ("raises", f"{op} raised on " + case.line[:200]) if brs or op != "lacalc" else None
        vals = parse_vals(body)
        for b, v in zip(bases, vals):
            if op == "macalc":
                want = spec_ma(brs, b)
                if v != want:
                    return ("ma-calc", f"scale {fmt_scale(brs)} base {b}: calc={v}, sum of the amounts below the base={want}")
            elif op == "sacalc":
                want = spec_sa(brs, b, right)
                if v != want:
                    return ("sa-calc", f"scale {fmt_scale(brs)} base {b} right={right}: calc={v}, amount of the bracket containing the base={want}")
            else:
                want = spec_la(brs, b)
                if want is not None and abs(v - want) > F(1, 2 ** 20):
                    return ("la-calc", f"scale {fmt_scale(brs)} base {b}: calc={float(v)}, base x interpolated rate={float(want)}")
        return None
    return None


def nontrivial(case: Case, out: str) -> bool:
    f = case.line.split()
    if out.startswith("ERR"):
        return False
    if f[1] in NO_SCALE_OPS:
        return out.count(",") >= 1
    ins = f[-1] if f[1] in ("build", "todict") else f[-2]
    return len(spec_build(parse_scale(ins))) >= 2


# ----------------------------------------------------------------------------------------
# generators


SILENT = "oracle-silent"
NO_SCALE_OPS = ("apth", "switch", "avgrate", "margrate")     # commons.formulas / commons.rates: no scale on the line


def _mk(op, *fields, claimed=True, tags=(), binding=True):
    """`claimed=False`: outside the statement's claim domain (Appendix A) -- the ORACLE is silent there,
    but the line stays binding for the correspondence, because the model transcribes the code on
    that region too (a diff there is a behaviour change nobody has proved harmless).
    `binding=False` would be for regions that are genuinely unmodelled; no stream needs it."""
    return Case(line=" ".join(["sca", op, *map(str, fields)]), claimed=binding,
                tags=(op,) + tuple(tags) + (() if claimed else (SILENT,)))


def rand_ins(rng: random.Random, nmax=8, nonneg=False):
    """1..nmax brackets in insertion order: integer thresholds in [-2^10, 2^10] with 0, shared
    and duplicated thresholds; rates / amounts in 2^-4 Z"""
    n = rng.randint(1, nmax)
    style = rng.choice(["wide", "small", "nonneg", "fifty", "edge"])
    if nonneg and style in ("wide", "small", "edge"):
        style = rng.choice(["nonneg", "fifty", "small+"])
    ths = []
    while len(ths) < n:
        if style == "wide":
            t = rng.randint(-1024, 1024)
        elif style == "small":
            t = rng.randint(-6, 12)
        elif style == "small+":
            t = rng.randint(0, 12)
        elif style == "nonneg":
            t = rng.randint(0, 1024)
        elif style == "fifty":
            t = 50 * rng.randint(0 if nonneg else -4, 20)
        else:
            t = rng.choice([-1024, -1023, -1, 0, 1, 2, 1023, 1024, rng.randint(-1024, 1024)])
        if rng.random() < 0.22 and ths:
            t = rng.choice(ths)                       # duplicate: add_bracket adds the rates up
        ths.append(t)
    if rng.random() < 0.4:
        ths[rng.randrange(n)] = 0
    ins = [(F(t), F(rng.choice([0, 0, 1, 2, 4, 8, 16, rng.randint(-4, 16), rng.randint(-4, 16)]), 16)) for t in ths]
    return ins


def bases_for(rng, brs, fac=F(1), step=Q, extra=6):
    ths = [fac * t for t, _ in brs] or [F(0)]
    bs = set()
    for t in ths:
        tt = F(round(t / step)) * step
        bs |= {t if t % step == 0 else tt, tt + step, tt - step}
    bs |= {min(ths) - 100, min(ths) - step, max(ths) + 1000, max(ths) + step, F(0), F(-3), F(-3) * step}
    for _ in range(extra):
        bs.add(F(rng.randint(-4200, 4200)) * step)
    bs = sorted(b for b in bs if b % step == 0)
    return bs


def _split_index_bases(ths, bases):
    """(claimed, unclaimed) bases for bracket index / marginal rate (Appendix A)"""
    if not ths:
        return [], bases
    t0 = ths[0]
    inn, out = [], []
    for b in bases:
        (inn if b > t0 or (b == t0 and t0 <= 0) else out).append(b)
    return inn, out


def cases_for_scale(rng: random.Random, ins, full=True):
    brs = spec_build(ins)
    s = fmt_scale(ins)
    out = [_mk("build", s)]
    ths = [t for t, _ in brs]
    bases = bases_for(rng, brs)
    one = eps_eff(F(1))
    out.append(_mk("mrcalc", 0, 1, "-", s, fmt_vals(bases), tags=("plain",)))
    inn, outb = _split_index_bases(ths, bases)
    for opn in ("mridx", "mrrate"):
        if inn:
            out.append(_mk(opn, fr(one), 1, "-", s, fmt_vals(inn), tags=("in",)))
        if outb:
            out.append(_mk(opn, fr(one), 1, "-", s, fmt_vals(outb), claimed=False, tags=("below-first",)))
    if inn:
        out.append(_mk("thr", fr(one), s, fmt_vals(inn)))
        out.append(_mk("ratefb", fr(one), s, fmt_vals(inn)))
    if outb and full:
        out.append(_mk("thr", fr(one), s, fmt_vals(outb), claimed=False, tags=("below-first",)))
    out.append(_mk("macalc", s, fmt_vals(bases)))
    out.append(_mk("sacalc", "L", s, fmt_vals(bases)))
    out.append(_mk("sacalc", "R", s, fmt_vals(bases)))
    # linear average: claimed on [t_0, t_last) of a scale with at least two brackets
    if len(brs) >= 2:
        la_in = [b for b in bases if ths[0] <= b < ths[-1]]
        la_out = [b for b in bases if not (ths[0] <= b < ths[-1])]
        if la_in:
            out.append(_mk("lacalc", s, fmt_vals(la_in), tags=("in",)))
        if la_out:
            out.append(_mk("lacalc", s, fmt_vals(la_out), claimed=False, tags=("outside",)))
    else:
        out.append(_mk("lacalc", s, fmt_vals(bases), claimed=False, tags=("single",)))
    if not full:
        return out
    # threshold factor
    fac = F(rng.choice([1, 2, 3, 4, 5, 7, 8, 12, 16, 20, 24, 40]), 8)
    fb = bases_for(rng, brs, fac, step=F(1, 8), extra=3)
    out.append(_mk("mrcalc", 0, fr(fac), "-", s, fmt_vals(fb), tags=("factor",)))
    e = eps_eff(fac)
    fin, fout = _split_index_bases([fac * t for t in ths], fb)
    # a base equal to a scaled positive threshold: the side depends on fl(factor + eps); the
    # model is given that very eps, the oracle accepts both neighbours
    for opn in ("mridx", "mrrate"):
        if fin:
            out.append(_mk(opn, fr(e), fr(fac), "-", s, fmt_vals(fin), tags=("factor",)))
        if fout:
            out.append(_mk(opn, fr(e), fr(fac), "-", s, fmt_vals(fout), claimed=False, tags=("factor", "below-first")))
    out += variant_cases(rng, s, brs)
    # rounding, stream A (calc exact, DESIGN section 4): decimals 0 with any dyadic factor (scaled
    # thresholds off the rounding lattice, bases on the 1/8 lattice); decimals 1, 2 with integer
    # scaled thresholds and bases in 1/2 Z resp. 1/4 Z
    d = rng.choice([0, 0, 1, 2])
    if d == 0:
        rf = F(rng.choice(OFF_LATTICE_FACTORS + [8, 16]), 8)
        rb = round_bases(rng, brs, rf, 0, F(1, 8))
    else:
        rf = F(rng.choice([1, 1, 2, 3]))
        rb = bases_for(rng, brs, rf, step=F(1, 2) if d == 1 else Q, extra=4)
    out += _round_lines(("mrcalc", "mridx", "mrrate"), rf, d, s, ths, rb)
    # stream B (index / rate only, exact for every dyadic threshold): decimals 0, 1, 2 with scaled
    # thresholds having 3 binary digits, bases at t*f, round(t*f) and +-1/8, +-1/4 around both
    d = rng.choice([0, 1, 2])
    rf = F(rng.choice(OFF_LATTICE_FACTORS), 8)
    out += _round_lines(("mridx", "mrrate"), rf, d, s, ths, round_bases(rng, brs, rf, d, F(1, 8)))
    return out


def variant_cases(rng, s, brs):
    """argument kinds beyond a float vector with a scalar factor: integer arrays, an array of
    factors (one per base), bracket indices given directly, `right=True` where it is ignored"""
    out = []
    ths = [t for t, _ in brs]
    one = fr(eps_eff(F(1)))
    # integer arrays
    ib = sorted({t + dd for t in ths for dd in (-1, 0, 1)} | {F(0), ths[0] - 100, ths[-1] + 1000})
    itxt = "i:" + fmt_vals(ib)
    iin, _ = _split_index_bases(ths, ib)
    itin = "i:" + fmt_vals(iin)
    menu = [("mrcalc", (0, 1, "-", s, itxt)), ("macalc", (s, itxt)), ("sacalc", ("L", s, itxt)), ("sacalc", ("R", s, itxt))]
    if iin:
        menu += [("mridx", (one, 1, "-", s, itin)), ("mrrate", (one, 1, "-", s, itin)), ("thr", (one, s, itin)),
                 ("ratefb", (one, s, itin)), ("mrrate", (one, 1, 0, s, itin)), ("mrcalc", (one, 1, 0, s, itxt))]
    la_in = [b for b in ib if len(brs) >= 2 and ths[0] <= b < ths[-1]]
    if la_in:
        menu.append(("lacalc", (s, "i:" + fmt_vals(la_in))))
    for opn, fields in rng.sample(menu, 3):
        out.append(_mk(opn, *fields, tags=("int-array",)))
    # the same integer-valued bases as a float32 array (exact there: < 2^24 with the rates' four binary digits)
    opn, fields = rng.choice(menu)
    out.append(_mk(opn, *fields[:-1], "f:" + fields[-1][2:], tags=("float32-array",)))
    # integer arrays with a fractional factor: integer bases in the gaps between t*floor(f), t*f, t*ceil(f)
    fi = F(rng.choice([4, 12, 22, 10, 9, 5, 21, 3, 20, 13]), 8)
    fl, ce = fi.numerator // fi.denominator, -((-fi.numerator) // fi.denominator)
    gb = set()
    for t in ths:
        x = fi * t
        k = x.numerator // x.denominator
        gb |= {F(k - 1), F(k), F(k + 1), F(k + 2), t * fl, t * fl + 1, t * ce, t * ce - 1, (t * fl + k) // 2}
    gb |= {min(fi * ths[0], fi * ths[-1]) - 50, max(fi * ths[0], fi * ths[-1]) + 500}
    gb = sorted({F(F(b).numerator // F(b).denominator) for b in gb})
    gin, gout = _split_index_bases([fi * t for t in ths], gb)
    ef = fr(eps_eff(fi))
    out.append(_mk("mrcalc", 0, fr(fi), "-", s, "i:" + fmt_vals(gb), tags=("int-array", "factor")))
    for opn in ("mridx", "mrrate"):
        if gin:
            out.append(_mk(opn, ef, fr(fi), "-", s, "i:" + fmt_vals(gin), tags=("int-array", "factor")))
        if gout and opn == "mridx":
            out.append(_mk(opn, ef, fr(fi), "-", s, "i:" + fmt_vals(gout), claimed=False, tags=("int-array", "factor", "below-first")))
    # an array of factors: base j is placed next to a threshold scaled by its own factor
    d = rng.choice([None, None, 0, 0, 1, 2])
    facs, vb = [], []
    for _ in range(rng.randint(3, 10)):
        fj = F(rng.choice(OFF_LATTICE_FACTORS + [8, 16]), 8)
        x = fj * rng.choice(ths)
        k = (x * 8).numerator // (x * 8).denominator
        facs.append(fj)
        vb.append(F(k + rng.choice([-8, -2, -1, 0, 0, 1, 2, 8, 400]), 8))
    ipre = ""
    if rng.random() < 0.5:                       # ... as an integer array
        vb = [F(b.numerator // b.denominator) for b in vb]
        ipre = "i:"
    eps = [eps_eff(x) for x in facs]
    dd = "-" if d is None else d
    if d in (None, 0):
        out.append(_mk("mrcalcv", fmt_vals([F(0)] * len(facs) if d is None else eps), fmt_vals(facs), dd, s, ipre + fmt_vals(vb), tags=("factor-array",)))
    keep = []
    for j, (fj, b) in enumerate(zip(facs, vb)):
        lo, hi = _rounded([fj * ths[0]], d)
        if b > hi[0] or (b == hi[0] and lo[0] == hi[0] and (d is not None or hi[0] <= 0)):
            keep.append(j)
    if keep:
        sel = lambda l: fmt_vals([l[j] for j in keep])
        out.append(_mk("mridxv", sel(eps), sel(facs), dd, s, ipre + sel(vb), tags=("factor-array",)))
        out.append(_mk("mrratev", sel(eps), sel(facs), dd, s, ipre + sel(vb), tags=("factor-array",)))
    # rate_from_bracket_indice on indices given directly
    n = len(brs)
    out.append(_mk("ratefi", s, ",".join(str(rng.randrange(n)) for _ in range(rng.randint(1, 6))), tags=("valid",)))
    if rng.random() < 0.3:
        bad = rng.choice(["-", str(n), f"0,{n + 2}", "-1", f"{-n}", f"{-n - 1}", f"{n - 1},-1"])
        out.append(_mk("ratefi", s, bad, claimed=False, tags=("out-of-range",)))
    # `right=True` is accepted and ignored by the marginal-amount and linear-average scales
    if rng.random() < 0.25:
        bases = bases_for(rng, brs, extra=2)
        out.append(_mk("macalcR", s, fmt_vals(bases), claimed=False, tags=("right-ignored",)))
        out.append(_mk("lacalcR", s, fmt_vals(bases), claimed=False, tags=("right-ignored",)))
    return out


OFF_LATTICE_FACTORS = [1, 3, 4, 5, 7, 9, 11, 12, 13, 15, 17, 20, 21, 27]    # eighths


def round_bases(rng, brs, fac, d, step):
    """bases on the lattice `step` at / next to every scaled threshold t*f and its two rounding
    candidates, +- one and two steps; below the first, above the last"""
    bs = set()
    pts = []
    for t, _ in brs:
        x = fac * t
        q = x * 10 ** d
        fl = q.numerator // q.denominator
        pts += [x, F(fl, 10 ** d), F(fl + 1, 10 ** d)]
    for p in pts:
        k = (p / step).numerator // (p / step).denominator
        for j in (-2, -1, 0, 1, 2, 3):
            bs.add((k + j) * step)
    xs = [fac * t for t, _ in brs] or [F(0)]
    bs |= {min(xs) - 100, max(xs) + 1000, F(0)}
    for _ in range(3):
        bs.add(F(rng.randint(-8400, 8400)) * step)
    return sorted(bs)


def _round_lines(ops, rf, d, s, ths, bases):
    """lines with rounding; index / rate lines are binding from the first rounded threshold on"""
    out = []
    e = fr(eps_eff(rf))
    lo, hi = _rounded([rf * t for t in ths], d)
    inn, outb = [], []
    for b in bases:
        (inn if b > hi[0] or (b == hi[0] and lo[0] == hi[0]) else outb).append(b)
    for opn in ops:
        if opn == "mrcalc":
            out.append(_mk(opn, e, fr(rf), d, s, fmt_vals(bases), tags=("round", f"d{d}")))
            continue
        if inn:
            out.append(_mk(opn, e, fr(rf), d, s, fmt_vals(inn), tags=("round", f"d{d}")))
        if outb:
            out.append(_mk(opn, e, fr(rf), d, s, fmt_vals(outb), claimed=False, tags=("round", "below-first")))
    return out


def extra_cases(rng, ins):
    """observation points beside calc: to_dict (also after a rounding multiply_thresholds, where thresholds
    collapse), the single-amount scale at +-inf (its guard amounts)"""
    out = []
    s = fmt_scale(ins)
    brs = spec_build(ins)
    kind = rng.choice(["mr", "la", "ma", "sa"])
    out.append(_mk("todict", kind, 1, "-", s, claimed=False, tags=(kind,)))
    if all(t >= 0 for t, _ in brs):               # (a negative threshold rounded to -0.0 prints as another key than 0.0)
        k = F(rng.choice(OFF_LATTICE_FACTORS + [1, 1, 2]), rng.choice([8, 8, 64, 1024]))
        out.append(_mk("todict", rng.choice(["mr", "la"]), fr(k), rng.choice(["-", 0, 0, 1, 2]), s, claimed=False, tags=("scaled",)))
    ths = [t for t, _ in brs]
    xb = ["inf", "-inf"] + [fr(b) for b in rng.sample(bases_for(rng, brs, extra=0), 3)]
    rng.shuffle(xb)
    out.append(_mk("sacalcx", rng.choice("LR"), s, ",".join(xb), claimed=False, tags=("inf",)))
    return out


def commons_cases(rng, ins):
    """commons.apply_thresholds / switch / average_rate / marginal_rate, the small pure functions formulas use
    with scales: thresholds of the scale as the thresholds, its rates as the choices; net incomes of the scale
    as the targets (steps of the varying income are powers of two: the quotients stay dyadic)"""
    out = []
    brs = spec_build(ins)
    ths = [t for t, _ in brs]
    rs = [r for _, r in brs]
    xs = bases_for(rng, brs, extra=2)
    shape = rng.choice(["same", "one-more", "one-more", "bad"])
    cs = {"same": rs, "one-more": rs + [F(rng.randint(-8, 24), 4)], "bad": rs[:-1] if rng.random() < 0.5 else rs + [F(1), F(2)]}[shape]
    pre = rng.choice(["", "", "i:"])
    if pre:
        xs = sorted({F(x.numerator // x.denominator) for x in xs})
    out.append(_mk("apth", fmt_vals(ths), fmt_vals(cs), pre + fmt_vals(xs), claimed=False, tags=(shape,)))
    # switch: the keys are distinct (a dict), conditions hit and miss them
    keys = rng.sample(range(-3, 12), rng.randint(1, 5))
    table = [(F(k), F(rng.randint(-20, 80), 4)) for k in keys]
    conds = [F(rng.choice(keys + [rng.randint(-4, 13)])) for _ in range(rng.randint(1, 8))]
    out.append(_mk("switch", fmt_scale(table), rng.choice(["", "i:"]) + fmt_vals(conds), claimed=False))
    if rng.random() < 0.1:
        out.append(_mk("switch", "-", "1,2", claimed=False, tags=("empty-table",)))
    # rates: gross incomes with power-of-two steps, net = gross - tax (non-negative thresholds: exact tax)
    n = rng.randint(2, 7)
    g = F(rng.randint(1, 64))
    gross = [g]
    for _ in range(n - 1):
        gross.append(gross[-1] + rng.choice([-1, 1, 1, 1]) * F(2) ** rng.randint(-1, 6))
    if rng.random() < 0.7:
        net = [x - spec_mr(brs, x) for x in gross]
    else:
        net = [F(rng.randint(-64, 640), 4) for _ in gross]
    trim = "-"
    if rng.random() < 0.5:
        a, b = F(rng.randint(-4, 12), 8), F(rng.randint(-4, 20), 8)
        trim = f"{fr(a)}:{fr(b)}"
    out.append(_mk("margrate", trim, fmt_vals(net), fmt_vals(gross), claimed=False))
    # average rate: varying = a power of two (or any non-zero value dividing exactly)
    var = [rng.choice([-1, 1, 1]) * F(2) ** rng.randint(-1, 7) for _ in range(n)]
    tgt = [v * F(rng.randint(-32, 48), 16) for v in var]
    out.append(_mk("avgrate", trim, fmt_vals(tgt), fmt_vals(var), claimed=False))
    return out


def perm_cases(ins, limit=None):
    """every insertion order of the same brackets"""
    out = []
    seen = set()
    for p in itertools.permutations(ins):
        if p in seen:
            continue
        seen.add(p)
        out.append(_mk("build", fmt_scale(list(p)), tags=("perm",)))
        if limit and len(out) >= limit:
            break
    return out


def degenerate_cases():
    out = []
    e = fr(eps_eff(F(1)))
    # empty scale, empty base vector: answered (errors of bracket_indices), not part of the statement
    out.append(_mk("build", "-", claimed=False))
    out.append(_mk("mrcalc", 0, 1, "-", "-", "0,5,-5", claimed=False, tags=("empty-scale",)))
    out.append(_mk("mridx", e, 1, "-", "-", "0,5", claimed=False, tags=("empty-scale",)))
    out.append(_mk("mrrate", e, 1, "-", "-", "0,5", claimed=False, tags=("empty-scale",)))
    out.append(_mk("mridx", e, 1, "-", "0:1/4", "-", claimed=False, tags=("empty-base",)))
    out.append(_mk("thr", e, "-", "1", claimed=False, tags=("empty-scale",)))
    out.append(_mk("macalc", "-", "0,5,-5", claimed=False, tags=("empty-scale",)))
    out.append(_mk("sacalc", "L", "-", "0,5,-5", claimed=False, tags=("empty-scale",)))
    out.append(_mk("lacalc", "-", "0,5", claimed=False, tags=("empty-scale",)))
    # a vector of no bases: an empty result (bracket_indices refuses it, above)
    for sc in ("0:1/4,10:1/2", "7:1/8"):
        out.append(_mk("mrcalc", 0, 1, "-", sc, "-", tags=("empty-base",)))
        out.append(_mk("mrcalc", e, "3/2", 0, sc, "-", tags=("empty-base",)))
        out.append(_mk("macalc", sc, "-", tags=("empty-base",)))
        out.append(_mk("sacalc", "L", sc, "-", tags=("empty-base",)))
        out.append(_mk("sacalc", "R", sc, "-", tags=("empty-base",)))
        out.append(_mk("lacalc", sc, "-", claimed=False, tags=("empty-base",)))
        out.append(_mk("mrrate", e, 1, "-", sc, "-", claimed=False, tags=("empty-base",)))
        out.append(_mk("thr", e, sc, "-", claimed=False, tags=("empty-base",)))
    # negative / zero threshold factor: answered, not binding
    out.append(_mk("mrcalc", 0, "-1", "-", "0:1/4,10:1/2", "-20,-5,0,5,20", claimed=False, tags=("neg-factor",)))
    out.append(_mk("mrcalc", 0, "-1/2", "-", "-10:1/4,0:1/8,10:1/2", "-20,-5,0,5,20", claimed=False, tags=("neg-factor",)))
    out.append(_mk("mridx", 0, "-1", "-", "0:1/4,10:1/2", "-20,-5,0,5,20", claimed=False, tags=("neg-factor",)))
    return out


def generate(rng: random.Random, tier: str):
    n_scales = 5000 if tier == "quick" else 90000
    n_perm = 120 if tier == "quick" else 3000
    out = degenerate_cases()
    for i in range(n_scales):
        ins = rand_ins(rng)
        out += cases_for_scale(rng, ins)
        if i % 4 == 0:
            out += extra_cases(rng, ins)
        if i % 8 == 0:
            out += commons_cases(rng, ins)
    for _ in range(n_perm):
        ins = rand_ins(rng, nmax=5)
        out += perm_cases(ins)
        # the built scale is then used: same values whatever the order
        p = list(ins)
        rng.shuffle(p)
        out += cases_for_scale(rng, p, full=False)
    return out


def enumerate_thorough():
    """every insertion sequence of 1..3 brackets with thresholds in {-2,0,1,3} (duplicates
    included: 84 sequences) x rates in {-1/16, 1/4, 1}, every op on the grid of bases
    -3..4 step 1/4"""
    out = []
    T = [F(-2), F(0), F(1), F(3)]
    R = [F(-1, 16), F(1, 4), F(1)]
    bases = [F(k, 4) for k in range(-12, 17)]
    e = fr(eps_eff(F(1)))
    for n in (1, 2, 3):
        for ths in itertools.product(T, repeat=n):
            for rs in itertools.product(R, repeat=n):
                ins = list(zip(ths, rs))
                brs = spec_build(ins)
                s = fmt_scale(ins)
                t0 = brs[0][0]
                out.append(_mk("build", s, tags=("enum",)))
                out.append(_mk("mrcalc", 0, 1, "-", s, fmt_vals(bases), tags=("enum",)))
                inn, outb = _split_index_bases([t for t, _ in brs], bases)
                out.append(_mk("mridx", e, 1, "-", s, fmt_vals(inn), tags=("enum",)))
                out.append(_mk("mrrate", e, 1, "-", s, fmt_vals(inn), tags=("enum",)))
                out.append(_mk("mridx", e, 1, "-", s, fmt_vals(outb), claimed=False, tags=("enum",)))
                out.append(_mk("macalc", s, fmt_vals(bases), tags=("enum",)))
                out.append(_mk("sacalc", "L", s, fmt_vals(bases), tags=("enum",)))
                out.append(_mk("sacalc", "R", s, fmt_vals(bases), tags=("enum",)))
                if len(brs) >= 2:
                    la_in = [b for b in bases if t0 <= b < brs[-1][0]]
                    out.append(_mk("lacalc", s, fmt_vals(la_in), tags=("enum",)))
                out.append(_mk("todict", ["mr", "la", "ma", "sa"][len(out) % 4], 1, "-", s, claimed=False, tags=("enum",)))
                out.append(_mk("sacalcx", "LR"[len(out) % 2], s, "-inf,-2,0,1/2,3,inf", claimed=False, tags=("enum",)))
    return out


def corpus():
    """no defect is recorded for C08; regression inputs: the repository's own examples and the
    boundary conventions documented in DESIGN (C08, observations)"""
    rng = random.Random(8)
    out = []
    for ins in ["0:0,100:1/8", "0:0,200:1/8,500:1/4", "0:0,100:1/16,300:1/2", "0:1/4", "7:1/8",
                "100:1/8,0:1/4", "-50:1/16,0:0,50:1/8,50:1/8", "0:1,0:-1", "1024:1,-1024:1/16"]:
        out += cases_for_scale(rng, parse_scale(ins))
    out += perm_cases(parse_scale("0:1/16,5:1/8,5:1/4,-3:1/2"))
    out += degenerate_cases()
    # rounding of the scaled thresholds, pinned: (f + eps) * t pushes an exact binary tie up when fl(f + eps) > f
    # (1 * 1/8 -> .13 at 2 decimals, 98 * 1/8 = 12.25 -> 12.3 at 1), numpy rounds it half to even when f >= 2
    # (17/8 * 1 = 2.125 -> 2.12); off-lattice non-ties (9/8 * 100 = 112.5 -> 112 at 0; 3/8 * 3 = 1.125 -> 1.1)
    for fac, d, ins, bs in [("1/8", 2, "1:1/4,3:1/2,98:1", "0,1/8,1/4,3/8,1/2,49/4,99/8,25/2"),
                            ("1/8", 1, "1:1/4,3:1/2,98:1", "0,1/8,1/4,3/8,1/2,49/4,99/8,25/2"),
                            ("17/8", 2, "1:1/4,3:1/2", "2,17/8,9/4,51/8,13/2"),
                            ("9/8", 0, "0:1/8,100:1/4,200:1/2", "112,449/4,225/2,113,225,226"),
                            ("3/8", 1, "3:1/4,7:1/2", "1,9/8,5/4,5/2,21/8,11/4")]:
        e = fr(eps_eff(F(fac)))
        out.append(_mk("mridx", e, fac, d, ins, bs, claimed=False, tags=("round", "pinned")))
        out.append(_mk("mrrate", e, fac, d, ins, bs, claimed=False, tags=("round", "pinned")))
    return out


def neighbours(case: Case):
    f = case.line.split()
    op = f[1]
    if op in NO_SCALE_OPS or op == "todict":
        return []
    ins = parse_scale(f[-1] if op == "build" else f[-2])
    rng = random.Random(1)
    out = []
    for k in range(len(ins)):
        out += cases_for_scale(rng, ins[:k] + ins[k + 1:], full=False)
    for dt in (-1, 1):
        out += cases_for_scale(rng, [(t + dt, r) for t, r in ins], full=False)
    return out


PROP = Prop(
    pid="C08",
    lean_targets=["OFCore.Props.C08"],
    driver="ofdrv_sca",
    generate=generate, impl=impl, oracle=oracle, nontrivial=nontrivial, canon_equal=canon_equal,
    corpus=corpus, enumerate_thorough=enumerate_thorough, neighbours=neighbours,
    extra_lean_files=["OFCore/TaxScale.lean", "OFCore/Lemmas/TaxScale.lean"],
    rule=("lines `sca <op> …` over scales of 1..8 brackets given in insertion order (integer thresholds in [-2^10, 2^10] "
          "drawn wide / small / non-negative / multiples of 50 / extremes, 0 forced in 40 %, a threshold repeated with "
          "probability 0.22 per bracket; rates and amounts in 2^-4 Z), built on both sides with add_bracket; bases = every "
          "(scaled) threshold, threshold +- one lattice step, below the first, above the last, 0, negatives, a few random "
          "lattice points. ops: build, mrcalc / mridx / mrrate (plain, with factor k/8, with round decimals 0/1/2: factors "
          "k/8 whose scaled thresholds are off the rounding lattice, bases on the 1/8 lattice at t*f, at both rounding candidates "
          "of t*f and +-1/8, +-1/4 around them; marginal_rates is also compared with rates[bracket_indices] for the same arguments; "
          "an array of factors, one per base: mrcalcv / mridxv / mrratev), integer arrays (int32 / int64) for every op, optional arguments "
          "spelled positionally on half of the lines and by keyword on the other half, rate_from_bracket_indice on given indices, thr, "
          "ratefb, macalc, sacalc L/R, lacalc; every insertion order of scales with <= 5 brackets. Each calc is evaluated "
          "on the vector and on every base alone; the vector call is made twice (the first result overwritten in between), its "
          "argument array must come back unchanged and unshared, the scale's brackets must not move; bases also as float32 arrays "
          "and as empty vectors. On a quarter of the lines the scale is first copied (copy / scale_tax_scales / multiply_*(inplace=False)) "
          "and the COPY is changed in place through the whole API, on another quarter the evaluated scale is such a copy whose ORIGINAL is "
          "changed afterwards. Round 2 observation points (oracle silent, correspondence binding): to_dict of the four scale kinds (also after "
          "a rounding multiply_thresholds, where thresholds collapse), the single-amount scale at +-inf (its guard amounts), and "
          "commons.apply_thresholds / switch / average_rate / marginal_rate (thresholds and rates of the scale as thresholds and choices, net "
          "incomes of the scale as targets, trims). A case is non-trivial when the scale has at least two distinct thresholds."),
    assumptions=[
        "IEEE rounding is modelled, not verified: inputs are on a dyadic lattice where the code's float arithmetic is exact; the "
        "(factor + eps) perturbation of MarginalRateTaxScale.calc is a parameter eps >= 0 of the model and the implementation's value "
        "is snapped to the 2^-12 lattice (10^-d with rounding) after checking it lies within 2^-20 of it",
        "LinearAverageRateTaxScale.calc contains one float division: compared with tolerance 2^-20",
        "vector and single-base evaluation are claimed equal after snapping, not bitwise (BLAS summation order)",
        "numpy primitives (tile, outer, minimum/maximum, dot, digitize, round) and bisect are modelled",
        "outside the claim domain the ORACLE is silent but every line stays binding for the correspondence (the model transcribes the "
        "code there too: index -1 and wrapped rate below the first threshold, linear average 0 outside [t_0, t_last), errors on empty "
        "arguments, negative factor, right= ignored by the marginal-amount and linear-average scales, out-of-range bracket indices)",
        "claim domain (Appendix A): calc everywhere; bracket index / marginal rate for bases >= the first threshold (and not equal to a "
        "positive first threshold); linear average on [t_0, t_last); conventions outside are compared but not binding",
    ],
    level_text=("Theorems (all bracket lists, all bases, every eps >= 0 and factor with factor + eps > 0; eps = 0, factor 1 is the textbook "
                "corollary): calc of a marginal-rate scale = sum of rate x length of the bracket part below the base, with factor and "
                "rounding (C08_marginal_rate_def*), closed form on the containing bracket and zero below the first threshold; the reported "
                "index k satisfies tau_k <= b < tau_k+1 (C08_bracket_contains*, lattice-gap and textbook corollaries), the containing bracket "
                "is the one reported with its rate (C08_bracket_reported), the reported rate is the slope of calc (C08_marginal_slope); "
                "marginal-amount, single-amount (left/right, below first) and linear-average definitions; add_bracket is order independent "
                "and yields the sorted scale with summed rates (C08_insertion_order, C08_built_sorted, C08_build_def); vector = pointwise. "
                "Round 2: calc is monotone in the base for rates >= 0 (C08_calc_monotone) and Lipschitz, hence continuous at thresholds "
                "(C08_calc_lipschitz); the bracket index is monotone in the base (C08_bracket_index_monotone); calc is affine with the bracket's rate "
                "between the bracket's two perturbed thresholds, ends included (C08_marginal_rate_derivative), and commons.marginal_rate of the "
                "scale's net incomes returns that rate (C08_finite_difference_rate), commons.average_rate of a linear-average scale's net income "
                "the interpolated rate (C08_average_rate_linear); SingleAmountTaxScale.calc as written, with guard bins and guard amounts, is the "
                "definition on every finite base (C08_single_amount_guards); to_dict of a built scale lists its brackets (C08_to_dict); "
                "apply_thresholds returns the choice of the first threshold not exceeded, the extra choice or 0 above all (C08_apply_thresholds*), "
                "switch the value of the matching key (C08_switch); marginal_rates / threshold_from_tax_base on a vector are the single-base "
                "computations and report the threshold and rate of the containing bracket (C08_vector_rates, C08_threshold_rate_from_tax_base); the conventions outside the claim domain as the code has them: index -1 and "
                "wrapped rate below the first threshold (C08_index_below_first), linear average 0 outside [t_0, t_last) (C08_linear_average_outside). "
                "Carried by the correspondence only: IEEE rounding (eps-snap), BLAS summation order, numpy/bisect primitives; conventions outside "
                "the claim domain (index below the first threshold, linear average at/after the last threshold) are compared, not binding."),
    exhaustive_note="thorough: every insertion sequence of 1..3 brackets over thresholds {-2,0,1,3} x rates {-1/16,1/4,1}, all ops, bases -3..4 step 1/4",
)
