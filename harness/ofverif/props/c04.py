"""C04 — period arithmetic agrees with the calendar."""
from __future__ import annotations

import datetime as dt
import random

from ..core import Case, Prop
from ..perutil import (DATED, FAMILY, O, addm, align, end_ord, fmt_date, fmt_period, parse_date,
                       parse_period_token, edge_date, some_date, uniform_date)

NAMED = ["this_year", "first_month", "first_day", "first_week", "first_weekday", "last_month",
         "last_3_months", "last_year", "n_2", "last_week", "last_fortnight", "last_2_weeks",
         "last_26_weeks", "last_52_weeks"]
SIZES = ["size_in_years", "size_in_months", "size_in_days", "size_in_weeks", "size_in_weekdays"]


def _off(x):
    return x if x in ("first-of", "last-of") else int(x)


def impl(case: Case) -> str:
    from openfisca_core.periods import DateUnit, Instant
    f = case.line.split()
    op, p = f[1], parse_period_token(f[2])
    rest = f[3:]
    try:
        if op == "stop":
            return fmt_date(tuple(p.stop))
        if op == "days":
            return str(p.days)
        if op in SIZES:
            return str(getattr(p, op))
        if op == "subperiods":
            return "[" + ",".join(fmt_period(q) for q in p.get_subperiods(DateUnit(rest[0]))) + "]"
        if op == "offset":
            q = p.offset(_off(rest[0]), DateUnit(rest[1]) if len(rest) > 1 else None)
            return fmt_period(q)
        if op == "offset_rt":
            k = int(rest[0])
            u = DateUnit(rest[1])
            return fmt_period(p.offset(k, u).offset(-k, u))
        if op == "ioffset":
            r = p.start.offset(_off(rest[0]), DateUnit(rest[1]))
            return "none" if r is None else fmt_date(tuple(r))
        if op == "contains":
            return "T" if p.contains(parse_period_token(rest[0])) else "F"
        if op == "intersection":
            a = None if rest[0] == "-" else Instant(parse_date(rest[0]))
            b = None if rest[1] == "-" else Instant(parse_date(rest[1]))
            r = p.intersection(a, b)
            return "none" if r is None else fmt_period(r)
        if op in NAMED:
            return fmt_period(getattr(p, op))
        if op == "date":
            d = p.date
            return fmt_date((d.year, d.month, d.day))
        if op == "is_eternal":
            return ("T" if p.is_eternal else "F") + "," + ("T" if p.start.is_eternal else "F")
        if op == "key":
            from openfisca_core import periods
            return periods.key_period_size(p).encode("ascii").hex()
        if op == "weight":
            from openfisca_core import periods
            w = periods.unit_weight(p.unit)
            return str(w) if periods.unit_weights()[p.unit] == w else f"{w}!table"
        if op == "isofmt":
            return ("T" if p.unit in DateUnit.isoformat else "F") + "," + ("T" if p.unit in DateUnit.isocalendar else "F")
    except Exception:
        return "ERR"
    raise ValueError("unknown op " + op)


def _ptuple(tok):
    u, d, n = tok.split("/")
    return u, parse_date(d), int(n)


def _valid(t):
    try:
        dt.date(*t)
        return True
    except ValueError:
        return False


def _aligned_for(u, s, tu):
    """start of a period of unit u aligned for splitting into tu"""
    if tu == "year":
        return s[1] == 1 and s[2] == 1
    if tu == "month":
        return s[2] == 1
    if tu == "week":
        return dt.date(*s).weekday() == 0
    return True


def oracle(case: Case, out: str):
    """Independent check of the statement with datetime only. Only speaks inside the claim
    domain and when every date involved stays within years 1..9999."""
    if not case.claimed:
        return None
    f = case.line.split()
    op = f[1]
    u, s, n = _ptuple(f[2])
    rest = f[3:]
    if u == "eternity" or n < 1 or not _valid(s):
        return None
    try:
        lo, hi = O(s), end_ord(u, s, n)
        if hi > dt.date.max.toordinal() - 800:
            return None
    except (ValueError, OverflowError):
        return None
    if op == "stop":
        if out == "ERR" or O(parse_date(out)) != hi:
            return ("stop", f"stop={out} but the last day has ordinal {hi} = {dt.date.fromordinal(hi)}")
    elif op in ("days", "size_in_days"):
        if out != str(hi - lo + 1):
            return (op, f"{op}={out}, the period covers {hi - lo + 1} days")
    elif op == "size_in_months":
        if u == "year" and out != str(12 * n):
            return (op, f"{out} != {12 * n}")
        if u == "month" and out != str(n):
            return (op, f"{out} != {n}")
    elif op == "size_in_weekdays":
        if u == "week" and out != str(7 * n):
            return (op, f"{out} != {7 * n}")
        if u in ("weekday",) and out != str(n):
            return (op, f"{out} != {n}")
    elif op == "size_in_weeks":
        if u == "week" and out != str(n):
            return (op, f"{out} != {n}")
    elif op == "contains":
        u2, s2, n2 = _ptuple(rest[0])
        if u2 == "eternity" or n2 < 1:
            return None
        lo2, hi2 = O(s2), end_ord(u2, s2, n2)
        if hi2 > dt.date.max.toordinal() - 800:
            return None
        want = "T" if (lo <= lo2 and hi2 <= hi) else "F"
        if out != want:
            return ("contains", f"contains={out}, day sets say {want}")
    elif op == "intersection":
        a = None if rest[0] == "-" else O(parse_date(rest[0]))
        b = None if rest[1] == "-" else O(parse_date(rest[1]))
        L = max(lo, a if a is not None else lo)
        H = min(hi, b if b is not None else hi)
        if L > H:
            if out != "none":
                return ("intersection", f"empty intersection but got {out}")
        else:
            if out in ("none", "ERR"):
                return ("intersection", f"non-empty intersection [{L},{H}] but got {out}")
            ru, rs, rn = _ptuple(out)
            if O(rs) != L or end_ord(ru, rs, rn) != H:
                return ("intersection", f"{out} does not cover exactly [{dt.date.fromordinal(L)},{dt.date.fromordinal(H)}]")
    elif op == "subperiods":
        tu = rest[0]
        if tu == "eternity" or FAMILY[tu] != FAMILY[u]:
            return None
        order = {"day": 0, "month": 1, "year": 2, "weekday": 0, "week": 1}
        if order[tu] > order[u]:
            if out != "ERR":
                return ("subperiods-guard", f"splitting {u} into larger {tu} returned {out[:80]}")
            return None
        if not _aligned_for(u, s, tu):
            return None
        if out == "ERR":
            return ("subperiods", "aligned same-family split raised")
        toks = out[1:-1].split(",") if out != "[]" else []
        # tokens contain commas inside dates: re-join
        subs = []
        cur = []
        for t in toks:
            cur.append(t)
            if len(cur) == 3:
                subs.append(",".join(cur))
                cur = []
        c = lo
        for q in subs:
            qu, qs, qn = _ptuple(q)
            if qu != tu or qn != 1:
                return ("subperiods", f"piece {q} is not one {tu}")
            if O(qs) != c:
                return ("subperiods", f"piece {q} does not start where the previous one ends")
            c = end_ord(qu, qs, qn) + 1
        if c != hi + 1:
            return ("subperiods", f"{len(subs)} pieces end at ordinal {c - 1}, period ends at {hi}")
    elif op == "offset_rt":
        k, ou = int(rest[0]), rest[1]
        if ou in ("month", "year") and s[2] > 28:
            return None
        if ou == "eternity":
            return None
        # stay in range
        try:
            shift = {"year": 366 * abs(k), "month": 31 * abs(k), "week": 7 * abs(k)}.get(ou, abs(k))
            if lo - shift < 2 or lo + shift > dt.date.max.toordinal() - 800:
                return None
        except OverflowError:
            return None
        if out != f[2]:
            return ("offset-roundtrip", f"offset {k} {ou} then {-k} gives {out}")
    elif op in ("ioffset", "offset") and len(rest) == 2:
        return _shift_oracle(op, f[2], u, s, n, rest[0], rest[1], out, lo)
    elif op == "is_eternal":
        if out != "F,F":
            return ("is-eternal", f"a dated period answers is_eternal={out}")
    elif op in ("this_year", "first_month", "first_day", "first_week", "first_weekday", "last_month",
                "last_3_months", "last_year", "n_2", "last_week", "last_2_weeks"):
        d = dt.date(*s)
        mon = d - dt.timedelta(days=d.weekday()) if d.toordinal() - d.weekday() >= 1 else None
        try:
            want = {
                "this_year": lambda: ("year", (s[0], 1, 1), 1),
                "first_month": lambda: ("month", (s[0], s[1], 1), 1),
                "first_day": lambda: ("day", s, 1),
                "first_weekday": lambda: ("weekday", s, 1),
                "first_week": lambda: ("week", (mon.year, mon.month, mon.day), 1),
                "last_month": lambda: ("month", addm(dt.date(s[0], s[1], 1), -1).timetuple()[:3], 1),
                "last_3_months": lambda: ("month", addm(dt.date(s[0], s[1], 1), -3).timetuple()[:3], 3),
                "last_year": lambda: ("year", (s[0] - 1, 1, 1), 1),
                "n_2": lambda: ("year", (s[0] - 2, 1, 1), 1),
                "last_week": lambda: ("week", (mon - dt.timedelta(days=7)).timetuple()[:3], 1),
                "last_2_weeks": lambda: ("week", (mon - dt.timedelta(days=14)).timetuple()[:3], 2),
            }[op]()
        except (ValueError, OverflowError, AttributeError):
            return None
        if want[1][0] < 1:
            return None
        w = f"{want[0]}/{fmt_date(tuple(want[1]))}/{want[2]}"
        if out != w:
            return (op, f"{op}={out}, expected {w}")
    return None


def _shift_oracle(op, ptok, u, s, n, off, ou, out, lo):
    """the start moved to the first / last day of the unit containing it, or by k units (month and year
    shifts only when the day cannot be clipped); a period keeps its unit and size"""
    if ou == "eternity":
        return None
    d = dt.date(*s)
    want = None
    try:
        if off == "first-of":
            if ou == "year":
                want = (s[0], 1, 1)
            elif ou == "month":
                want = (s[0], s[1], 1)
            elif ou == "week":
                if d.toordinal() - d.weekday() < 1:
                    return None
                want = (d - dt.timedelta(days=d.weekday())).timetuple()[:3]
            else:
                return None
        elif off == "last-of":
            if ou == "year":
                want = (s[0], 12, 31)
            elif ou == "month":
                want = dt.date.fromordinal(end_ord("month", (s[0], s[1], 1), 1)).timetuple()[:3]
            elif ou == "week":
                want = (d + dt.timedelta(days=6 - d.weekday())).timetuple()[:3]
            else:
                return None
        else:
            k = int(off)
            if ou in ("month", "year"):
                if s[2] > 28:
                    return None
                want = addm(d, k * (12 if ou == "year" else 1)).timetuple()[:3]
            else:
                want = (d + dt.timedelta(days=k * (7 if ou == "week" else 1))).timetuple()[:3]
    except (ValueError, OverflowError):
        return None
    want = tuple(want)
    if not (2 <= want[0] <= 9990):
        return None
    w = fmt_date(want) if op == "ioffset" else f"{u}/{fmt_date(want)}/{n}"
    if out != w:
        return ("shift", f"{op} {off} {ou} of {ptok} gives {out}, the calendar says {w}")
    return None


def nontrivial(case: Case, out: str) -> bool:
    f = case.line.split()
    return out not in ("ERR", "none") and not f[2].endswith("/1") or f[1] in ("subperiods", "intersection", "contains")


def _mk(op, p, *rest, claimed=True, tags=()):
    return Case(line=" ".join(["per", op, p, *map(str, rest)]), claimed=claimed, tags=(op,) + tuple(tags))


def _claimed_sizes(op, u):
    # year<->week(day) sizes are answered but not binding (Appendix A)
    if op == "size_in_weeks" and u in ("year", "month"):
        return False
    if op == "size_in_weekdays" and u in ("year", "month", "day"):
        return False
    return True


def _rand_period(rng, aligned=None, hi_year=9000, edges=False):
    u = rng.choice(DATED)
    s = edge_date(rng) if edges else some_date(rng, 1, hi_year)
    if aligned is None:
        aligned = rng.random() < 0.7
    if aligned:
        s = align(u, s)
        if u == "year" and rng.random() < 0.6:
            s = (s[0], 1, 1)
    n = rng.choice([1, 1, 1, 2, 3, 4, 5, 7, 12, 13, 24, 36, 52, 53, 100, rng.randint(1, 400)])
    if edges:
        n = rng.choice([1, 1, 2, 3, 4, 5, 6, 7, 8, 11, 12, 13, 14, 28, 29, 30, 31, 48, 52, 53, 54, 59, 60, 365, 366, 367, 400, 1461])
    return u, s, n


def _tok(u, s, n):
    return f"{u}/{fmt_date(s)}/{n}"


EDGE_HI = O((9990, 1, 1))


def cases_for(rng: random.Random, u, s, n):
    out = _cases_for(rng, u, s, n)
    # pendulum raises when any intermediate date leaves years 1..9999: periods touching that
    # edge are answered and compared with the model, but are outside the claim domain
    if end_ord(u, s, n) > EDGE_HI or s[0] < 2:
        for c in out:
            c.claimed = False
            c.tags = c.tags + ("range-edge",)
    return out


def _cases_for(rng: random.Random, u, s, n):
    p = _tok(u, s, n)
    out = [_mk("stop", p, tags=(u,)), _mk("days", p, tags=(u,))]
    for op in SIZES:
        out.append(_mk(op, p, claimed=_claimed_sizes(op, u), tags=(u,)))
    for tu in DATED:
        same = FAMILY[tu] == FAMILY[u]
        if n <= 40 or tu in ("year", "month") or (tu == "week" and n <= 200):
            out.append(_mk("subperiods", p, tu, claimed=same, tags=(u + ">" + tu,)))
    for ou in [u, "day", "month", "year", "week", "weekday"]:
        k = rng.choice([1, 2, 3, 11, 12, 13, -1, -5, -12, 40, -400, 0])
        out.append(_mk("offset_rt", p, k, ou, tags=(ou,)))
        out.append(_mk("offset", p, k, ou, tags=(ou,)))
    out.append(_mk("offset", p, rng.choice([-1, 1, 5])))
    for o in ("first-of", "last-of"):
        for ou in ("year", "month", "week", "day", "weekday"):
            out.append(_mk("ioffset", p, o, ou))
            out.append(_mk("offset", p, o, ou, tags=(o,)))
        out.append(_mk("offset", p, o, tags=(o,)))
    for ou in DATED:
        out.append(_mk("ioffset", p, rng.choice([0, 1, -1, 2, 7, 12, -12, 30, 31, 52, 53, 365, -366, 1461, rng.randint(-3000, 3000)]), ou, tags=(ou,)))
    for op in NAMED:
        out.append(_mk(op, p))
    for op in ("date", "is_eternal", "key", "weight", "isofmt"):
        out.append(_mk(op, p, tags=(u,)))
    # siblings in sequence, within one process: the same start with another size / another unit, the next day, and the
    # period itself again -- an answer remembered under a key that forgets the size, the unit or the day would show
    try:
        nxt = dt.date.fromordinal(O(s) + 1).timetuple()[:3]
        u2 = DATED[(DATED.index(u) + 1 + n % 4) % 5]
        sibs = [p, _tok(u, s, n + 1), _tok(u2, s, n), _tok(u, nxt, n), _tok(u, s, 1), _tok(u2, s, 1), p]
        for op in ("stop", "days", "size_in_days", "this_year", "first_week", "last_month", "key"):
            for q in sibs:
                out.append(_mk(op, q, tags=("sibling",)))
        for q in sibs:
            out.append(_mk("ioffset", q, "last-of", "month", tags=("sibling",)))
            out.append(_mk("subperiods", q, "day" if n <= 12 else "month", claimed=False, tags=("sibling",)))
    except (ValueError, OverflowError):
        pass
    # a second period: sub / super / overlapping / disjoint
    u2 = rng.choice(DATED)
    kind = rng.choice(["near", "inside", "same", "far"])
    base = dt.date(*s)
    try:
        if kind == "near":
            x = base + dt.timedelta(days=rng.randint(-400, 400))
        elif kind == "inside":
            x = base + dt.timedelta(days=rng.randint(0, max(0, min(400, end_ord(u, s, n) - O(s)))))
        elif kind == "same":
            x = base
        else:
            x = dt.date(*uniform_date(rng, 2, 9000))
        s2 = (x.year, x.month, x.day)
        if rng.random() < 0.5:
            s2 = align(u2, s2)
        n2 = rng.choice([1, 1, 2, 3, 12, 30, 400, n])
        p2 = _tok(u2, s2, n2)
        out.append(_mk("contains", p, p2, tags=(kind,)))
        out.append(_mk("contains", p2, p, tags=(kind,)))
        hi2 = dt.date.fromordinal(end_ord(u2, s2, n2))
        a, b = fmt_date(s2), fmt_date((hi2.year, hi2.month, hi2.day))
        for aa, bb in [(a, b), ("-", b), (a, "-"), ("-", "-"), (b, a)]:
            out.append(_mk("intersection", p, aa, bb, claimed=(aa, bb) != (b, a) or a == b, tags=(kind,)))
    except (ValueError, OverflowError):
        pass
    # ranges whose ends sit exactly on / next to the period's own first and last day
    try:
        lo, hi = O(s), end_ord(u, s, n)
        if 2 <= lo and hi < dt.date.max.toordinal() - 2:
            pts = sorted({lo - 1, lo, lo + 1, hi - 1, hi, hi + 1, (lo + hi) // 2})
            D = lambda o: fmt_date(dt.date.fromordinal(o).timetuple()[:3])
            pairs = [(a, b) for a in pts for b in pts if a <= b]
            for a, b in rng.sample(pairs, min(8, len(pairs))):
                out.append(_mk("intersection", p, D(a), D(b), tags=("edge",)))
            for a in rng.sample(pts, 3):
                out.append(_mk("intersection", p, D(a), "-", tags=("edge",)))
                out.append(_mk("intersection", p, "-", D(a), tags=("edge",)))
            # one-day and one-unit periods at the edges, for containment
            for o in rng.sample(pts, 3):
                q = _tok("day", dt.date.fromordinal(o).timetuple()[:3], 1)
                out.append(_mk("contains", p, q, tags=("edge",)))
    except (ValueError, OverflowError):
        pass
    return out


def generate(rng: random.Random, tier: str):
    n_periods = 900 if tier == "quick" else 12000
    n_edges = 900 if tier == "quick" else 8000
    out = []
    for _ in range(n_periods):
        u, s, n = _rand_period(rng)
        out += cases_for(rng, u, s, n)
    # the same operations around the turn of the year / ISO week 53 / end of February / month ends / ends of the calendar
    for _ in range(n_edges):
        u, s, n = _rand_period(rng, edges=True)
        out += cases_for(rng, u, s, n)
    # a few eternity / degenerate lines (answered, not binding)
    for op in ["stop", "days", "size_in_days", "this_year", "first_month"]:
        out.append(_mk(op, "eternity/-1,-1,-1/-1", claimed=False))
    return out


def enumerate_thorough():
    """every start date of the 400-year cycle 2000-2399 x 5 units x sizes {1,2,3,12,13}: stop, days,
    and the aligned same-family sub-period tilings"""
    out = []
    d = dt.date(2000, 1, 1)
    end = dt.date(2400, 1, 1)
    while d < end:
        s = (d.year, d.month, d.day)
        for u in DATED:
            for n in (1, 2, 3, 12, 13):
                p = _tok(u, s, n)
                out.append(_mk("stop", p, tags=("enum",)))
                out.append(_mk("days", p, tags=("enum",)))
            if u in ("month", "year") and d.day == 1:
                out.append(_mk("subperiods", _tok(u, s, 1), "day", tags=("enum",)))
                out.append(_mk("subperiods", _tok(u, s, 2), "month", tags=("enum",)))
            if u == "week" and d.weekday() == 0:
                out.append(_mk("subperiods", _tok(u, s, 2), "weekday", tags=("enum",)))
        one = _tok("day", s, 1)
        out.append(_mk("ioffset", one, "first-of", "week", tags=("enum",)))
        out.append(_mk("ioffset", one, "last-of", "week", tags=("enum",)))
        out.append(_mk("ioffset", one, "last-of", "month", tags=("enum",)))
        d += dt.timedelta(days=1)
    return out


def corpus():
    return eternity_stream() + _corpus()


def _corpus():
    ps = ["year/2012,2,29/1", "month/2012,1,31/1", "month/2011,12,31/3", "week/2015,12,28/1", "week/2020,12,28/2",
          "day/2000,2,28/2", "year/2000,1,1/400", "weekday/2021,1,3/8", "month/2100,2,1/1", "year/1,1,1/1",
          "month/9999,12,1/1", "day/9999,12,31/1", "year/9998,1,1/2"]
    rng = random.Random(4)
    out = []
    for p in ps:
        u, d, n = p.split("/")
        out += cases_for(rng, u, parse_date(d), int(n))
    return out


def eternity_stream():
    """the sixth unit: what every operation answers for the ETERNITY period / the eternity unit (no calendar
    statement applies, the oracle is silent; binding for the correspondence)"""
    E, P = "eternity/-1,-1,-1/-1", "month/2018,1,1/1"
    out = [f"per {op} {E}" for op in ["stop", "days"] + SIZES + NAMED + ["date", "is_eternal", "key", "weight", "isofmt"]]
    # periods that are almost the ETERNITY period, and dated periods of size 0 / -1 (`date` needs size 1)
    for q in ["eternity/-1,-1,-1/1", "eternity/2018,1,1/-1", "day/-1,-1,-1/-1", "year/2018,1,1/0", "month/2018,1,1/-1",
              "day/2018,2,30/1", "week/2018,1,1/1", "weekday/2018,1,1/2"]:
        out += [f"per {op} {q}" for op in ("date", "is_eternal", "key", "weight", "isofmt")]
    for u in ["day", "month", "year", "week", "weekday", "eternity"]:
        out += [f"per subperiods {E} {u}", f"per offset {E} 1 {u}", f"per offset {E} -2 {u}", f"per offset {E} first-of {u}",
                f"per offset {E} last-of {u}", f"per offset_rt {E} 1 {u}"]
    for q in [P, "year/2020,1,1/3", "day/2020,2,29/1", "week/2020,12,28/1", "weekday/2021,1,1/5"]:
        out += [f"per subperiods {q} eternity", f"per offset {q} 1 eternity", f"per offset {q} first-of eternity", f"per offset {q} last-of eternity",
                f"per ioffset {q} 1 eternity", f"per ioffset {q} first-of eternity", f"per ioffset {q} last-of eternity",
                f"per contains {E} {q}", f"per contains {q} {E}"]
    out += [f"per offset {E} 1", f"per offset {E} -3", f"per contains {E} {E}", f"per intersection {E} 2018,1,1 2018,12,31",
            f"per intersection {E} - -", f"per intersection {E} 2018,1,1 -", f"per intersection {E} - 2018,1,1"]
    return [Case(line=l, payload="", claimed=True, tags=("eternity",)) for l in out]


def neighbours(case: Case):
    f = case.line.split()
    u, s, n = _ptuple(f[2])
    out = []
    try:
        base = dt.date(*s)
    except ValueError:
        return out
    rng = random.Random(1)
    for dd in (-1, 0, 1):
        for nn in {max(1, n - 1), n, n + 1, 1}:
            try:
                x = base + dt.timedelta(days=dd)
                out += cases_for(rng, u, (x.year, x.month, x.day), nn)
            except (ValueError, OverflowError):
                pass
    return out


PROP = Prop(
    pid="C04",
    lean_targets=["OFCore.Props.C04"],
    unclaimed_diffs_binding=True,   # the model is a transcription outside the claim domain too (0 differences on every run so far)
    generate=generate, impl=impl, oracle=oracle, nontrivial=nontrivial,
    corpus=corpus, enumerate_thorough=enumerate_thorough, neighbours=neighbours,
    rule=("lines `per <op> <period> [args]` over periods whose start is drawn 60% from a boundary pool "
          "(28-31 of months of leap/non-leap/century years, ISO-week-53 years, years 1, 4, 100, 400, 1000, 9000) and 40% "
          "uniformly over years 1..9000, sizes 1..400, all five dated units; ops stop/days/size_in_*/subperiods:<unit>/"
          "offset/offset round trip/instant offset/contains/intersection/named periods; second periods built "
          "near/inside/same/far; a second stream of as many periods drawn around the edges the algebra turns on (28 Dec - 5 Jan of 53-week ISO years "
          "and of years beginning on every weekday, 27 Feb - 1 Mar of leap / common / century years, first / last / last-but-one day of months, "
          "the first days of year 1 and the last of year 9999) with sizes 1..14, 28..31, 52..54, 59, 60, 365..367, 400, 1461; first-of / last-of "
          "for every unit through Period.offset and Instant.offset, integer instant shifts for every unit, Period.date, is_eternal, "
          "key_period_size, unit_weight, DateUnit.isoformat / isocalendar membership. A case is non-trivial when its size is not 1 or the op relates two periods / splits; "
          "distinct = distinct protocol lines. Corpus: the sixth unit -- every operation on the ETERNITY period and with the eternity unit "
          "(binding for the correspondence, no calendar statement applies)."),
    assumptions=[
        "pendulum.Date.add/start_of/end_of/diff().in_weeks and datetime.date.toordinal/isocalendar are modelled (Calendar.lean), tied by this correspondence",
        "claim domain: dated units, sizes >= 1, years 1..9999; year<->week(day) sizes and cross-family or unaligned sub-periods are compared but not binding",
        "the oracle of a shift (offset / Instant.offset with an integer, first-of, last-of) is the calendar meaning of the words: the first / last day of the "
        "year, month or ISO week containing the date; n units later (month and year shifts only when the day is <= 28, i.e. cannot be clipped)",
        "Period.date, key_period_size, unit_weight, isoformat / isocalendar membership: no calendar statement applies, binding through the correspondence only",
    ],
    exhaustive_note="thorough: every start date 2000-01-01..2399-12-31 (one full Gregorian cycle) x 5 units x sizes {1,2,3,12,13} for stop/days + aligned tilings + first-of/last-of week and last-of month of every date",
)
