"""C12 — a described situation becomes exactly that simulation.

Protocol (one self-contained case per line, see lean/OFCore/OFCore/Drv/Doc.lean and tbsutil.py):

    doc build <system spec> <default period (hex) | -> <document>
        -> OK <entities> <store> | SITUATION | ERR | UNMODELLED | NONE (implementation only)
    doc entities <system spec> <default period | -> <document>      SimulationBuilder.build_from_entities called directly
                                                                     (as the web API does), without build_from_dict's dispatch
    doc manual <system spec> <default period | -> <document>        the steps of build_from_entities called one by one through the
                                                                     builder's public methods (add_person_entity, add_group_entity /
                                                                     add_default_group_entity, add_parallel_axis, add_perpendicular_axis,
                                                                     expand_axes, finalize_variables_init): well-formed documents only
    doc default <system spec> <count>                                SimulationBuilder.build_default_simulation
    doc join <system spec> {persons: [id...], groups: [{kind, ids: [id...], of: [id...], roles: [key | index ...]}]}
                                                                     create_entities / declare_person_entity / declare_entity /
                                                                     join_with_persons / build

<system spec> and <document> travel in the blank-free prefix notation of tbsutil.enc_tree (integer
dict keys are kept apart from text keys).  <entities> = key:ids:count:members_entity_id:members_role:
members_position per entity (ids / role keys in hex, '-' = empty), joined by ';'; <store> =
var(hex)@period text=values, sorted, joined by ';'; values i<int> n<p>/<q> T F s<hex> d<ordinal> e<index>.

The groups appended for persons left out of a group kind come out of a Python `set`: the adapter
renumbers them in the order of the persons (DESIGN Appendix A: compared as a mapping).

Mutation survivors triaged in round 2 (tools/mutscan.py):
* simulation_builder.py `if len(axes) >= 1:` -> `> 1` / `>= 0`: EQUIVALENT.  The parallel axes `axes[0]` are registered
  before the test; the guarded loop runs over `axes[1:]`, which is empty for one list, and `axes[0]` has already failed
  on an empty list.  A single list of axes therefore expands under either mutant (generated: tags axes:parallel).
* add_default_group_entity `numpy.arange(0, n, dtype=numpy.int32)` without dtype: EQUIVALENT in value.  Only the dtype of
  `members_entity_id` changes (int64 instead of int32), which the declared route (`numpy.empty(int32).tolist()` ->
  `numpy.array`) already gives as int64; no statement clause is about that dtype.
* expand_axes `get_variable(axis_name, check_existence=True)` -> False: OUTSIDE the statement (error class only, on a route
  the repair F-C12-errclass-axes closed: build_from_entities now refuses an unknown axis variable in check_axis before
  expand_axes runs; called directly, expand_axes raises AttributeError instead of VariableNotFoundError — an ordinary
  exception either way, which tests/core/test_axes.py pins as KeyError for the first axis).
"""
from __future__ import annotations

import copy
import datetime as dt
import itertools
import random
from fractions import Fraction

from ..core import Case, Prop
from .. import tbsutil as T

# --------------------------------------------------------------------------------------
# lines


ROUTES = ("build", "entities", "manual")


def mk_case(spec, dp, doc, tags=(), claimed=True, route="build") -> Case:
    line = f"doc {route} {T.enc_tree(spec)} {T.hexs(dp) if dp else '-'} {T.enc_tree(doc)}"
    tags = tuple(tags) + (() if route == "build" else ("route:" + route,))
    return Case(line=line, tags=tags, claimed=claimed)


def mk_default_case(spec, count, style) -> Case:
    """`style`: how build_default_simulation is called (static / instance, count positional / keyword / left out)."""
    return Case(line=f"doc default {T.enc_tree(spec)} {count}", tags=("route:default", "call:" + style), payload={"style": style})


def mk_join_case(spec, jdoc, tags=(), claimed=True) -> Case:
    return Case(line=f"doc join {T.enc_tree(spec)} {T.enc_tree(jdoc)}", tags=("route:join",) + tuple(tags), claimed=claimed)


def route_of(line: str) -> str:
    return line.split(" ", 2)[1]


_PARSED: dict = {}


def parse_line(line: str):
    hit = _PARSED.get(line)
    if hit is None:
        f = line.split()
        if f[1] == "default":
            hit = (T.dec_tree(f[2]), None, int(f[3]))
        elif f[1] == "join":
            hit = (T.dec_tree(f[2]), None, T.dec_tree(f[3]))
        else:
            hit = (T.dec_tree(f[2]), None if f[3] == "-" else T.unhexs(f[3]), T.dec_tree(f[4]))
        if len(_PARSED) > 20000:
            _PARSED.clear()
        _PARSED[line] = hit
    return hit


# --------------------------------------------------------------------------------------
# canonical text of an observation


def show_list(xs) -> str:
    xs = list(xs)
    return ",".join(xs) if xs else "-"


def show_val(v) -> str:
    k, x = v
    if k == "i":
        return f"i{x}"
    if k == "n":
        return f"n{x.numerator}/{x.denominator}"
    if k == "b":
        return "T" if x else "F"
    if k == "s":
        try:
            return "s" + T.hexs(x)
        except UnicodeEncodeError:
            return "x" + x.encode("utf-8").hex()
    if k == "d":
        return f"d{x}"
    if k == "e":
        return f"e{x}"
    return "x" + str(x).encode("utf-8").hex()


def show_obs(obs) -> str:
    ents = []
    for e in obs["ents"]:
        ents.append(":".join([e["key"], show_list(T.hexs(i) for i in e["ids"]), str(e["count"]),
                              show_list(str(m) for m in e["memb"]), show_list(T.hexs(r) for r in e["roles"]),
                              show_list(str(p) for p in e["pos"])]))
    entries = sorted(f"{T.hexs(v)}@{p}=" + show_list(show_val(x) for x in vec) for (v, p), vec in obs["store"].items())
    return "OK " + ";".join(ents) + " " + (";".join(entries) if entries else "-")


def read_val(t: str):
    k = t[0]
    if k == "i":
        return ("i", int(t[1:]))
    if k == "n":
        p, q = t[1:].split("/")
        return ("n", Fraction(int(p), int(q)))
    if k in "TF" and len(t) == 1:
        return ("b", k == "T")
    if k == "s":
        return ("s", T.unhexs(t[1:]))
    if k == "d":
        return ("d", int(t[1:]))
    if k == "e":
        return ("e", int(t[1:]))
    return ("x", t[1:])


def read_obs(text: str):
    """Inverse of show_obs (for the oracle and for the comparison with the model)."""
    f = text.split(" ")
    ents = []
    for chunk in f[1].split(";"):
        key, ids, count, memb, roles, pos = chunk.split(":")
        rl = lambda s: [] if s == "-" else s.split(",")
        ents.append({"key": key, "ids": [T.unhexs(h) for h in rl(ids)], "count": int(count),
                     "memb": [int(x) for x in rl(memb)], "roles": [T.unhexs(h) for h in rl(roles)],
                     "pos": [int(x) for x in rl(pos)]})
    store = {}
    if f[2] != "-":
        for entry in f[2].split(";"):
            head, _, vals = entry.partition("=")
            v, _, p = head.partition("@")
            store[(T.unhexs(v), p)] = [] if vals == "-" else [read_val(t) for t in vals.split(",")]
    return {"ents": ents, "store": store}


def rn32(fr: Fraction) -> Fraction:
    """The float32 nearest to a rational (ties to even): what one IEEE division gives."""
    import numpy as np
    x = np.float32(float(fr))
    best = None
    for c in (np.nextafter(x, np.float32(-np.inf)), x, np.nextafter(x, np.float32(np.inf))):
        if not np.isfinite(c):
            continue
        d = abs(Fraction(float(c)) - fr)
        even = (int(np.float32(c).view(np.uint32)) & 1) == 0
        if best is None or d < best[0] or (d == best[0] and even and not best[1]):
            best = (d, even, Fraction(float(c)))
    return best[2] if best else fr


def canon_equal(case: Case, impl_out: str, model_out: str) -> bool:
    a, b = impl_out.split(" ")[0], model_out.split(" ")[0]
    if a != b:
        return False
    if a != "OK":
        return True
    if impl_out == model_out:
        return True
    try:
        x, y = read_obs(impl_out), read_obs(model_out)
    except Exception:
        return False
    if x["ents"] != y["ents"] or set(x["store"]) != set(y["store"]):
        return False
    for k, vx in x["store"].items():
        vy = y["store"][k]
        if len(vx) != len(vy):
            return False
        for p, q in zip(vx, vy):
            if p == q:
                continue
            # a share computed by one float32 division: the model holds the exact quotient
            if p[0] == "n" and q[0] == "n" and rn32(q[1]) == p[1]:
                continue
            return False
    return True


# --------------------------------------------------------------------------------------
# reading the document the way the statement describes it (shared by the adapter's renumbering of
# own-groups and by the oracle; nothing here comes from the model)


def is_short_form(spec, doc) -> bool:
    sing = {spec["pk"]} | {g["key"] for g in spec["groups"]}
    return isinstance(doc, dict) and any(isinstance(k, str) and k in sing for k in doc)


def entity_docs(spec, doc) -> dict:
    """plural -> what the document gives for that entity (short form made explicit)."""
    out = {}
    pairs = [(spec["pk"], spec["pp"])] + [(g["key"], g["plural"]) for g in spec["groups"]]
    short = is_short_form(spec, doc)
    for key, plural in pairs:
        if short and key in doc:
            out[plural] = {key: doc[key]}
        elif doc.get(plural) is not None:
            out[plural] = doc[plural]
    return out


def renumber_own_groups(obs, spec, doc):
    """Own-groups (appended from a `set`) are put in the order of the persons; ids, memberships and
    the vectors of group variables follow."""
    if not isinstance(doc, dict):
        return obs
    ed = entity_docs(spec, doc)
    pj = ed.get(spec["pp"])
    if not isinstance(pj, dict) or not pj:
        return obs
    proto_p = [str(k) for k in pj]
    P = obs["ents"][0]
    if P["count"] % len(proto_p):
        return obs
    cell = P["count"] // len(proto_p)
    if cell == 0:
        return obs
    expanded = P["ids"] != (proto_p * cell) and all(P["ids"][i] == proto_p[i % len(proto_p)] + str(i) for i in range(P["count"]))
    for gi, g in enumerate(spec["groups"]):
        e = obs["ents"][gi + 1]
        gj = ed.get(g["plural"])
        if not isinstance(gj, dict) or e["count"] % cell:
            continue
        declared, proto_n = len({str(k) for k in gj}), e["count"] // cell
        if declared >= proto_n:
            continue

        def strip(j_global):
            s = e["ids"][j_global]
            suf = str(j_global)
            return s[:-len(suf)] if expanded and s.endswith(suf) else s

        def keyf(j):
            s = strip(j)
            return (proto_p.index(s), j) if s in proto_p else (10 ** 9, j)

        order = sorted(range(declared, proto_n), key=keyf)
        newpos = {old: declared + k for k, old in enumerate(order)}
        if all(o == n for o, n in newpos.items()):
            continue
        glob = lambda j: (j // proto_n) * proto_n + newpos.get(j % proto_n, j % proto_n)
        ids = list(e["ids"])
        for j in range(e["count"]):
            ids[glob(j)] = strip(j) + (str(glob(j)) if expanded else "")
        e["ids"] = ids
        e["memb"] = [glob(m) if 0 <= m < e["count"] else m for m in e["memb"]]
        for v in spec["vars"]:
            if v["entity"] != g["key"]:
                continue
            for (vn, p), vec in list(obs["store"].items()):
                if vn == v["name"] and len(vec) == e["count"]:
                    new = list(vec)
                    for j in range(e["count"]):
                        new[glob(j)] = vec[j]
                    obs["store"][(vn, p)] = new
    return obs


# --------------------------------------------------------------------------------------
# implementation adapter


def _manual_build(tbs, spec, dp, doc):
    """The steps of build_from_entities, one public method of the builder after the other (the way
    tests/core/test_simulation_builder.py drives it)."""
    from openfisca_core.simulations import Simulation, SimulationBuilder
    b = SimulationBuilder()
    if dp:
        b.set_default_period(dp)
    sim = Simulation(tbs, tbs.instantiate_entities())
    b.register_variables(sim)
    pids = b.add_person_entity(sim.persons.entity, doc[spec["pp"]])
    for ge in tbs.group_entities:
        inst = doc.get(ge.plural)
        if inst is not None:
            b.add_group_entity(b.persons_plural, pids, ge, inst)
        else:
            b.add_default_group_entity(pids, ge)
    axes = doc.get("axes")
    if axes is not None:
        for a in axes[0]:
            b.add_parallel_axis(a)
        for dim in axes[1:]:
            b.add_perpendicular_axis(dim[0])
        b.expand_axes()
    b.finalize_variables_init(sim.persons)
    for ge in tbs.group_entities:
        b.finalize_variables_init(sim.populations[ge.key])
    return sim


def manual_ok(spec, doc) -> bool:
    """Documents the step-by-step route can take: fully specified, persons given, every group kind given
    when there are axes, one axis per perpendicular dimension (add_perpendicular_axis takes one)."""
    if not isinstance(doc, dict) or not isinstance(doc.get(spec["pp"]), dict) or not doc[spec["pp"]]:
        return False
    plurals = {spec["pp"]} | {g["plural"] for g in spec["groups"]}
    if any(k not in plurals and k != "axes" for k in doc):
        return False
    axes = doc.get("axes")
    if axes is not None:
        if any(doc.get(g["plural"]) is None for g in spec["groups"]):
            return False
        if not isinstance(axes, list) or not axes or any(not isinstance(d, list) or not d for d in axes) or any(len(d) != 1 for d in axes[1:]):
            return False
    return True


def impl_default(case: Case, spec, count) -> str:
    tbs = T.make_system(spec)
    from openfisca_core.simulations import SimulationBuilder
    style = (case.payload or {}).get("style", "static")
    try:
        if style == "static":
            sim = SimulationBuilder.build_default_simulation(tbs, count)
        elif style == "keyword":
            sim = SimulationBuilder().build_default_simulation(tbs, count=count)
        elif style == "omitted":                    # count left out: one person
            sim = SimulationBuilder().build_default_simulation(tbs)
        else:
            sim = SimulationBuilder().build_default_simulation(tbs, count)
    except Exception as e:
        return "ERR " + type(e).__name__
    shared = shared_memory(sim, spec)
    if shared:
        return "ALIASED " + shared
    return show_obs(T.read_simulation(sim, spec))


def impl_join(case: Case, spec, jdoc) -> str:
    import numpy as np
    tbs = T.make_system(spec)
    from openfisca_core.simulations import SimulationBuilder
    b = SimulationBuilder()
    jdoc = copy.deepcopy(jdoc)             # the lists handed to the builder are the caller's
    before = T.enc_tree(jdoc)
    try:
        b.create_entities(tbs)
        b.declare_person_entity(spec["pk"], jdoc["persons"])
        for j in jdoc["groups"]:
            pop = b.declare_entity(j["kind"], j["ids"])
            b.join_with_persons(pop, j["of"], j["roles"])
        sim = b.build(tbs)
        if T.enc_tree(jdoc) != before:
            return "INPUT-MODIFIED"
        shared = shared_memory(sim, spec)
        if shared:
            return "ALIASED " + shared
        for j in jdoc["groups"]:                   # the builder's own count of members agrees with the memberships it set
            nb = [int(x) for x in b.nb_persons(j["kind"])]
            memb = [int(x) for x in sim.populations[j["kind"]].members_entity_id]
            if nb != [memb.count(k) for k in range(len(j["ids"]))]:
                return "NBPERSONS " + j["kind"]
    except Exception as e:
        return "ERR " + type(e).__name__
    return show_obs(T.read_simulation(sim, spec))


def shared_memory(sim, spec):
    """Two stored vectors (or id / membership arrays of two entities) that occupy the same memory: writing into one
    through its holder would silently change the other.  The sub-periods over which ONE long-period input of a
    dispatch / divide variable is spread are left out (the set_input helpers store one array object for all of them:
    property C16's mechanism, reported there)."""
    import numpy as np
    arrs = []
    for v in spec["vars"]:
        h = sim.get_holder(v["name"])
        for p in h.get_known_periods():
            arrs.append((v["name"], v["rule"], str(p), np.asarray(h.get_array(p))))
    for k in [spec["pk"]] + [g["key"] for g in spec["groups"]]:
        pop = sim.populations[k]
        for what in ("ids", "members_entity_id"):
            x = getattr(pop, what, None)
            if isinstance(x, np.ndarray):
                arrs.append((k + "." + what, "absent", "", x))
    for i in range(len(arrs)):
        for j in range(i + 1, len(arrs)):
            a, b = arrs[i], arrs[j]
            if a[0] == b[0] and a[1] != "absent":
                continue
            if a[3].size and b[3].size and np.may_share_memory(a[3], b[3]):
                return f"{a[0]}@{a[2]} and {b[0]}@{b[2]}"
    return None


def _build(route, tbs, spec, dp, d):
    from openfisca_core.simulations import SimulationBuilder
    if route == "manual":
        return _manual_build(tbs, spec, dp, d)
    builder = SimulationBuilder()
    if dp:
        builder.set_default_period(dp)
    return builder.build_from_entities(tbs, d) if route == "entities" else builder.build_from_dict(tbs, d)


def impl(case: Case) -> str:
    route = route_of(case.line)
    spec, dp, doc = parse_line(case.line)
    if route == "default":
        return impl_default(case, spec, doc)
    if route == "join":
        return impl_join(case, spec, doc)
    tbs = T.make_system(spec)
    from openfisca_core import errors
    d = copy.deepcopy(doc)                 # the description handed to the builder ...
    before = T.enc_tree(d) if isinstance(d, (dict, list)) else None
    try:
        sim = _build(route, tbs, spec, dp, d)
    except errors.SituationParsingError:
        return "SITUATION" if before is None or T.enc_tree(d) == before else "INPUT-MODIFIED (refused)"
    except Exception as e:  # any other exception of the implementation
        return "ERR " + type(e).__name__
    if sim is None:
        return "NONE"
    if before is not None and T.enc_tree(d) != before:       # ... is the caller's: it must come back as it was given
        return "INPUT-MODIFIED"
    out = show_obs(renumber_own_groups(T.read_simulation(sim, spec), spec, doc))
    shared = shared_memory(sim, spec)
    if shared:
        return "ALIASED " + shared
    if len(case.line) % 4 == 0:            # a second simulation from the SAME description object: the same simulation
        try:
            again = show_obs(renumber_own_groups(T.read_simulation(_build(route, tbs, spec, dp, d), spec), spec, doc))
        except Exception as e:
            again = "ERR " + type(e).__name__
        if again != out or T.enc_tree(d) != before:
            return "SECOND-BUILD-DIFFERS " + again[:200]
    return out


# --------------------------------------------------------------------------------------
# the statement read directly on the document: period keys


import re

_W = {"weekday": 100, "day": 100, "week": 200, "month": 200, "year": 300}
_ISO = [(re.compile(r"^(\d{4})$"), "year"), (re.compile(r"^(\d{4})-(\d{2})$"), "month"),
        (re.compile(r"^(\d{4})-(\d{2})-(\d{2})$"), "day"), (re.compile(r"^(\d{4})-W(\d{2})$"), "week"),
        (re.compile(r"^(\d{4})-W(\d{2})-(\d)$"), "weekday")]


def _iso(text):
    """-> (unit, normalised ISO text) | 'bad' | None (not an ISO start this reader knows)."""
    for rx, unit in _ISO:
        m = rx.match(text)
        if not m:
            continue
        g = [int(x) for x in m.groups()]
        if not 1000 <= g[0] <= 9999:
            return None
        try:
            if unit == "month":
                dt.date(g[0], g[1], 1)
            elif unit == "day":
                dt.date(g[0], g[1], g[2])
            elif unit == "week":
                dt.date.fromisocalendar(g[0], g[1], 1)
            elif unit == "weekday":
                dt.date.fromisocalendar(g[0], g[1], g[2])
        except ValueError:
            return "bad"
        return (unit, text)
    return None


def denote(key):
    """What period a key denotes: (unit, ISO start text, size) | 'bad' (certainly not a period) |
    None (outside the spellings this reader knows: the oracle stays silent)."""
    if isinstance(key, bool):
        return None
    if isinstance(key, int):
        return ("year", str(key), 1) if 1000 <= key <= 9999 else None
    if not isinstance(key, str):
        return None
    if key.lower() == "eternity":
        return ("eternity", "", 1)
    base = _iso(key)
    if base == "bad":
        return "bad"
    if base is not None:
        return (base[0], base[1], 1)
    if key.isalpha() or key == "":
        return "bad"
    f = key.split(":")
    if len(f) in (2, 3) and f[0] in _W:
        base = _iso(f[1])
        if base == "bad":
            return "bad"
        if base is None:
            return None
        size = 1
        if len(f) == 3:
            if not re.match(r"^[0-9]+$", f[2]):
                return "bad" if re.match(r"^[A-Za-z]+$", f[2]) else None
            size = int(f[2])
            if size < 1:
                return None
        if _W[base[0]] > _W[f[0]]:
            return "bad"                      # month:2018 — a date coarser than the unit
        if (f[0] in ("week", "weekday")) != (base[0] in ("week", "weekday")):
            return None                       # mixed families (finding F-C05): not judged here
        if _W[base[0]] < _W[f[0]] and not (f[0] == "year" and base[0] == "month"):
            return None                       # unaligned starts: not judged
        return normalise((f[0], base[1], size))
    return None


def normalise(den):
    unit, iso, size = den
    if unit == "year" and len(iso) == 7 and iso.endswith("-01"):
        iso = iso[:4]
    if unit == "month" and size == 12:
        return ("year", iso[:4] if iso.endswith("-01") else iso, 1)
    return (unit, iso, size)


def canon_text(den) -> str:
    unit, iso, size = den
    if unit == "eternity":
        return "ETERNITY"
    if unit == "year":
        if size == 1:
            return iso if len(iso) == 4 else "year:" + iso
        return f"year:{iso}:{size}"
    if size == 1:
        return iso
    return f"{unit}:{iso}:{size}"


def den_start(den):
    """First day of a dated period, else None."""
    unit, iso, _ = den
    try:
        if unit in ("week", "weekday") or "W" in iso:
            f = iso.split("-")
            return dt.date.fromisocalendar(int(f[0]), int(f[1][1:]), int(f[2]) if len(f) > 2 else 1)
        f = [int(x) for x in iso.split("-")]
        return dt.date(f[0], f[1] if len(f) > 1 else 1, f[2] if len(f) > 2 else 1)
    except (ValueError, IndexError):
        return None


def months_of(den):
    """The months ('YYYY-MM') a month- or year-based period covers, else None."""
    unit, iso, size = den
    if unit not in ("month", "year"):
        return None
    y, m = int(iso[:4]), int(iso[5:7]) if len(iso) >= 7 else 1
    n = size * (12 if unit == "year" else 1)
    out = []
    for k in range(n):
        yy, mm = divmod(y * 12 + m - 1 + k, 12)
        out.append(f"{yy:04d}-{mm + 1:02d}")
    return out


def is_canonical_key(key) -> bool:
    den = denote(key)
    return isinstance(den, tuple) and isinstance(key, str) and canon_text(den) == key


# --------------------------------------------------------------------------------------
# the statement read directly on the document: values

_PLAIN_WORDS = ("abc", "hello", "salaire", "xyz", "foo", "many")
_NUMEXPR = re.compile(r"^[0-9.+\-* ]+$")


def f32_exact(fr: Fraction) -> bool:
    import numpy as np
    try:
        return Fraction(float(np.float32(float(fr)))) == fr
    except OverflowError:
        return False


def readable(v, x):
    """('ok', exact value) | ('refuse', class) | ('dc',): the statement does not decide."""
    t = v["type"]
    if isinstance(x, dt.date):
        if t == "date":
            return ("ok", ("d", x.toordinal()))
        return ("refuse", "not-readable") if t in ("float", "int") or isinstance(t, list) else ("dc",)
    if isinstance(x, (int, float)) and not isinstance(x, bool):
        # repair C12n: outside the integer range of the variable (int32; int16 for an enum index) a
        # number is refused; a date variable refuses an integer beyond a C long
        if t == "int":
            lo, hi = -2 ** 31, 2 ** 31 - 1
        elif isinstance(t, list):
            lo, hi = -2 ** 15, 2 ** 15 - 1
        elif t == "date" and isinstance(x, int):
            lo, hi = -2 ** 63, 2 ** 63 - 1
        else:
            lo = hi = None
        if lo is not None and (x != x or not lo <= x <= hi):
            return ("refuse", "too-large")
    if isinstance(x, list):
        if t == "str" or len(x) < 2:
            return ("dc",)
        return ("refuse", "list-value")
    if isinstance(x, dict):
        return ("refuse", "not-readable") if t in ("float", "int", "date") or isinstance(t, list) else ("dc",)
    if isinstance(t, list):
        if isinstance(x, str):
            return ("ok", ("e", t.index(x))) if x in t else ("refuse", "unknown-enum-name")
        return ("dc",)
    if t in ("float", "int"):
        if isinstance(x, bool):
            return ("dc",)
        if isinstance(x, int):
            if t == "int":
                return ("ok", ("i", x))                      # in range (checked above): placed exactly
            return ("ok", ("n", Fraction(x))) if f32_exact(Fraction(x)) else ("dc",)
        if isinstance(x, float):
            fr = Fraction(x)
            if t == "int":
                return ("ok", ("i", int(fr))) if fr.denominator == 1 else ("dc",)
            return ("ok", ("n", fr)) if f32_exact(fr) else ("dc",)
        if isinstance(x, str):
            if x.isalpha() and x in _PLAIN_WORDS:
                return ("refuse", "text-for-number")
            if re.match(r"^\d{4}-\d{2}-\d{2}$", x) and (x[5] == "0" or x[8] == "0"):
                return ("refuse", "text-for-number")          # a date given for a number
            return ("dc",)
        return ("dc",)
    if t == "bool":
        return ("ok", ("b", x)) if isinstance(x, bool) else ("dc",)
    if t == "str":
        return ("ok", ("s", x)) if isinstance(x, str) else ("dc",)
    if t == "date":
        if isinstance(x, str):
            m = re.match(r"^(\d{4})-(\d{2})-(\d{2})$", x)
            if m and 1000 <= int(m.group(1)) <= 9999:
                try:
                    return ("ok", ("d", dt.date(int(m.group(1)), int(m.group(2)), int(m.group(3))).toordinal()))
                except ValueError:
                    return ("refuse", "impossible-date")
            if x.isalpha() and x in _PLAIN_WORDS:
                return ("refuse", "not-readable")
        if isinstance(x, float):
            return ("refuse", "not-readable")
        return ("dc",)
    return ("dc",)


def default_value(v):
    t, d = v["type"], v["default"]
    if isinstance(t, list):
        return ("e", d)
    return {"float": lambda: ("n", Fraction(d)), "int": lambda: ("i", int(d)), "bool": lambda: ("b", bool(d)),
            "str": lambda: ("s", d), "date": lambda: ("d", d)}[t]()


# --------------------------------------------------------------------------------------
# the statement read directly on the document: the expected simulation


class Ref:
    """What the statement says the document must become."""

    def __init__(self):
        self.refuse = []        # classes of ill-formedness found (statement: refused with a situation error)
        self.skip = None        # reason why the oracle does not judge this document
        self.dontcare = False   # some value / key is outside what the statement decides
        self.shape = None       # full | short | vars | none
        self.ents = []          # [{key, ids, memb, roles}] for one copy
        self.declared = {}      # group key -> number of declared instances
        self.cells = {}         # (var, period text) -> [exact value | None (not judged)] for one copy
        self.cell = 1           # number of copies (axes)
        self.axes = []          # [(dimension, axis dict, var, period text)]
        self.features = set()
        self.ambiguous = set()


def strict(x):
    if isinstance(x, bool):
        return None
    if isinstance(x, (str, int)):
        x = [x]
    if isinstance(x, list):
        return [str(i) if isinstance(i, int) and not isinstance(i, bool) else i for i in x]
    return None


def _declare(ref, spec, vmap, decl, entity_key, idx, n, inst_vars, dp):
    """Collect the declarations of one instance: decl[var][period den] -> {idx: (key, value verdict)}."""
    for name, values in inst_vars.items():
        v = vmap.get(name) if isinstance(name, str) else None
        if v is None:
            ref.refuse.append("unknown-variable")
            continue
        if v["entity"] != entity_key:
            ref.refuse.append("variable-of-another-entity")
            continue
        if not isinstance(values, dict):
            if dp is None:
                ref.refuse.append("undated-value-without-default-period")
                continue
            values = {dp: values}
        for k, x in values.items():
            den = denote(k)
            if den == "bad":
                ref.refuse.append("unparsable-period")
                continue
            if den is None:
                ref.dontcare = True
                ref.skip = ref.skip or "period spelling outside the oracle's reader"
                continue
            if x is None:
                continue
            r = readable(v, x)
            if r[0] == "refuse":
                ref.refuse.append(r[1])
                continue
            if r[0] == "dc":
                ref.dontcare = True
            if not is_canonical_key(k):
                ref.features.add(("noncanonical", name))
            slot = decl.setdefault(name, {}).setdefault(den, {})
            if idx in slot:                       # the same cell under two equivalent spellings: not decided
                ref.features.add(("respelt-twice", name))
                ref.ambiguous.add((name, den, idx))
            slot[idx] = r[1] if r[0] == "ok" and (name, den, idx) not in ref.ambiguous else None


def _place(ref, spec, vmap, decl, counts):
    """From declarations to expected vectors (one copy)."""
    for name, by_den in decl.items():
        v = vmap[name]
        n = counts[v["entity"]]
        dflt = default_value(v)
        if v["unit"] == "eternity":
            dens = list(by_den)
            if any(d[0] != "eternity" for d in dens):
                ref.features.add(("eternal-dated-key", name))
                if len(dens) > 1:
                    ref.features.add(("eternal-mixed-keys", name))
            vec = [dflt] * n
            for d in dens:
                for i, val in by_den[d].items():
                    vec[i] = val
            ref.cells[(name, "ETERNITY")] = vec
            continue
        if any(d[0] == "eternity" for d in by_den):
            if v.get("end"):
                ref.skip = ref.skip or "ETERNITY for a variable with an end"
                continue
            ref.refuse.append("period-mismatch")
            continue
        if v.get("end"):
            # the end date is inclusive: a period starting on or before it is placed like any other;
            # what starts after it is ignored by the code and not judged here
            end = dt.date.fromisoformat(v["end"])
            starts = {d: den_start(d) for d in by_den}
            if any(x is None for x in starts.values()):
                ref.skip = ref.skip or "start of a period of a variable with an end"
                continue
            by_den = {d: m for d, m in by_den.items() if starts[d] <= end}
            ref.features.add(("end", name))
        specific = {d: m for d, m in by_den.items() if d[0] == v["unit"] and d[2] == 1}
        longer = {d: m for d, m in by_den.items() if d not in specific}
        if longer and v["rule"] == "absent":
            ref.refuse.append("period-mismatch")
            continue
        for d, m in specific.items():
            vec = [dflt] * n
            for i, val in m.items():
                vec[i] = val
            ref.cells[(name, canon_text(d))] = vec
        if not longer:
            continue
        # values on longer periods: only month variables over month / year spans are judged
        if v["unit"] != "month" or any(months_of(d) is None for d in longer):
            ref.skip = ref.skip or "long period outside month/year spans"
            continue
        ref.features.add(("long", name))
        if len(by_den) > 1:
            ref.features.add(("mixed-lengths", name))
        spans = sorted(longer, key=lambda d: (len(months_of(d)), d))
        for a, b in itertools.combinations(spans, 2):
            wa, wb = (_W[a[0]], a[2]), (_W[b[0]], b[2])
            if (len(months_of(a)) < len(months_of(b))) != (wa < wb) and set(months_of(a)) & set(months_of(b)):
                ref.features.add(("month-span-longer-than-year", name))
        holders = [set(m) for m in by_den.values()]
        if any(h != holders[0] for h in holders) and n > 1:
            ref.features.add(("nonuniform-long", name))
        known = {}                                             # month text -> {idx: value}
        for d, m in specific.items():
            for i, val in m.items():
                known.setdefault(canon_text(d), {})[i] = val
        for d in spans:
            ms = months_of(d)
            for i, val in longer[d].items():
                free = [mt for mt in ms if i not in known.get(mt, {})]
                if val is None or any(known.get(mt, {}).get(i) is None for mt in ms if mt not in free):
                    share = None
                elif v["rule"] == "dispatch":
                    share = val
                else:
                    if not free:
                        ref.skip = ref.skip or "total given for fully declared sub-periods"
                        continue
                    rest = val[1] - sum(known[mt][i][1] for mt in ms if mt not in free)
                    share = ("n", rn32(rest / len(free)))
                for mt in free:
                    known.setdefault(mt, {})[i] = share
        for mt, m in known.items():
            vec = [dflt if v["rule"] == "dispatch" or dflt[1] == 0 else None] * n
            for i, val in m.items():
                vec[i] = val
            ref.cells[(name, mt)] = vec


def reference(spec, dp_raw, doc, route="build") -> Ref:
    """`route`: build = through build_from_dict (the three shapes); entities / manual = build_from_entities
    directly: every top-level key must be an entity plural (or `axes`)."""
    ref = Ref()
    vmap = {v["name"]: v for v in spec["vars"]}
    if not isinstance(doc, dict):
        ref.skip = "document is not an object"
        return ref
    dp = None
    if dp_raw:
        den = denote(dp_raw)
        if not isinstance(den, tuple):
            ref.skip = "default period outside the reader"
            return ref
        dp = dp_raw
    plurals = [spec["pp"]] + [g["plural"] for g in spec["groups"]]
    singulars = [spec["pk"]] + [g["key"] for g in spec["groups"]]
    keys = list(doc)
    short = route == "build" and any(isinstance(k, str) and k in singulars for k in keys)
    if route != "build":
        if all(isinstance(k, str) and (k in plurals or k == "axes") for k in keys):
            ref.shape = "full"
        else:
            ref.shape = "none"
            ref.refuse.append("unknown-entity")
            return ref
    elif short:
        ref.shape = "short"
        if any(not (isinstance(k, str) and (k in singulars or k in plurals or k == "axes")) for k in keys):
            ref.refuse.append("unknown-entity")
            ref.features.add("short-form-unknown-key")
    elif keys and all(isinstance(k, str) and (k in plurals or k == "axes") for k in keys):
        ref.shape = "full"
    elif not keys or any(isinstance(k, str) and k in vmap for k in keys):
        ref.shape = "vars"
    else:
        ref.shape = "none"
        ref.refuse.append("unknown-entity")
        return ref
    if ref.shape == "vars":
        return _reference_vars(ref, spec, vmap, dp, doc)

    ed = entity_docs(spec, doc)
    if short and any(a in doc and b in doc for a, b in zip(singulars, plurals)):
        ref.skip = "an entity given in the short and in the full form at once"
    pj = ed.get(spec["pp"])
    if not pj or not isinstance(pj, dict):
        ref.refuse.append("no-person")
        return ref
    pids = [str(k) for k in pj]
    if len(set(pids)) != len(pids):
        ref.skip = "two person keys with the same text"
        return ref
    decl = {}
    counts = {spec["pk"]: len(pids)}
    for i, (k, inst) in enumerate(pj.items()):
        if not isinstance(inst, dict):
            ref.refuse.append("wrong-type")
            continue
        _declare(ref, spec, vmap, decl, spec["pk"], i, len(pids), inst, dp)
    ref.ents.append({"key": spec["pk"], "ids": pids, "memb": [], "roles": []})
    axes = doc.get("axes")
    for g in spec["groups"]:
        gj = ed.get(g["plural"])
        flat = T.flat_roles(g)
        if gj is None:
            if axes is not None:
                ref.skip = ref.skip or "axes without a fully specified group kind"
            ref.ents.append({"key": g["key"], "ids": list(pids), "memb": list(range(len(pids))), "roles": [flat[0]] * len(pids)})
            counts[g["key"]] = len(pids)
            continue
        if not isinstance(gj, dict):
            ref.refuse.append("wrong-type")
            continue
        gids = [str(k) for k in gj]
        if len(set(gids)) != len(gids):
            ref.skip = "two group keys with the same text"
            return ref
        if any(isinstance(k, int) for k in gj):
            ref.features.add("integer-group-id")
        memb, roles, seen = [None] * len(pids), [None] * len(pids), set()
        gdecl = {}
        for j, (k, inst) in enumerate(gj.items()):
            if not isinstance(inst, dict):
                ref.refuse.append("wrong-type")
                continue
            inst_vars = dict(inst)
            for r in g["roles"]:
                listed = strict(inst_vars.pop(T.role_doc_key(r), []))
                if listed is None:
                    ref.refuse.append("wrong-type")
                    continue
                mx = T.role_max(r)
                if mx is not None and len(listed) > mx:
                    ref.refuse.append("too-many-holders-of-a-role")
                for t, pid in enumerate(listed):
                    if not isinstance(pid, str):
                        ref.refuse.append("wrong-type")
                    elif pid not in pids:
                        ref.refuse.append("unknown-person")
                    elif pid in seen:
                        ref.refuse.append("duplicate-membership")
                    else:
                        seen.add(pid)
                        i = pids.index(pid)
                        memb[i] = j
                        roles[i] = (r["sub"][t] if t < len(r["sub"]) else None) if r["sub"] else r["key"]
            _declare(ref, spec, vmap, gdecl, g["key"], j, len(gids), inst_vars, dp)
        left = [p for p in pids if p not in seen]
        if left and gdecl:
            ref.features.add("own-groups-after-group-values")
        if any(p in gids for p in left):
            ref.features.add("own-group-id-collision")
        for p in left:
            i = pids.index(p)
            memb[i] = len(gids) + left.index(p)
            roles[i] = flat[0]
        ref.declared[g["key"]] = len(gids)
        ref.ents.append({"key": g["key"], "ids": gids + left, "memb": memb, "roles": roles})
        counts[g["key"]] = len(gids) + len(left)
        decl.update(gdecl)
    if ref.refuse:
        return ref
    _place(ref, spec, vmap, decl, counts)

    # axes
    if axes is not None:
        ref.features.add("axes")
        if ref.shape == "short":
            ref.features.add("short-form-axes")
        ok = isinstance(axes, list) and axes and all(isinstance(d, list) and d and all(isinstance(a, dict) for a in d) for d in axes)
        if not ok:
            ref.skip = ref.skip or "axes outside the documented shape"
            return ref
        cell = 1
        for d, dim in enumerate(axes):
            cnt = dim[0].get("count")
            if not isinstance(cnt, int) or isinstance(cnt, bool) or cnt < 1:
                ref.skip = ref.skip or "axis count"
                return ref
            cell *= cnt
            if d > 0 and len(dim) > 1:
                ref.features.add("perpendicular-dimension-with-parallel-axes")
            if len(axes) > 1 and cnt == 1:
                ref.skip = ref.skip or "perpendicular axis of one value"
            for a in dim:
                v = vmap.get(a.get("name"))
                if v is None:
                    ref.refuse.append("unknown-variable-in-axis")
                    ref.features.add("axes-internal-error")
                    continue
                k = a.get("period", dp)
                den = denote(k) if k is not None else None
                if k is None or den == "bad":
                    ref.refuse.append("unparsable-period-in-axis")
                    ref.features.add("axes-internal-error")
                    continue
                idx = a.get("index", 0)
                if den is None or v["type"] not in ("float", "int") or not isinstance(idx, int) or \
                        not 0 <= idx < counts[v["entity"]] or v["entity"] != vmap[dim[0]["name"]]["entity"] or \
                        not all(isinstance(a.get(z), (int, float)) and not isinstance(a.get(z), bool) for z in ("min", "max")) or \
                        (v["unit"] != "eternity" and (den[0] != v["unit"] or den[2] != 1)) or a.get("count", cnt) != cnt:
                    ref.skip = ref.skip or "axis outside what the oracle reads"
                    continue
                if v.get("end"):
                    ref.skip = ref.skip or "axis on a variable with an end"
                    continue
                if v["entity"] in ref.declared and idx >= ref.declared[v["entity"]]:
                    ref.skip = ref.skip or "axis index designates an own-group (set order)"
                    continue
                if not is_canonical_key(k):
                    ref.features.add(("noncanonical", a["name"]))
                ref.axes.append((d, cnt, a, v, "ETERNITY" if v["unit"] == "eternity" else canon_text(den), idx))
        ref.cell = cell
    return ref


def _reference_vars(ref, spec, vmap, dp, doc):
    n = None
    decl = {}
    for name, values in doc.items():
        v = vmap.get(name) if isinstance(name, str) else None
        if v is None:
            ref.refuse.append("unknown-variable")
            continue
        if not isinstance(values, dict):
            if dp is None:
                ref.refuse.append("undated-value-without-default-period")
                continue
            values = {dp: values}
        for k, x in values.items():
            vec = x if isinstance(x, list) else [x]
            if n is None:
                n = len(vec)
            den = denote(k)
            if den == "bad":
                ref.refuse.append("unparsable-period")
                continue
            if isinstance(k, str) and k.startswith("month:") and k.endswith(":12"):
                ref.skip = ref.skip or "12 months are not read as a year in the variables-only form"
                continue
            if den is None or x is None or not vec:
                ref.skip = ref.skip or "outside the reader"
                continue
            if len(vec) != n:
                ref.refuse.append("length-mismatch")
                continue
            for i, y in enumerate(vec):
                r = readable(v, y) if not isinstance(y, (list, dict)) and y is not None else ("dc",)
                if r[0] == "refuse":
                    ref.refuse.append(r[1])
                elif r[0] == "dc":
                    ref.dontcare = True
                if not is_canonical_key(k):
                    ref.features.add(("noncanonical", name))
                decl.setdefault(name, {}).setdefault(den, {})[i] = r[1] if r[0] == "ok" else None
    n = n or 1
    ids = [str(i) for i in range(n)]
    ref.ents.append({"key": spec["pk"], "ids": ids, "memb": [], "roles": []})
    counts = {spec["pk"]: n}
    for g in spec["groups"]:
        ref.ents.append({"key": g["key"], "ids": ids, "memb": list(range(n)), "roles": [T.flat_roles(g)[0]] * n})
        counts[g["key"]] = n
    if not ref.refuse:
        _place(ref, spec, vmap, decl, counts)
    return ref


# --------------------------------------------------------------------------------------
# the oracle

# classes the statement names; the others are refused by the code but not judged when accepted
HARD = {"unknown-entity", "unknown-variable", "unknown-person", "duplicate-membership", "too-many-holders-of-a-role",
        "text-for-number", "list-value", "not-readable", "too-large", "unknown-enum-name", "impossible-date", "unparsable-period",
        "period-mismatch", "unknown-variable-in-axis", "unparsable-period-in-axis"}

SIG_A = "noncanonical-period-key:"                                                  # F-C12a (+ values | refused | masks-refusal)
SIG_B = "mixed-period-lengths:"                                                     # F-C12b (+ refused | values | masks-refusal)
SIG_C = "not-situation-error:list-value"                                           # F-C12c
SIG_D = "malformed-accepted:returns-none"                                          # F-C12d
SIG_E = "integer-group-id:"                                                         # F-C12e (+ refused | masks-refusal)
SIG_F = "own-group-buffer:"                                                        # F-C12f (+ refused | values)
SIG_G = "axes-dropped:short-form"                                                  # F-C12g
SIG_H = "malformed-accepted:unknown-key-short-form"                                # F-C12h
SIG_I = "own-group:id-collides-with-declared-group"                                # F-C12i
SIG_J = "value-lost:eternal-variable-dated-and-eternity-keys"                      # F-C12j
SIG_K = "axes-ignored:second-parallel-axis-of-perpendicular-dimension"             # F-C12k
SIG_L = "valid-refused:month-span-longer-than-year-flushed-first"                  # F-C12l
SIG_M = "long-period:skips-sub-period-declared-by-another-instance"                # F-C12m
SIG_ERRCLASS = "refused-but-not-situation-error"                                   # F-C12-errclass


def _axis_cast(v, fr: Fraction):
    if v["type"] == "float":
        return ("n", fr) if f32_exact(fr) else None
    return ("i", int(fr)) if fr.denominator == 1 else None


def _axis_values(a, cnt):
    mn, mx = Fraction(a["min"]), Fraction(a["max"])
    return [mn if cnt == 1 else mn + k * (mx - mn) / (cnt - 1) for k in range(cnt)]


def _value_signature(ref, spec, vmap, name, j, n_proto):
    v = vmap[name]
    f = ref.features
    if ("eternal-mixed-keys", name) in f:
        return SIG_J
    if v["entity"] in ref.declared and "own-groups-after-group-values" in f:
        return SIG_F + "values"
    if ("nonuniform-long", name) in f:
        return SIG_M
    if ("month-span-longer-than-year", name) in f:
        return SIG_L
    if ("mixed-lengths", name) in f:
        return SIG_B + "values"
    if any(d > 0 and a is not next(x[2] for x in ref.axes if x[0] == d) and a["name"] == name for d, _, a, _, _, _ in ref.axes) \
            or ("perpendicular-dimension-with-parallel-axes" in f and any(a["name"] == name for _, _, a, _, _, _ in ref.axes)):
        return SIG_K
    if ("noncanonical", name) in f:
        return SIG_A + "values"
    return "value:" + (v["type"] if isinstance(v["type"], str) else "enum")


def _trigger(f):
    """The repaired defect whose trigger the document contains (it may raise before the ill-formed
    part is reached), as a signature prefix."""
    if "integer-group-id" in f:
        return SIG_E
    if "own-groups-after-group-values" in f:
        return SIG_F
    if any(isinstance(x, tuple) and x[0] == "mixed-lengths" for x in f):
        return SIG_B
    if any(isinstance(x, tuple) and x[0] == "noncanonical" for x in f):
        return SIG_A
    return None


def oracle_default(spec, count, impl_out: str):
    """build_default_simulation: `count` instances of every entity, person i alone in group i of every kind
    with the first role, no input."""
    if impl_out.startswith("ALIASED"):
        return ("default-simulation:aliasing", "two arrays of the default simulation share memory: " + impl_out[:200])
    if not impl_out.startswith("OK "):
        return ("default-simulation:refused", f"build_default_simulation(count={count}) gives {impl_out}")
    obs = read_obs(impl_out)
    ids = [str(i) for i in range(count)]
    want = [{"key": spec["pk"], "ids": ids, "count": count, "memb": [], "roles": [], "pos": []}]
    for g in spec["groups"]:
        want.append({"key": g["key"], "ids": ids, "count": count, "memb": list(range(count)),
                     "roles": [T.flat_roles(g)[0]] * count, "pos": [0] * count})
    if obs["ents"] != want:
        bad = next((o for o, w in zip(obs["ents"], want) if o != w), obs["ents"])
        return ("default-simulation:entities", f"count={count}: {bad}")
    if obs["store"]:
        return ("default-simulation:inputs", f"count={count}: values stored {sorted(obs['store'])}")
    return None


def oracle_join(spec, jdoc, impl_out: str):
    """declare_person_entity / declare_entity / join_with_persons: every person is recorded in the group
    whose id was given for them, with the role given for them."""
    pids = [str(x) for x in jdoc["persons"]]
    for j in jdoc["groups"]:
        gids = [str(x) for x in j["ids"]]
        if len(set(gids)) != len(gids) or any(str(a) not in gids for a in j["of"]) or len(j["of"]) != len(pids) or \
                len(j["roles"]) != len(pids) or not j["roles"]:
            return None
    if impl_out.startswith(("INPUT-MODIFIED", "ALIASED")):
        return ("join:aliasing", "the declarations handed to the builder were modified, or two arrays share memory: " + impl_out[:200])
    if impl_out.startswith("NBPERSONS"):
        return ("join:nb-persons", "SimulationBuilder.nb_persons disagrees with the memberships the builder set: " + impl_out)
    if not impl_out.startswith("OK "):
        return ("join:refused", f"well-formed declarations refused ({impl_out})")
    obs = read_obs(impl_out)
    if obs["ents"][0]["ids"] != pids or obs["ents"][0]["count"] != len(pids):
        return ("join:persons", f"persons {obs['ents'][0]['ids']}, declared {pids}")
    by_kind = {j["kind"]: j for j in jdoc["groups"]}
    for g, o in zip(spec["groups"], obs["ents"][1:]):
        j = by_kind.get(g["key"])
        if j is None:
            return None
        gids = [str(x) for x in j["ids"]]
        flat = T.flat_roles(g)
        want_m = [gids.index(str(a)) for a in j["of"]]
        want_r = [flat[r] if isinstance(r, int) else r for r in j["roles"]]
        if o["ids"] != gids or o["count"] != len(gids):
            return ("join:ids", f"{g['key']}: ids {o['ids']}, declared {gids}")
        if o["memb"] != want_m:
            return ("join:membership", f"{g['key']}: members_entity_id {o['memb']}, declared {want_m} (ids {gids}, assignment {j['of']})")
        if o["roles"] != want_r:
            return ("join:roles", f"{g['key']}: members_role {o['roles']}, declared {want_r}")
    return None


def oracle(case: Case, impl_out: str):
    route = route_of(case.line)
    spec, dp, doc = parse_line(case.line)
    if route == "default":
        return oracle_default(spec, doc, impl_out)
    if route == "join":
        return oracle_join(spec, doc, impl_out)
    status = impl_out.split(" ")[0]
    if status == "INPUT-MODIFIED":
        return ("description-modified", "the builder changed the description object it was given: a second build from it is another situation")
    if status == "SECOND-BUILD-DIFFERS":
        return ("second-build-differs", "two simulations built from the same description object differ: " + impl_out[:300])
    if status == "ALIASED":
        return ("stored-arrays-share-memory", "two stored vectors occupy the same memory (writing one changes the other): " + impl_out[:200])
    if status == "NONE":
        return (SIG_D, "build_from_dict returned None: neither a simulation nor a situation error")
    if status not in ("OK", "SITUATION", "ERR"):
        return None
    ref = reference(spec, dp, doc, route)
    vmap = {v["name"]: v for v in spec["vars"]}
    f = ref.features
    hard = [c for c in ref.refuse if c in HARD]
    if ref.refuse:
        if ref.skip:
            return None
        if status == "SITUATION" or not hard:
            return None
        if status == "OK":
            if hard == ["unknown-entity"] and "short-form-unknown-key" in f:
                return (SIG_H, "short form: a key that is no entity was silently dropped instead of being refused")
            return ("malformed-accepted:" + hard[0], f"ill-formed description ({', '.join(sorted(set(hard)))}) produced a simulation")
        if ref.shape == "vars" or all(c.endswith("-in-axis") for c in hard):
            site = "variables-only" if ref.shape == "vars" else "axes"
            cls = impl_out.split(" ")[1] if " " in impl_out else "?"
            return (f"{SIG_ERRCLASS}:{site}:{'+'.join(sorted(set(hard)))}:{cls}",
                    f"{', '.join(sorted(set(hard)))}: refused with {impl_out}, not with a situation error")
        if set(hard) == {"list-value"}:
            return (SIG_C, f"a list given as a scalar value is refused with {impl_out}, not with a situation error")
        trig = _trigger(f)
        if trig:
            return (trig + "masks-refusal", f"{', '.join(sorted(set(hard)))}: refused with {impl_out}, not with a situation error")
        return ("not-situation-error:" + hard[0], f"{', '.join(sorted(set(hard)))}: refused with {impl_out}, not with a situation error")
    if ref.skip:
        return None
    if status != "OK":
        if ref.dontcare:
            return None
        msg = f"well-formed description refused ({impl_out})"
        if "integer-group-id" in f:
            return (SIG_E + "refused", msg + ": a group instance is keyed by an integer")
        if "own-groups-after-group-values" in f:
            return (SIG_F + "refused", msg + ": group values buffered before the own-groups were appended")
        if any(isinstance(x, tuple) and x[0] == "month-span-longer-than-year" for x in f):
            return (SIG_L, msg + ": a span of more than 12 months is written before the year it contains")
        if any(isinstance(x, tuple) and x[0] == "nonuniform-long" for x in f):
            return (SIG_M, msg)
        if any(isinstance(x, tuple) and x[0] == "mixed-lengths" for x in f):
            return (SIG_B + "refused", msg + ": values on periods of different lengths")
        if any(isinstance(x, tuple) and x[0] == "noncanonical" for x in f):
            return (SIG_A + "refused", msg + ": a period key is not in canonical spelling")
        return ("valid-refused:other", msg)

    obs = read_obs(impl_out)
    cell = ref.cell
    if len(obs["ents"]) != len(ref.ents):
        return ("entities:kinds", "wrong number of entities")
    nproto = {}
    for e, o in zip(ref.ents, obs["ents"]):
        n = len(e["ids"])
        nproto[e["key"]] = n
        bad = None
        if o["count"] != n * cell or len(o["ids"]) != n * cell:
            bad = f"{e['key']}: {o['count']} instances, expected {n} x {cell}"
        elif "axes" not in f and o["ids"] != e["ids"]:
            bad = f"{e['key']}: ids {o['ids']}, expected {e['ids']}"
        elif e["memb"]:
            np_ = len(e["memb"])
            want_m = [e["memb"][i % np_] + (i // np_) * n for i in range(np_ * cell)]
            want_r = [e["roles"][i % np_] for i in range(np_ * cell)]
            if o["memb"] != want_m:
                bad = f"{e['key']}: members_entity_id {o['memb']}, expected {want_m}"
            elif any(w is not None and w != r for w, r in zip(want_r, o["roles"])) or len(o["roles"]) != len(want_r):
                bad = f"{e['key']}: members_role {o['roles']}, expected {want_r}"
        if bad:
            if "short-form-axes" in f:
                return (SIG_G, "short form: the axes were dropped; " + bad)
            if "own-group-id-collision" in f:
                return (SIG_I, "a person left out joined a declared group of the same id; " + bad)
            return ("entities:" + e["key"], bad)

    # expected vectors for all copies
    exp = {k: list(vec) * cell for k, vec in ref.cells.items()}
    dims = sorted({d for d, *_ in ref.axes})
    multi = isinstance(doc.get("axes"), list) and len(doc["axes"]) > 1
    copy_index = {}
    for d in dims:
        first = next(x for x in ref.axes if x[0] == d)
        _, cnt, a, v, pt, idx = first
        n = nproto[v["entity"]]
        vals = [_axis_cast(v, x) for x in _axis_values(a, cnt)]
        if not multi:
            copy_index[d] = list(range(cell))
            continue
        got = obs["store"].get((a["name"], pt))
        if got is None or len(got) != n * cell or None in vals or len(set(vals)) != cnt:
            if got is None or len(got) != n * cell:
                return (_value_signature(ref, spec, vmap, a["name"], None, n), f"axis {a['name']}@{pt}: no vector of {n * cell} values")
            return None
        ks = []
        for c in range(cell):
            x = got[c * n + idx]
            if x not in vals:
                return (_value_signature(ref, spec, vmap, a["name"], c * n + idx, n), f"axis {a['name']}@{pt}: copy {c} holds {x}, not a value of the axis")
            ks.append(vals.index(x))
        copy_index[d] = ks
    if multi and dims:
        if len(dims) != len(doc["axes"]):
            return None
        grid = {tuple(copy_index[d][c] for d in dims) for c in range(cell)}
        if len(grid) != cell:
            return ("axes:grid", "the copies do not cover the grid of the perpendicular axes exactly once")
    for d, cnt, a, v, pt, idx in ref.axes:
        n = nproto[v["entity"]]
        key = (a["name"], pt)
        if key not in exp:
            exp[key] = [default_value(v)] * (n * cell)
        vals = _axis_values(a, cnt)
        for c in range(cell):
            exp[key][c * n + idx] = _axis_cast(v, vals[copy_index[d][c]])
    for (name, pt), want in sorted(exp.items()):
        got = obs["store"].get((name, pt))
        n = nproto[vmap[name]["entity"]]
        if got is None:
            if all(w is None or w == default_value(vmap[name]) for w in want):
                continue
            return (_value_signature(ref, spec, vmap, name, None, n), f"{name}@{pt}: nothing stored, expected {want}")
        if len(got) != len(want):
            return (_value_signature(ref, spec, vmap, name, None, n), f"{name}@{pt}: {len(got)} values, expected {len(want)}")
        for j, (w, g) in enumerate(zip(want, got)):
            if w is not None and w != g:
                return (_value_signature(ref, spec, vmap, name, j, n), f"{name}@{pt}[{j}] = {g}, expected {w}")
    for (name, pt), got in sorted(obs["store"].items()):
        if (name, pt) in exp or name not in vmap:
            continue
        v = vmap[name]
        if any(isinstance(x, tuple) and x[1] == name and x[0] in ("long", "eternal-dated-key") for x in f) or ref.dontcare:
            continue
        if any(g != default_value(v) for g in got):
            return (_value_signature(ref, spec, vmap, name, None, nproto[v["entity"]]), f"{name}@{pt} = {got}: nothing was declared there")
    return None


def nontrivial(case: Case, impl_out: str) -> bool:
    if impl_out.startswith("OK"):
        return not impl_out.endswith(" -") or impl_out.count(",") > 3
    return impl_out.startswith(("SITUATION", "ERR"))


# --------------------------------------------------------------------------------------
# generators: systems

ENUMS = [["red", "green", "blue"], ["a", "b"], ["single", "couple", "widowed", "other"]]
PERSON_IDS = ["Alicia", "Javier", "Tom", "bill", "bob", "claudia", "ann", "p1", "p2", "x", "y", "z", "10", "7", "Zoe"]
GROUP_IDS = ["h1", "h2", "house", "_", "menage", "G1", "housea", "houseb", "g-3", "first.one", "44", "2018"]
WORDS = ["", "x", "hello", "hello world", "Paris", "owner", "a,b", "42"]


def random_kind(rng: random.Random, key: str, plural: str):
    roles = []
    for k in range(rng.randint(1, 3)):
        sub = [f"{key}_r{k}_s{j}" for j in range(rng.choice([0, 0, 2, 3]))]
        roles.append(T.role(f"{key}_r{k}", plural=rng.choice([None, f"{key}_r{k}s"]),
                            max=rng.choice([None, None, 1, len(sub) + 1]) if sub else rng.choice([None, None, 1, 2, 3]), sub=sub))
    return T.group(key, plural, roles)


def gen_spec(rng: random.Random):
    pick = rng.random()
    if pick < 0.30:
        kinds = [T.HOUSEHOLD, T.FAMILY]
    elif pick < 0.45:
        kinds = [T.FAMILY, T.HOUSEHOLD]
    elif pick < 0.60:
        kinds = [T.HOUSEHOLD]
    elif pick < 0.70:
        kinds = [T.FAMILY]
    elif pick < 0.85:
        kinds = [random_kind(rng, "team", "teams"), rng.choice([T.HOUSEHOLD, T.FAMILY])]
    elif pick < 0.90:
        kinds = [random_kind(rng, "team", "teams")]
    elif pick < 0.95:
        kinds = [T.HOUSEHOLD, random_kind(rng, "team", "teams"), T.FAMILY]
    else:
        kinds = []
    variables = T.all_types_variables("person", "p_", rng.choice(ENUMS))
    for g in kinds:
        variables += T.all_types_variables(g["key"], g["key"][0] + "_", rng.choice(ENUMS))
    if rng.random() < 0.5:                                   # defaults that are not the type's zero
        for v in variables:
            if v["rule"] == "divide" or rng.random() < 0.5:
                continue
            t = v["type"]
            v["default"] = (rng.randrange(len(t)) if isinstance(t, list) else
                            {"float": rng.choice([1.5, -2, 100]), "int": rng.choice([7, -1]), "bool": True,
                             "str": rng.choice(["none", "?"]), "date": dt.date(2000, 2, 29).toordinal()}[t])
    return T.system_spec(kinds, variables)


# --------------------------------------------------------------------------------------
# generators: period keys and values

CANON = {
    "month": ["2018-01", "2018-02", "2017-12", "2019-03"],
    "year": ["2018", "2017", "2019"],
    "day": ["2018-01-15", "2020-02-29", "2017-06-30", "2018-01-16"],
    "week": ["2018-W03", "2020-W53"],
    "weekday": ["2018-W03-2", "2021-W01-7"],
    "eternity": ["ETERNITY"],
}


def spellings(unit: str, canon: str) -> list:
    if unit == "eternity":
        return ["ETERNITY", "eternity", "Eternity", "eTeRnItY"]
    out = [canon, f"{unit}:{canon}", f"{unit}:{canon}:1"]
    if unit == "year":
        out += [f"month:{canon}-01:12", int(canon), f"year:{canon}-01"]
    return out


def spell(rng, unit, canon):
    s = spellings(unit, canon)
    return s[0] if rng.random() < 0.4 else rng.choice(s)


EXPRS = ["1+1", "2*3", "10-2.5", "1.5*4", "-3", "+7", "2*-3", "2018-10-10", "0.25+0.5", "3 * 2", "00", "12.", ".5",
         "2*3+4*5", "2-3*4", "1 - -2", "7 "]


def native_value(rng, v):
    t = v["type"]
    if isinstance(t, list):
        return rng.choice(t)
    if t == "float":
        x = rng.choice([0, 1, 2, 100, 1200, 2000, -50, rng.randint(-99, 9999), rng.randint(-400, 8000) / 4, 0.125, -0.75])
        return float(x) if rng.random() < 0.5 else x
    if t == "int":
        return rng.choice([0, 1, -1, 12, rng.randint(-500, 100000)])
    if t == "bool":
        return rng.random() < 0.5
    if t == "str":
        return rng.choice(WORDS)
    y, m = rng.choice([1900, 1980, 1999, 2000, 2016, 2024, 2100]), rng.randint(1, 12)
    d = rng.randint(1, 28) if rng.random() < 0.7 else (dt.date(y + (m == 12), m % 12 + 1, 1) - dt.timedelta(days=1)).day
    return dt.date(y, m, d) if rng.random() < 0.3 else f"{y:04d}-{m:02d}-{d:02d}"       # YAML gives date objects


def convertible_value(rng, v):
    """A value that is not in the variable's own type but that the code converts."""
    t = v["type"]
    if isinstance(t, list):
        return rng.randrange(len(t))
    if t == "float":
        return rng.choice([True, False, rng.choice(EXPRS)])
    if t == "int":
        return rng.choice([2.5, -0.75, 7.0, True, rng.choice(EXPRS), 2 ** 31 - 1, -2 ** 31, 2 ** 31 - 2, -2 ** 31 + 1, 2 ** 24 + 1,
                           2147483647.0, -2147483648.0, 2147483520.0, 123456789])
    if t == "bool":
        return rng.choice([0, 1, 2, 0.0, 2.5, "yes", ""])
    if t == "date":
        return rng.choice(["2018-05", "2018", 5, 0, -3, 32768, -700000])
    return native_value(rng, v)


def some_value(rng, v):
    r = rng.random()
    if r < 0.05:
        return None
    if r < 0.17:
        return convertible_value(rng, v)
    return native_value(rng, v)


LONG_PLANS = [
    [("month", "2018-01", 3)], [("year", "2018", 1)], [("month", "2018-01", 3), ("month", "2018-01", 24)],
    [("month", "2018-02", 1), ("month", "2018-01", 3)], [("month", "2018-01", 1), ("year", "2018", 1)],
    [("month", "2018-01", 3), ("year", "2018", 1)], [("year", "2018", 1), ("year", "2018", 2)],
    [("month", "2018-02", 1), ("month", "2018-02", 2), ("month", "2018-01", 6), ("year", "2018", 1)],
    [("month", "2017-12", 1), ("month", "2017-11", 3), ("year", "2017", 2)],
    [("month", "2018-03", 1), ("month", "2018-05", 1), ("year", "2018", 1), ("month", "2017-12", 1)],
    [("month", "2018-01", 24), ("year", "2018", 1)], [("month", "2017-07", 18), ("year", "2018", 1), ("month", "2018-02", 1)],
]


def long_key(rng, den):
    unit, iso, size = den
    if size == 1:
        return spell(rng, unit, iso)
    if unit == "year":
        return rng.choice([f"year:{iso}:{size}", f"year:{iso}-01:{size}"])
    return f"month:{iso}:{size}"


def long_values(rng, v, plan):
    """Values for one instance of a dispatch / divide variable over a plan of periods: every share
    of a divided total stays on the quarter lattice."""
    out, known = {}, {}
    for den in sorted(plan, key=lambda d: (len(months_of(d)), _W[d[0]])):
        ms = months_of(den)
        free = [m for m in ms if m not in known]
        if v["rule"] == "dispatch":
            val = rng.randint(-20, 500)
            for m in free:
                known[m] = val
        else:
            share = Fraction(rng.randint(0, 2048), 4)
            total = sum((known[m] for m in ms if m in known), Fraction(0)) + share * len(free)
            for m in free:
                known[m] = share
            val = int(total) if total.denominator == 1 and rng.random() < 0.5 else float(total)
        out[long_key(rng, den)] = val
    return out


def instance_values(rng, spec, entity_key, n_inst, dp, density=0.3, plans=None):
    """variable -> value dict (or an undated value) for every instance of one entity."""
    insts = [dict() for _ in range(n_inst)]
    for v in spec["vars"]:
        if v["entity"] != entity_key or rng.random() > density:
            continue
        if v["rule"] != "absent":
            plan = (plans or {}).get(v["name"]) or rng.choice(LONG_PLANS)
            for inst in insts:
                if rng.random() < 0.7:
                    inst[v["name"]] = long_values(rng, v, plan)
            continue
        canons = rng.sample(CANON[v["unit"]], rng.randint(1, min(2, len(CANON[v["unit"]]))))
        for inst in insts:
            if rng.random() < 0.35:
                continue
            if dp and v["unit"] == "month" and rng.random() < 0.5:
                x = some_value(rng, v)
                if not isinstance(x, (dict, list)):
                    inst[v["name"]] = x
                    continue
            vals = {}
            for c in canons:
                if rng.random() < 0.75:
                    key = spell(rng, v["unit"], c)
                    if v["unit"] == "eternity" and rng.random() < 0.3:       # repair C12j: an eternal variable takes any period key
                        key = rng.choice(["2018-01", "2018", "2018-01-15", "month:2018-01", 2018, "year:2017"])
                    vals[key] = some_value(rng, v)
            inst[v["name"]] = vals
    return insts


def shuffled(rng, d: dict) -> dict:
    items = list(d.items())
    rng.shuffle(items)
    return dict(items)


# --------------------------------------------------------------------------------------
# generators: documents


def pick_ids(rng, pool, n, allow_int=True, avoid=()):
    ids = [i for i in rng.sample(pool, len(pool)) if i not in avoid][:n]
    if allow_int and rng.random() < 0.15:
        ids = [int(i) if i.isdigit() and not i.startswith("0") else i for i in ids]
    return ids


def gen_groups(rng, g, pids, avoid, all_members=False):
    """instances of one group kind: {gid: {role key: [...]}} with every constraint of the roles kept."""
    ng = rng.randint(0, 4) if not all_members else rng.randint(1, 3)
    if rng.random() < 0.1:                                 # ids shared with persons (repair C12i)
        gids = pick_ids(rng, GROUP_IDS + [str(p) for p in pids], ng)
        gids = list(dict.fromkeys(str(x) for x in gids))
    else:
        gids = pick_ids(rng, GROUP_IDS, ng, avoid=avoid)
    groups = {gid: {} for gid in gids}
    room = {gid: {T.role_doc_key(r): T.role_max(r) for r in g["roles"]} for gid in gids}
    for pid in pids:
        if not gids or (not all_members and rng.random() < 0.2):
            continue
        gid = rng.choice(gids)
        opts = [rk for rk, mx in room[gid].items() if mx is None or len(groups[gid].get(rk, [])) < mx]
        if not opts:
            continue
        rk = rng.choice(opts)
        groups[gid].setdefault(rk, []).append(pid)
    for gid in gids:                                      # a role listed explicitly with nobody
        for r in g["roles"]:
            if T.role_doc_key(r) not in groups[gid] and rng.random() < 0.12:
                groups[gid][T.role_doc_key(r)] = []
    for gid in gids:                                      # shorthand: a single holder given bare
        for rk, lst in list(groups[gid].items()):
            if not lst:
                continue
            if len(lst) == 1 and rng.random() < 0.3:
                groups[gid][rk] = lst[0]
            elif rng.random() < 0.1:
                groups[gid][rk] = [str(p) if isinstance(p, int) else p for p in lst]
    return groups


def gen_axes(rng, spec, counts, dp):
    """`counts`: entity key -> number of DECLARED instances (an index into the own-groups would
    depend on the iteration order of a set)."""
    ents = [k for k in [spec["pk"]] + [g["key"] for g in spec["groups"]] if counts[k] > 0]
    ndim = 1 if rng.random() < 0.65 else rng.randint(2, 3)
    dims = []
    used = set()
    used_idx = []
    for d in range(ndim):
        ek = rng.choice(ents)
        cands = [v for v in spec["vars"] if v["entity"] == ek and v["type"] in ("float", "int") and v["rule"] == "absent"]
        cnt = rng.randint(1, 4) if ndim == 1 else rng.randint(2, 3)
        dim = []
        for _ in range(rng.randint(1, 2)):
            v = rng.choice(cands)
            a = {"name": v["name"], "count": cnt}
            step = rng.randint(-20, 40) if v["type"] == "int" else rng.randint(-200, 400) / 4
            if rng.random() < 0.1:
                step = 0
            mn = rng.randint(-10, 100) if v["type"] == "int" or rng.random() < 0.5 else rng.randint(-40, 400) / 4
            a["min"] = mn
            a["max"] = mn + step * (cnt - 1) if cnt > 1 else mn + step
            if isinstance(a["max"], float) and a["max"].is_integer() and rng.random() < 0.5:
                a["max"] = int(a["max"])
            idx = rng.randrange(counts[ek])
            if idx or rng.random() < 0.3:
                a["index"] = idx
            if dim and rng.random() < 0.15:
                a["count"] = cnt + rng.randint(1, 2)              # only the first axis' count is read
            canon = rng.choice(CANON[v["unit"]])
            if dp and v["unit"] == "month" and rng.random() < 0.5:
                canon = canon_text(denote(dp))
            else:
                a["period"] = spell(rng, v["unit"], canon)
            if (v["name"], canon) in {(x, y) for x, y, dd in used if dd != d} or (v["name"], canon, idx) in {(x, y, z) for x, y, dd, z in [(*u[:3], u[3]) for u in used_idx]}:
                continue
            used.add((v["name"], canon, d))
            used_idx.append((v["name"], canon, d, idx))
            dim.append(shuffled(rng, a))
        if not dim:
            return None
        dims.append(dim)
    return dims


def gen_entities_doc(rng, spec, want_axes=False, short=False):
    """A well-formed document in the fully specified (or short) form; returns (dp, doc)."""
    dp = rng.choice(["2018-01", "month:2018-01", "month:2018-02:1", "2017-12"]) if rng.random() < 0.3 else None
    n = 1 if short and rng.random() < 0.4 else rng.randint(1, 6)
    pids = pick_ids(rng, PERSON_IDS, n)
    ptexts = [str(p) for p in pids]
    doc = {}
    pvals = instance_values(rng, spec, spec["pk"], n, dp)
    persons = {pid: shuffled(rng, pvals[i]) for i, pid in enumerate(pids)}
    if short and n == 1 and rng.random() < 0.5:
        doc[spec["pk"]] = persons[pids[0]]
        ptexts = [spec["pk"]]
        pids = [spec["pk"]]
    else:
        doc[spec["pp"]] = persons
    counts = {spec["pk"]: n}
    for g in spec["groups"]:
        if not want_axes and rng.random() < 0.2:
            counts[g["key"]] = n
            continue
        if short and rng.random() < 0.8:
            inst = gen_groups(rng, g, pids, ptexts, all_members=rng.random() < 0.7)
            inst = next(iter(inst.values()), {})
            listed = {str(p) for lst in inst.values() for p in (lst if isinstance(lst, list) else [lst])}
            gv = instance_values(rng, spec, g["key"], 1, dp, density=0.15)[0]
            doc[g["key"]] = shuffled(rng, {**inst, **gv})
            counts[g["key"]] = 1
            if rng.random() < 0.05:                           # the same kind in the full form too: the short one wins
                doc[g["plural"]] = gen_groups(rng, g, pids, ptexts)
            continue
        groups = gen_groups(rng, g, pids, ptexts)
        listed = {str(p) for inst in groups.values() for lst in inst.values() for p in (lst if isinstance(lst, list) else [lst])}
        gvals = instance_values(rng, spec, g["key"], len(groups), dp)
        doc[g["plural"]] = {gid: shuffled(rng, {**inst, **gvals[j]}) for j, (gid, inst) in enumerate(groups.items())}
        counts[g["key"]] = len(groups)
    if want_axes:
        axes = gen_axes(rng, spec, counts, dp)
        if axes is not None:
            doc["axes"] = axes
    return dp, shuffled(rng, doc)


def gen_vars_doc(rng, spec):
    dp = rng.choice(["2018-01", "month:2018-01"]) if rng.random() < 0.4 else None
    n = rng.randint(1, 4)
    doc = {}
    for v in rng.sample(spec["vars"], min(len(spec["vars"]), rng.randint(0, 5))):
        def vec():
            xs = [native_value(rng, v) for _ in range(n)]
            if v["type"] == "bool" and rng.random() < 0.3:
                xs = [int(x) for x in xs]
            if n == 1 and not isinstance(xs[0], str) and rng.random() < 0.4:
                return xs[0]
            if n == 1 and v["type"] not in ("float", "int") and rng.random() < 0.4:
                return xs[0]
            return xs
        if v["rule"] != "absent":
            plan = rng.choice(LONG_PLANS)
            cols = [long_values(rng, v, plan) for _ in range(n)]
            keys = list(cols[0])
            # the same spelling for every person: regenerate the keys once
            doc[v["name"]] = {k: [list(c.values())[j] for c in cols] for j, k in enumerate(keys)}
            continue
        if dp and v["unit"] == "month" and rng.random() < 0.5:
            doc[v["name"]] = vec()
            continue
        canons = rng.sample(CANON[v["unit"]], rng.randint(1, min(2, len(CANON[v["unit"]]))))
        doc[v["name"]] = {spell(rng, v["unit"], c): vec() for c in canons}
    return dp, doc


# --------------------------------------------------------------------------------------
# generators: ill-formed documents (one mutation of a well-formed one per class of the statement)

MUTATIONS = ["unknown-entity", "unknown-variable", "unknown-person", "duplicate-membership", "too-many",
             "text-for-number", "list-value", "unknown-enum", "impossible-date", "bad-period", "period-mismatch",
             "dict-value", "no-person", "wrong-type", "too-large", "date-for-number", "foreign-variable",
             "undated-no-default", "role-wrong-type"]
BAD_KEYS = ["2018-13", "month:2018", "abc", "2018-02-30", "month:2018-01:x", "", "day:2018-01", "week:2018", "2018-W54"]


def _instances(spec, doc):
    """(entity key, plural key in doc, instance id, instance dict) of a fully specified document."""
    out = []
    for key, plural in [(spec["pk"], spec["pp"])] + [(g["key"], g["plural"]) for g in spec["groups"]]:
        if isinstance(doc.get(plural), dict):
            out += [(key, plural, iid, inst) for iid, inst in doc[plural].items() if isinstance(inst, dict)]
    return out


def mutate(rng, spec, doc, cls):
    """One ill-formed variant of a fully specified well-formed document, or None."""
    doc = copy.deepcopy(doc)
    insts = _instances(spec, doc)
    if not insts:
        return None
    vars_of = lambda ek, pred: [v for v in spec["vars"] if v["entity"] == ek and pred(v)]

    def put(pred, make_values):
        ek, _, _, inst = rng.choice(insts)
        cands = vars_of(ek, pred)
        if not cands:
            return None
        v = rng.choice(cands)
        unit = v["unit"]
        key = spell(rng, unit, rng.choice(CANON[unit]))
        cur = inst.get(v["name"])
        vals = make_values(v, key)
        inst[v["name"]] = {**cur, **vals} if isinstance(cur, dict) and rng.random() < 0.5 else vals
        return doc

    if cls == "unknown-entity":
        doc[rng.choice(["companies", "dogs", "person_s", "Households", "7"])] = rng.choice([{}, {"c": {}}])
        return doc
    if cls == "unknown-variable":
        rng.choice(insts)[3][rng.choice(["zzz", "salary_", "P_f", "p_ff", 3])] = {"2018-01": 1}
        return doc
    if cls in ("unknown-person", "duplicate-membership", "too-many"):
        kinds = [g for g in spec["groups"] if isinstance(doc.get(g["plural"]), dict) and doc[g["plural"]]]
        if not kinds:
            return None
        g = rng.choice(kinds)
        gid = rng.choice(list(doc[g["plural"]]))
        inst = doc[g["plural"]][gid]
        r = rng.choice(g["roles"])
        rk = T.role_doc_key(r)
        cur = inst.get(rk, [])
        cur = [cur] if not isinstance(cur, list) else list(cur)
        pids = list(doc[spec["pp"]])
        if cls == "unknown-person":
            mx = T.role_max(r)
            if mx is not None and len(cur) >= mx:
                cur = cur[:mx - 1]
            inst[rk] = cur + [rng.choice(["ghost", "nobody", "ALICIA", 99])]
            return doc
        if cls == "duplicate-membership":
            listed = [p for i in doc[g["plural"]].values() for rr in g["roles"]
                      for p in (i.get(T.role_doc_key(rr), []) if isinstance(i.get(T.role_doc_key(rr), []), list) else [i.get(T.role_doc_key(rr))])]
            if not listed:
                return None
            mx = T.role_max(r)
            if mx is not None and len(cur) >= mx:
                free = [rr for rr in g["roles"] if T.role_max(rr) is None]
                if not free:
                    return None
                rk = T.role_doc_key(free[0])
                cur = inst.get(rk, [])
                cur = [cur] if not isinstance(cur, list) else list(cur)
            inst[rk] = cur + [rng.choice(listed)]
            return doc
        bounded = [rr for rr in g["roles"] if T.role_max(rr) is not None]
        if not bounded:
            return None
        r = rng.choice(bounded)
        rk = T.role_doc_key(r)
        listed = {str(p) for i in doc[g["plural"]].values() for rr in g["roles"]
                  for p in (i.get(T.role_doc_key(rr), []) if isinstance(i.get(T.role_doc_key(rr), []), list) else [i.get(T.role_doc_key(rr))])}
        cur = inst.get(rk, [])
        cur = [cur] if not isinstance(cur, list) else list(cur)
        free = [p for p in pids if str(p) not in listed]
        need = T.role_max(r) + 1 - len(cur)
        if len(free) < need:
            return None
        inst[rk] = cur + free[:need]
        return doc
    if cls == "text-for-number":
        return put(lambda v: v["type"] in ("float", "int") and v["rule"] == "absent",
                   lambda v, k: {k: rng.choice(["abc", "hello", "many", "2018-01-01", "2024-02-09"])})
    if cls == "list-value":
        return put(lambda v: v["type"] in ("float", "int", "bool", "date") or isinstance(v["type"], list),
                   lambda v, k: {k: [native_value(rng, v) for _ in range(rng.randint(2, 3))]})
    if cls == "too-large":
        def too_large(v, k):
            if v["type"] == "int":
                pool = [2 ** 31, -2 ** 31 - 1, 2 ** 32 + 5, 2 ** 63 - 1, -2 ** 63, 2 ** 63, 10 ** 30, 2147483648.0, -2147483649.0,
                        2147483647.5, -2147483648.5, float(2 ** 62), 1e19, -1e40]
            elif v["type"] == "date":
                pool = [2 ** 63, -2 ** 63 - 1, 2 ** 64, 10 ** 30]
            else:
                pool = [2 ** 15, -2 ** 15 - 1, 65536, 2 ** 31, 2 ** 63, 32768.0, -32769.0, 32767.5, 1e19]
            return {k: rng.choice(pool)}
        return put(lambda v: v["type"] in ("int", "date") or isinstance(v["type"], list), too_large)
    if cls == "date-for-number":
        return put(lambda v: v["type"] in ("int", "float") or isinstance(v["type"], list),
                   lambda v, k: {k: dt.date(1980, rng.randint(1, 12), 3)})
    if cls == "foreign-variable":
        ek, _, _, inst = rng.choice(insts)
        cands = [v for v in spec["vars"] if v["entity"] != ek and v["rule"] == "absent"]
        if not cands:
            return None
        v = rng.choice(cands)
        inst[v["name"]] = {spell(rng, v["unit"], rng.choice(CANON[v["unit"]])): native_value(rng, v)}
        return doc
    if cls == "undated-no-default":
        ek, _, _, inst = rng.choice(insts)
        cands = vars_of(ek, lambda v: v["rule"] == "absent")
        v = rng.choice(cands)
        x = native_value(rng, v)
        inst[v["name"]] = x if not isinstance(x, (dict, list)) else 1
        return ("nodp", doc)
    if cls == "role-wrong-type":
        kinds = [g for g in spec["groups"] if isinstance(doc.get(g["plural"]), dict) and doc[g["plural"]]]
        if not kinds:
            return None
        g = rng.choice(kinds)
        inst = doc[g["plural"]][rng.choice(list(doc[g["plural"]]))]
        inst[T.role_doc_key(rng.choice(g["roles"]))] = rng.choice([None, {"a": 1}, 2.5, [["nested"]], [None], [2.5]])
        return doc
    if cls == "dict-value":
        return put(lambda v: v["type"] in ("float", "int", "date") or isinstance(v["type"], list),
                   lambda v, k: {k: {"value": 1}})
    if cls == "unknown-enum":
        return put(lambda v: isinstance(v["type"], list), lambda v, k: {k: rng.choice(["purple", "RED", "", "0", v["type"][0] + " "])})
    if cls == "impossible-date":
        return put(lambda v: v["type"] == "date",
                   lambda v, k: {k: rng.choice(["2018-02-30", "2019-02-29", "2018-13-01", "2018-04-31", "2018-00-10", "2018-01-32", "1900-02-29"])})
    if cls == "bad-period":
        return put(lambda v: v["rule"] == "absent", lambda v, k: {rng.choice(BAD_KEYS): native_value(rng, v)})
    if cls == "period-mismatch":
        ek, _, _, inst = rng.choice(insts)
        cands = vars_of(ek, lambda v: v["rule"] == "absent" and v["unit"] != "eternity")
        if not cands:
            return None
        v = rng.choice(cands)
        others = {"month": ["2018", "month:2018-01:3", "2018-01-15", "ETERNITY", "eternity", "year:2018:2"],
                  "year": ["2018-01", "year:2018:2", "month:2018-01:3", "ETERNITY"],
                  "day": ["2018-01", "2018", "day:2018-01-15:2", "eternity"],
                  "week": ["2018-01", "week:2018-W03:2", "2018", "ETERNITY"],
                  "weekday": ["weekday:2018-W03-2:3", "2018-W03", "ETERNITY"]}[v["unit"]]
        inst[v["name"]] = {rng.choice(others): native_value(rng, v)}
        return doc
    if cls == "no-person":
        doc[spec["pp"]] = rng.choice([{}, None])
        if doc[spec["pp"]] is None:
            del doc[spec["pp"]]
            if not doc:
                return None
        return doc
    if cls == "wrong-type":
        ek, plural, iid, _ = rng.choice(insts)
        doc[plural][iid] = rng.choice([[], "x", 3])
        return doc
    return None


def mutate_vars(rng, spec, doc, cls):
    doc = copy.deepcopy(doc)
    if not doc:
        return None
    if cls == "unknown-variable":
        first = next(iter(doc.values()))
        doc["zzz"] = copy.deepcopy(first)
        return doc
    name = rng.choice(list(doc))
    v = next(x for x in spec["vars"] if x["name"] == name)
    if not isinstance(doc[name], dict) or not doc[name]:
        return None
    k = rng.choice(list(doc[name]))
    val = doc[name].pop(k)
    n = len(val) if isinstance(val, list) else 1
    if cls == "bad-period":
        doc[name][rng.choice(["2018-13", "abc", "month:2018"])] = val
    elif cls == "period-mismatch" and v["rule"] == "absent" and v["unit"] in ("month", "year"):
        doc[name][{"month": "2018", "year": "2018-01"}[v["unit"]]] = val
    elif cls == "unknown-enum" and isinstance(v["type"], list):
        doc[name][k] = ["purple"] * n
    elif cls == "impossible-date" and v["type"] == "date":
        doc[name][k] = ["2018-02-30"] * n
    else:
        return None
    return doc


# --------------------------------------------------------------------------------------
# streams for the recorded findings (kept out of the main streams)

BASE_SPEC = T.system_spec([T.HOUSEHOLD, T.FAMILY],
                          T.all_types_variables("person", "p_") + T.all_types_variables("household", "h_") +
                          T.all_types_variables("family", "f_"))
AX = lambda name, cnt, mn, mx, **kw: {"name": name, "count": cnt, "min": mn, "max": mx, **kw}


def finding_cases(rng: random.Random | None, per_class: int):
    """Minimal input of every open finding first, then `per_class` random variants."""
    S = BASE_SPEC
    out = []
    add = lambda tag, dp, doc: out.append(mk_case(S, dp, doc, tags=("finding", tag)))
    hh = lambda members, **kw: {"h": {"parents": members, **kw}}
    fa = lambda head, others=(): {"fa": {"head": head, "others": list(others)}}
    # F-C12g: short form + axes
    add("F-C12g", None, {"persons": {"a": {}, "b": {}}, "household": {"parents": ["a", "b"]}, "family": {"head": "a", "others": ["b"]},
                         "axes": [[AX("p_f", 3, 0, 4, period="2018-01")]]})
    # F-C12h: short form + unknown key
    add("F-C12h", None, {"persons": {"a": {}}, "household": {"parents": ["a"]}, "companies": {"c": {}}})
    # F-C12i: group id = id of a person left out
    add("F-C12i", None, {"persons": {"a": {}, "b": {}}, "households": {"a": {"parents": ["b"]}}})
    # F-C12j: eternal variable under a dated key and under ETERNITY
    add("F-C12j", None, {"persons": {"a": {"p_d": {"2018-01": "1980-02-03"}}, "b": {"p_d": {"ETERNITY": "1990-02-03"}}}})
    # F-C12k: second parallel axis of a perpendicular dimension
    add("F-C12k", None, {"persons": {"a": {}}, "households": hh(["a"]), "families": fa("a"),
                         "axes": [[AX("p_f", 2, 0, 1, period="2018-01")], [AX("p_i", 2, 0, 5, period="2018-01"), AX("p_y", 2, 10, 20, period="2018")]]})
    # F-C12l: 24 months written before the year they contain
    add("F-C12l", None, {"persons": {"a": {"p_dv": {"month:2018-01:24": 2400, "2018": 600}}}})
    # F-C12m: long period of one instance, specific sub-period of another
    add("F-C12m", None, {"persons": {"a": {"p_ds": {"2018-01": 5}}, "b": {"p_ds": {"2018": 12}}}})
    add("F-C12m", None, {"persons": {"a": {"p_dv": {"2018-01": 5}}, "b": {"p_dv": {"2018": 1200}}}})
    # F-C12-errclass: refusals that are not situation errors (axes, variables-only form)
    add("F-C12-errclass", None, {"persons": {"a": {}}, "households": hh(["a"]), "families": fa("a"),
                                 "axes": [[AX("zz", 2, 0, 1, period="2018-01")]]})
    add("F-C12-errclass", None, {"persons": {"a": {}}, "households": hh(["a"]), "families": fa("a"), "axes": [[AX("p_f", 2, 0, 1)]]})
    add("F-C12-errclass", None, {"p_f": {"2018-01": [1, 2]}, "zz": {"2018": [3, 4]}})
    add("F-C12-errclass", None, {"p_f": {"2018-13": [1, 2]}})
    add("F-C12-errclass", None, {"p_f": {"2018": [1, 2]}})
    add("F-C12-errclass", None, {"p_e": {"2018-01": ["red", "purple"]}})
    add("F-C12-errclass", None, {"p_d": {"ETERNITY": ["2018-02-30"]}})
    if rng is None:
        return out
    for _ in range(per_class):
        spec = gen_spec(rng)
        if not spec["groups"]:
            continue
        g = spec["groups"][0]
        pv = [v for v in spec["vars"] if v["entity"] == spec["pk"]]
        fv = next(v for v in pv if v["type"] == "float" and v["unit"] == "month" and v["rule"] == "absent")
        # g: a short-form document with axes
        dp, doc = gen_entities_doc(rng, spec, short=True)
        if is_short_form(spec, doc):
            d2 = dict(doc)
            d2["axes"] = [[AX(fv["name"], rng.randint(2, 4), 0, 12, period=spell(rng, "month", "2018-01"))]]
            out.append(mk_case(spec, dp, d2, tags=("finding", "F-C12g")))
            d3 = dict(doc)
            d3[rng.choice(["companies", "dogs"])] = {}
            out.append(mk_case(spec, dp, d3, tags=("finding", "F-C12h")))
        # i: collision
        n = rng.randint(2, 5)
        pids = rng.sample(PERSON_IDS, n)
        left = rng.choice(pids)
        others = [p for p in pids if p != left]
        rk = T.role_doc_key(next((r for r in g["roles"] if T.role_max(r) is None), g["roles"][0]))
        doc = {spec["pp"]: {p: {} for p in pids}, g["plural"]: {left: {rk: others[:1]}}}
        out.append(mk_case(spec, None, doc, tags=("finding", "F-C12i")))
        # j: eternal variable, dated and eternity keys
        ev = next(v for v in pv if v["unit"] == "eternity")
        pids = rng.sample(PERSON_IDS, 2)
        doc = {spec["pp"]: {pids[0]: {ev["name"]: {rng.choice(["2018-01", "2018", "2018-01-15"]): native_value(rng, ev)}},
                            pids[1]: {ev["name"]: {spell(rng, "eternity", ""): native_value(rng, ev)}}}}
        out.append(mk_case(spec, None, doc, tags=("finding", "F-C12j")))
        # l / m: flush order and per-instance long periods
        dv = next(v for v in pv if v["rule"] == "divide")
        ds = next(v for v in pv if v["rule"] == "dispatch")
        a = rng.randint(1, 40) * 24
        out.append(mk_case(spec, None, {spec["pp"]: {"a": {dv["name"]: {"month:2018-01:24": a, spell(rng, "year", "2018"): a // 4}}}},
                           tags=("finding", "F-C12l")))
        out.append(mk_case(spec, None, {spec["pp"]: {"a": {ds["name"]: {spell(rng, "month", "2018-02"): rng.randint(1, 9)}},
                                                     "b": {ds["name"]: {spell(rng, "year", "2018"): rng.randint(10, 90)}}}},
                           tags=("finding", "F-C12m")))
        # k: perpendicular dimension with two parallel axes (all group kinds declared, one group each)
        iv = next(v for v in pv if v["type"] == "int" and v["unit"] == "month" and v["rule"] == "absent")
        yv = next(v for v in pv if v["type"] == "float" and v["unit"] == "year")
        doc = {spec["pp"]: {"a": {}}}
        for gg in spec["groups"]:
            doc[gg["plural"]] = {"g": {T.role_doc_key(gg["roles"][0]): ["a"]}}
        doc["axes"] = [[AX(fv["name"], 2, 0, 1, period="2018-01")],
                       [AX(iv["name"], 2, 0, 5, period="2018-01"), AX(yv["name"], 2, 10, 20, period="2018")]]
        out.append(mk_case(spec, None, doc, tags=("finding", "F-C12k")))
        # errclass: unknown variable in an axis, variables-only refusals
        d4 = copy.deepcopy(doc)
        d4["axes"] = [[AX("zz", 2, 0, 1, period="2018-01")]]
        out.append(mk_case(spec, None, d4, tags=("finding", "F-C12-errclass")))
        dpv, vd = gen_vars_doc(rng, spec)
        m = mutate_vars(rng, spec, vd, rng.choice(["unknown-variable", "bad-period", "period-mismatch", "unknown-enum", "impossible-date"]))
        if m is not None:
            out.append(mk_case(spec, dpv, m, tags=("finding", "F-C12-errclass", "malformed")))
    return out


# --------------------------------------------------------------------------------------
# regression corpus: the minimal failing input of every repaired defect


def corpus():
    S = BASE_SPEC
    c = lambda tag, dp, doc: mk_case(S, dp, doc, tags=("corpus", tag))
    hh = {"h": {"parents": ["a", "b"]}}
    fa = {"fa": {"head": "a", "others": ["b"]}}
    out = [
        c("F-C12a", None, {"persons": {"a": {"p_f": {"month:2018-01": 100}}, "b": {"p_f": {"month:2018-01": 200}}}}),
        c("F-C12a", None, {"persons": {"a": {"p_d": {"eternity": "1980-01-01"}}, "b": {"p_d": {"ETERNITY": "1990-01-01"}}}}),
        c("F-C12a", "2018-01", {"persons": {"a": {"p_f": {"2018-01": 100}}, "b": {}}, "households": hh, "families": fa,
                                "axes": [[AX("p_f", 2, 0, 2000, period="month:2018-01")]]}),
        c("F-C12a", None, {"persons": {"a": {"p_y": {2018: 7}}, "b": {"p_y": {"month:2018-01:12": 9}}}}),
        c("F-C12b", None, {"persons": {"a": {"p_dv": {"month:2018-01:3": 600, "month:2018-01:24": 2400}}}}),
        c("F-C12c", None, {"persons": {"a": {"p_f": {"2018-01": [1, 2]}}}}),
        c("F-C12d", None, {"persons": {"a": {}}, "companies": {"c": {}}}),
        c("F-C12e", None, {"persons": {"a": {}}, "households": {10: {"parents": ["a"]}}}),
        c("F-C12f", None, {"persons": {"a": {}, "b": {}}, "households": {"h": {"parents": ["a"], "h_f": {"2018-01": 5}}}}),
        c("F-C12f", None, {"persons": {"a": {}, "b": {}, "c": {}}, "households": {"h": {"parents": ["a"], "h_f": {"2018-01": 5}},
                                                                                 "k": {"h_f": {"2018-01": 6}}}}),
        c("F-C12n", None, {"persons": {"a": {"p_i": {"2018-01": 2147483648}}}}),
        c("F-C12n", None, {"persons": {"a": {"p_i": {"2018-01": -2147483649.0}}, "b": {"p_i": {"2018-01": 2147483647}}}}),
        c("F-C12n", None, {"persons": {"a": {"p_e": {"2018-01": 32768}}}}),
        c("F-C12n", None, {"persons": {"a": {"p_i": {"2018-01": 2147483647}}, "b": {"p_i": {"2018-01": -2147483648}}}}),
        # F-C12j: an eternal variable under a dated key and under ETERNITY (two persons; one person twice; three keys)
        c("F-C12j", None, {"persons": {"a": {"p_d": {"2018-01": "1980-02-03"}}, "b": {"p_d": {"ETERNITY": "1990-02-03"}}}}),
        c("F-C12j", None, {"persons": {"a": {"p_d": {"ETERNITY": "1980-02-03"}}, "b": {"p_d": {"2018": "1990-02-03"}},
                                       "c": {"p_ee": {"2018-01-15": "blue"}}, "d": {"p_ee": {"eternity": "green"}, "p_d": {"2017-12": "2000-01-01"}}}}),
        c("F-C12j", None, {"persons": {"a": {}, "b": {}}, "households": {"h": {"parents": ["a"], "h_d": {"2018-01": "1980-02-03"}},
                                                                         "k": {"h_d": {"eternity": "1990-02-03"}}}}),
        # F-C12-errclass-axes: an axis over an unknown variable / without any period is a situation error
        c("F-C12-errclass-axes", None, {"persons": {"a": {}}, "households": {"h": {"parents": ["a"]}}, "families": {"fa": {"head": "a", "others": []}},
                                        "axes": [[AX("zz", 2, 0, 1, period="2018-01")]]}),
        c("F-C12-errclass-axes", None, {"persons": {"a": {}}, "households": {"h": {"parents": ["a"]}}, "families": {"fa": {"head": "a", "others": []}},
                                        "axes": [[AX("p_f", 2, 0, 1)]]}),
        c("F-C12-errclass-axes", None, {"persons": {"a": {}}, "households": {"h": {"parents": ["a"]}}, "families": {"fa": {"head": "a", "others": []}},
                                        "axes": [[AX("p_f", 2, 0, 1, period="2018-01")], [AX("p_i", 2, 0, 5, period="2018-13"), AX("zz", 2, 10, 20, period="2018")]]}),
    ]
    return out + finding_cases(None, 0)


# --------------------------------------------------------------------------------------
# the generated stream


JOIN_INT_IDS = [3, 10, 100, 7, 21, 1000, 0, 55, -4, 12]


def gen_join(rng: random.Random, spec):
    """Declarations for create_entities / declare_person_entity / declare_entity / join_with_persons: text or
    integer ids (integers of different widths and signs, in no particular order), declared groups without
    member, roles as keys or as indices into the flattened roles."""
    n = rng.randint(1, 6)
    pids = rng.sample(JOIN_INT_IDS, n) if rng.random() < 0.3 else pick_ids(rng, PERSON_IDS, n, allow_int=False)
    groups = []
    for g in spec["groups"]:
        ng = rng.randint(1, 4)
        gids = rng.sample(JOIN_INT_IDS, ng) if rng.random() < 0.35 else pick_ids(rng, GROUP_IDS + PERSON_IDS[:4], ng, allow_int=False)
        pool = gids if rng.random() < 0.6 or ng == 1 else rng.sample(gids, rng.randint(1, ng - 1))      # some groups stay empty
        flat = T.flat_roles(g)
        roles = [rng.randrange(len(flat)) for _ in pids] if rng.random() < 0.5 else [rng.choice(flat) for _ in pids]
        groups.append({"kind": g["key"], "ids": gids, "of": [rng.choice(pool) for _ in pids], "roles": roles})
    return {"persons": pids, "groups": groups}


def rerouted(rng: random.Random, spec, dp, doc, tags, well_formed: bool) -> Case:
    """The same document through another entry point of the builder: build_from_entities called directly
    (what the web API does), or — well-formed fully specified documents only — its steps one by one."""
    r = rng.random()
    if well_formed and r < 0.10 and manual_ok(spec, doc):
        return mk_case(spec, dp, doc, tags=tags, route="manual")
    if r < (0.25 if well_formed else 0.2):
        return mk_case(spec, dp, doc, tags=tags, route="entities")
    return mk_case(spec, dp, doc, tags=tags)


def generate(rng: random.Random, tier: str):
    n_specs, per_spec = (400, 48) if tier == "quick" else (8000, 58)
    out = list(finding_cases(rng, 10 if tier == "quick" else 100))
    for k_spec in range(n_specs):
        spec = gen_spec(rng)
        style = ("static", "instance", "keyword", "omitted")[k_spec % 4]
        out.append(mk_default_case(spec, 1 if style == "omitted" else rng.choice([1, 1, 2, 3, 5, 8, 13]), style))
        out.append(mk_join_case(spec, gen_join(rng, spec)))
        for _ in range(per_spec):
            r = rng.random()
            if r < 0.13:
                dp, doc = gen_vars_doc(rng, spec)
                if dp is None and doc and rng.random() < 0.08:
                    k = rng.choice(list(doc))                       # undated value without default period
                    if isinstance(doc[k], dict) and doc[k]:
                        doc[k] = next(iter(doc[k].values()))
                        out.append(mk_case(spec, dp, doc, tags=("malformed", "shape:vars", "mut:undated-no-default")))
                        continue
                if doc and rng.random() < 0.04:             # variables are no entities for build_from_entities
                    out.append(mk_case(spec, dp, doc, tags=("malformed", "shape:vars"), route="entities"))
                    continue
                out.append(mk_case(spec, dp, doc, tags=("valid", "shape:vars")))
            elif r < 0.26:
                dp, doc = gen_entities_doc(rng, spec, short=True, want_axes=rng.random() < 0.25 and bool(spec["groups"]))
                if is_short_form(spec, doc) and rng.random() < 0.04:      # nor are singular keys
                    out.append(mk_case(spec, dp, doc, tags=("malformed", "shape:short"), route="entities"))
                    continue
                out.append(mk_case(spec, dp, doc, tags=("valid", "shape:short" if is_short_form(spec, doc) else "shape:full")))
            elif r < 0.44 and spec["groups"]:
                dp, doc = gen_entities_doc(rng, spec, want_axes=True)
                tag = "axes:none" if "axes" not in doc else ("axes:perpendicular" if len(doc["axes"]) > 1 else "axes:parallel")
                if "axes" in doc and rng.random() < 0.06:
                    # axes need every group kind: an omitted kind is a situation error
                    del doc[rng.choice(spec["groups"])["plural"]]
                    out.append(mk_case(spec, dp, doc, tags=("malformed", "axes:missing-kind")))
                    continue
                out.append(rerouted(rng, spec, dp, doc, ("valid", "shape:full", tag), True))
            elif r < 0.74:
                dp, doc = gen_entities_doc(rng, spec)
                out.append(rerouted(rng, spec, dp, doc, ("valid", "shape:full"), True))
            elif r < 0.96:
                dp, doc = gen_entities_doc(rng, spec, want_axes=rng.random() < 0.1 and bool(spec["groups"]))
                cls = rng.choice(MUTATIONS)
                m = mutate(rng, spec, doc, cls)
                if isinstance(m, tuple):
                    dp, m = None, m[1]
                if m is not None:
                    out.append(rerouted(rng, spec, dp, m, ("malformed", "mut:" + cls), False))
            else:
                # refusals of the short form (the mutation is applied inside an entity, not at the top)
                dp, doc = gen_entities_doc(rng, spec, short=True)
                plural_part = {k: x for k, x in doc.items() if not is_short_form(spec, {k: x})}
                cls = rng.choice([c for c in MUTATIONS if c not in ("unknown-entity", "no-person")])
                m = mutate(rng, spec, plural_part, cls) if spec["pp"] in plural_part else None
                if isinstance(m, tuple):
                    dp, m = None, m[1]
                if m is not None:
                    out.append(mk_case(spec, dp, {**doc, **m}, tags=("malformed", "shape:short", "mut:" + cls)))
    return out


_SPECIAL_WORDS = {"true", "false", "nan", "inf", "infinity", "none", "expression", "numexpr", "numpy", "t", "e", "pi"}


def modelled(v, x) -> bool:
    """Whether the model transcribes what numpy / numexpr do with value `x` for variable `v`
    (elsewhere the driver answers UNMODELLED and the case is not binding)."""
    t = v["type"]
    if x is None:
        return True
    if isinstance(x, dt.date):
        return t != "str"
    plain = isinstance(x, str) and x.isascii() and x.isalpha() and x.lower() not in _SPECIAL_WORDS
    if isinstance(t, list):
        if isinstance(x, str) or isinstance(x, dict):
            return True
        if isinstance(x, list):
            return len(x) != 1
        if isinstance(x, bool):
            return False
        if isinstance(x, float):
            return not -2 ** 15 <= x <= 2 ** 15 - 1
        return isinstance(x, int) and (0 <= x < len(t) or not -2 ** 15 <= x <= 2 ** 15 - 1)
    if t in ("float", "int"):
        if isinstance(x, str):
            return (all(c in "0123456789.+-* " for c in x) and "**" not in x) or plain
        if isinstance(x, list):
            return len(x) != 1
        return True
    if t == "bool":
        if isinstance(x, list):
            return len(x) >= 2
        return not isinstance(x, dict)
    if t == "str":
        return isinstance(x, str)
    if t == "date":
        if isinstance(x, bool):
            return False
        if isinstance(x, int):
            return -700000 <= x <= 2900000 or not -2 ** 63 <= x < 2 ** 63
        if isinstance(x, str):
            if plain:
                return True
            m = re.match(r"^(\d{4})(-(\d{2})(-(\d{2}))?)?$", x)
            if m and x[0] != "0":
                return m.group(3) is None or 1 <= int(m.group(3)) <= 12 or m.group(5) is not None
            return bool(re.match(r"^\d{4}-W\d{2}(-\d)?$", x))
        return True
    return False


def enumerate_thorough():
    """Two complete finite sub-spaces: (1) two persons, every pair of spellings of the same month /
    year / eternity key, every membership layout of a one-kind system; (2) every value type against
    every kind of value."""
    out = []
    S = T.system_spec([T.FAMILY], T.all_types_variables("person", "p_") + [T.var("f_f", "family", "float")])
    layouts = [None, {}, {"fa": {"head": "a"}}, {"fa": {"head": "a", "others": ["b"]}}, {"fa": {"others": ["b", "a"]}},
               {"fa": {"head": "b"}, "fb": {"head": "a"}}, {"fa": {"f_f": {"2018-01": 3}}, "fb": {"others": "b"}}]
    for var_name, unit, canon, vals in [("p_f", "month", "2018-01", (100, 2.5)), ("p_y", "year", "2018", (7, 9.25)),
                                        ("p_d", "eternity", "", ("1980-01-01", "1990-12-31")), ("p_e", "month", "2018-02", ("red", "blue"))]:
        sp = spellings(unit, canon)
        for k1 in sp:
            for k2 in sp:
                for lay in layouts:
                    doc = {"persons": {"a": {var_name: {k1: vals[0]}}, "b": {var_name: {k2: vals[1]}}}}
                    if lay is not None:
                        doc["families"] = lay
                    out.append(mk_case(S, None, doc, tags=("enum", "spellings")))
    values = [0, 1, -3, 2.5, -0.75, True, False, "1+1", "abc", "1 +", "2*3+1.5", "-2", "2018-01-01", "2018-02-30", "2018-13-01",
              "2018", "2018-01", "red", "blue", "purple", [1, 2], ["red", "blue"], [], {"a": 1}, None, "hello", "2018-10-10", "7 ", " 7",
              dt.date(1980, 2, 3), 2 ** 31 - 1, 2 ** 31, -2 ** 31, -2 ** 31 - 1, 2 ** 63 - 1, 2 ** 63, -2 ** 63 - 1, float(2 ** 63),
              2147483647.0, 2147483648.0, 2147483647.5, 32767, 32768, -32768, -32769, 32767.5]
    for v in [x for x in S["vars"] if x["entity"] == "person" and x["rule"] == "absent"]:
        key = spellings(v["unit"], CANON[v["unit"]][0])[0]
        for x in values:
            out.append(mk_case(S, None, {"persons": {"a": {}, "b": {v["name"]: {key: x}}}}, tags=("enum", "values"),
                               claimed=modelled(v, x)))
    return out


def neighbours(case: Case):
    """Smaller documents around a diverging one: drop one top-level entry, one instance, one variable."""
    route = route_of(case.line)
    if route in ("default", "join"):
        return []
    route = "entities" if route == "manual" else route
    spec, dp, doc = parse_line(case.line)
    out = []
    if not isinstance(doc, dict):
        return out
    for k in list(doc):
        d = {a: b for a, b in doc.items() if a != k}
        if d:
            out.append(mk_case(spec, dp, d, tags=("neighbour",), route=route))
        if isinstance(doc[k], dict):
            for j in list(doc[k]):
                d = copy.deepcopy(doc)
                del d[k][j]
                out.append(mk_case(spec, dp, d, tags=("neighbour",), route=route))
                if isinstance(doc[k][j], dict):
                    for z in list(doc[k][j]):
                        d = copy.deepcopy(doc)
                        del d[k][j][z]
                        out.append(mk_case(spec, dp, d, tags=("neighbour",), route=route))
    return out[:200]


PROP = Prop(
    pid="C12",
    lean_targets=["OFCore.Props.C12"],
    driver="ofdrv_doc",
    generate=generate, impl=impl, oracle=oracle, nontrivial=nontrivial,
    corpus=corpus, enumerate_thorough=enumerate_thorough, neighbours=neighbours, canon_equal=canon_equal,
    extra_lean_files=["OFCore/Builder.lean", "OFCore/Lemmas/Builder.lean", "OFCore/Drv/Doc.lean"],
    search_budget_factor=3,
    rule=("lines `doc build <system> <default period> <document>`: real tax-benefit systems built programmatically "
          "(tbsutil.make_system: a person entity and 0-2 group kinds among household (parents max 2 with sub-roles, children), "
          "family (head max 1 without plural key, others) and random kinds with 1-3 roles, optional plural keys, max 1-3, 2-3 "
          "sub-roles; 13 variables per entity: float/int/bool/str/date/enum, definition periods month/year/day/week/weekday/"
          "eternity, set_input dispatch and divide, random non-zero defaults); documents with 1-6 persons and 0-4 groups per "
          "kind in any order, text and integer ids, bare-string role shorthand, persons left out, kinds omitted, every value "
          "type, period keys in every spelling ('2018-01', 'month:2018-01', 'month:2018-01:1', 'year:2018', 'month:2018-01:12', "
          "2018, 'ETERNITY'/'eternity'/'eTeRnItY', day/week/weekday forms), values on mixed long/short periods for dispatch / "
          "divide variables (month:3 with month:24, months with a year, year with year:2), default period with undated values, "
          "nulls, convertible values (booleans, floats for integers, arithmetic text '2*3+1.5'); the three shapes (fully "
          "specified, short form, variables only); 1-2 parallel axes and 2-3 perpendicular dimensions with index / period / "
          "default period; an ill-formed stream of single mutations (unknown entity, variable, person, duplicate membership, "
          "too many holders, text for a number, list or object as a value, unknown enum name, impossible date, unparsable "
          "period, mismatched period, no person, wrong JSON type) in the fully specified and short forms; a small stream per "
          "recorded finding.  Other entry points of the builder (round 2): the same documents through build_from_entities called "
          "directly (what the web API does; variables-only and short-form documents are refused there), well-formed fully "
          "specified documents through the builder's public steps one by one (add_person_entity, add_group_entity / "
          "add_default_group_entity, add_parallel_axis, add_perpendicular_axis, expand_axes, finalize_variables_init), "
          "build_default_simulation (static / instance call, count positional / keyword / left out, 1-13 persons), and "
          "create_entities / declare_person_entity / declare_entity / join_with_persons / nb_persons / build with text or integer "
          "ids of different widths and signs in any order, declared groups without member, roles as keys or as indices.  "
          "Aliasing: the description object handed to the builder must come back unchanged (also when it is refused); on a "
          "quarter of the documents a second simulation is built from the SAME object and must equal the first; no two stored "
          "vectors of different variables (or of two periods of a variable without set_input helper), and no id / membership "
          "arrays of two entities, may occupy the same memory.  "
          "Compared: per entity ids, count, members_entity_id, members_role, members_position, per "
          "(variable, known period) the stored vector, or SITUATION / ERR.  Non-trivial = a simulation with stored values or "
          "several members, or a refusal; distinct = distinct protocol lines."),
    assumptions=[
        "Holder.set_input and the two set_input helpers are outside this model: the theorems take `setInput` as a parameter with the stated frame assumption (never overwrite a known period of the variable, touch no other variable); the driver runs a transcription of the repaired helpers, tied by this correspondence; the clause 'longer periods fill only what is unknown' is checked by the oracle on the real code",
        "ids, variable names and text values are ASCII; two keys of one object never have the same text (a Python dict cannot hold duplicate keys; 1 and '1' together are not generated)",
        "every instance that declares a dispatch/divide variable on a long period declares the same periods (finding F-C12m); refusals in the variables-only form are judged as 'an error' only (finding F-C12-errclass: tests/core pins ValueError out of build_from_variables); eternal variables are given under dated keys too (F-C12j, fixed), axes over unknown variables / unreadable periods must be situation errors (F-C12-errclass-axes, fixed)",
        "numpy / numexpr conversions are modelled on the claimed value forms only (numbers, booleans, ISO dates, enum names, arithmetic text over 0-9 . + - * blank, plain words); other forms answer UNMODELLED in the model and are not binding",
        "float values are dyadic and exactly representable in float32; a divided share is one IEEE float32 division (the comparison rounds the model's exact quotient the same way)",
        "the order in which a Python set yields the persons left out of a group kind is not observable behaviour: own-groups are renumbered in person order before comparison; ids of axis copies are compared with the model but not judged by the oracle",
        "Variable.end, neutralised variables, max_length strings and memory configuration are not exercised",
    ],
    partial_theorems=[],
    exhaustive_note=("thorough: two persons x every pair of spellings of one month / year / eternity key x 7 membership "
                     "layouts (4 variables); every person variable without set_input x 29 value forms"),
)
