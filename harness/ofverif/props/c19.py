"""C19 — a dumped simulation restores to the same values and entity structure.

Protocol (one self-contained case per line; `lean/OFCore/OFCore/Drv/Dmp.lean` documents the tokens):

    dmp rt <npost> E|… V|… P|… H|… A|…   ->  OK P|… A|… F|<paths> C|<flags>  |  ERR  |  BAD

A case is a *scenario* (payload): a programmatic tax-benefit system (person + 0–2 group
entities; variables of every value type — float, int, bool, str, str with max_length, date,
Enum — and every definition period), a population (memberships, roles, empty groups, also a
trailing one; in more than half of the cases member positions explicitly assigned to a permutation
inside each group that is not the order of appearance, in a share explicit roles incl. sub-roles
and explicit identifiers), a storage configuration (memory / disk / dropped variables / trace /
opt-out cache), inputs on unit-aligned periods (rolling years, multi-month and multi-week
periods through the dispatch / divide helpers, weeks, weekdays, ETERNITY), 0–5 top-level
requests (`calculate`, `calculate_add`, `calculate_divide`) and 1–5 further calculations (among them NEW position- and
role-dependent ones: `value_from_first_person`, `value_nth_person`, `sum(role=…)`, `nb_persons(role=…)`).

* Every scenario also fixes: how the two functions are called (directory missing / parent missing / existing
  and empty / trailing separator / `pathlib.Path` / keyword arguments / extra keyword arguments; a directory
  that already holds an older dump or one stale variable directory — refused, `T|stale`); which system object
  restores (the very object, `clone()`, a reform that changes nothing); whether the same dump is restored
  twice, or the restored simulation is dumped again and that dump restored (`dmp rt2`); foreign entries put
  into the dump between the two calls (`X|`, `XF|`, `XD|`: files, hidden files, sub-directories inside a
  variable directory — among them a loadable back-up `<period>.copy.npy` of one of the dump's own files, whose name ends
  with `.npy` without being a period: refused, where a parser cutting at the first dot would take it for that period —,
  a top-level file, an empty directory named after a variable); `delete_arrays` among
  the requests before the dump; the container handed to `set_input` (array of the variable's dtype, wider
  array, Python list, date objects, enum names / indices / EnumArray).
* The generator runs the scenario on the real engine and writes the *state reached* (entity
  structure + both stores of every holder) into the line: the model replays that state through
  `dump` / `restore` and prints the restored state, the files written and, for every further
  calculation, `A` (theorem `C19_calculations_agree`: it predicts agreement).
* `impl` re-runs the scenario, calls the real `dump_simulation` (into a directory under
  /var/tmp, removed afterwards) and `restore_simulation` under the same system and prints the
  same canonical text from the restored simulation, the directory listing and the comparison of
  the further calculations on both simulations.
* the oracle is independent of the model: restored == original, field by field, on the real
  objects (ids, count, members_entity_id, members_role — the very role objects —,
  members_position; every known (variable, period): array class, dtype family, enumeration,
  values; no extra known period; equal results of the further calculations).
"""
from __future__ import annotations

import os
import random
import traceback

from ..core import Case, Prop
from .. import dumputil as du

QUICK_N = 1500
THOROUGH_N = 9000

PERIODS = {
    "month": ["2018-01", "2018-02", "2017-12", "2016-02", "2018-12", "1000-01", "9999-12"],
    "year": ["2018", "2017", "year:2018-03", "year:2017-07", "year:2016-12", "1000", "9999"],
    "day": ["2018-01-31", "2020-02-29", "2018-03-01", "2016-12-31", "1000-01-01", "9999-12-31"],
    "week": ["2015-W53", "2018-W01", "2020-W53", "2019-W01", "2021-W01", "2018-W52", "2020-W01", "2025-W01",
             "2026-W53", "2018-W09", "2018-W10"],
    "weekday": ["2018-W01-3", "2015-W53-7", "2020-W53-5", "2019-W01-1", "2021-W01-7", "2020-W01-1", "2026-W53-7",
                "2018-W09-7", "2018-W10-1", "2025-W01-2"],
    "eternity": ["ETERNITY", "eternity", "2018-01", "2018", "2018-W01"],
}
LONG = {   # inputs the dispatch / divide helpers spread over the definition period
    "disp_m": ["2018", "year:2018-03", "month:2018-01:3", "month:2017-11:4", "2018-01"],
    "div_m": ["2018", "year:2017-07", "month:2018-01:3", "month:2017-12:2", "2018-02"],
    "div_d": ["2018-02", "day:2018-01-30:3", "2020-02-29", "day:2020-02-27:4"],
    "disp_w": ["week:2018-W01:3", "2018-W01", "week:2020-W52:3"],
    "disp_e": ["2018", "month:2018-11:3", "2018-03"],
}
REQUESTS = [
    ("calculate", "c_m", "month"), ("calculate", "c_y", "year"), ("calculate", "c_e", "month"),
    ("calculate", "c_b", "month"), ("calculate", "c_s", "month"), ("calculate", "c_d", "day"),
    ("calculate", "c_w", "week"), ("calculate", "c_wd", "weekday"), ("calculate", "c_et", "month"),
    ("calculate", "c_date", "month"), ("calculate", "c_i", "month"),
    ("calculate", "f_m", "month"), ("calculate", "e_et", "eternity"), ("calculate", "s_y", "year"),
    ("calculate", "sl_w", "week"), ("calculate", "d_wd", "weekday"), ("calculate", "neut_m", "month"),
    ("calculate_add", "c_m", ["2018", "month:2018-01:3", "year:2018-03"]),
    ("calculate_add", "disp_m", ["2018", "month:2018-02:2"]),
    ("calculate_add", "c_d", ["2018-02", "day:2018-01-30:3"]),
    ("calculate_add", "c_w", ["week:2018-W01:2"]),
    ("calculate_add", "c_i", ["2018"]),
    ("calculate_divide", "c_y", ["2018-01"]),
    ("calculate_divide", "f_y", ["2018-03"]),
]
POSITION_REQUESTS = [("calculate", "{k}_first", "month"), ("calculate", "{k}_nth1", "month"),
                     ("calculate", "{k}_nth2", "month"), ("calculate", "{k}_role_sum", "month"),
                     ("calculate", "{k}_role_nb", "month")]
GROUP_REQUESTS = POSITION_REQUESTS + [("calculate", "{k}_c_y", "year"), ("calculate", "{k}_nb", "month"),
                  ("calculate", "proj_{k}", "year"), ("calculate", "{k}_e_et", "eternity"),
                  ("calculate", "{k}_s_m", "month")]

#: foreign entries put into a variable directory after the dump (`/` = a sub-directory); OnDiskStorage.restore
#: skips every name that does not end with `.npy`; `.npy` alone ends with it and is not a period
IN_VAR_NAMES = ["notes.txt", ".hidden", "README", "2018-01.npy.bak", "2018-01.npy~", "sub/", ".npy.tmp", "x.npyy",
                "2018-01", "npy", ".npy", "@copy", "@copy", "2018.01.npy"]
#: `@copy`: a LOADABLE array under the name `<an existing period file's name>.copy.npy` (somebody's back-up made inside the
#: dump): the name ends with `.npy` and what precedes that suffix — `2018-01.copy` — is not a period, so the restore
#: raises; an implementation that cut the name at its FIRST dot would read the back-up as that period
#: foreign top-level files: restore_simulation reads every top-level name but __entities__ as a variable
TOP_NAMES = [".DS_Store", "README.md", "notes"]

# --------------------------------------------------------------------------------------
# scenarios


def _roles_of(sid, gkey):
    for k, _pl, roles in du.ENTITY_SETS[sid]:
        if k == gkey:
            return roles
    return []


def _gen_groups(rng, sid, gkey, persons):
    roles = _roles_of(sid, gkey)
    ng = rng.choice([1, 1, 2, 2, 3])
    insts = [(f"{gkey[0]}{j}", {}) for j in range(ng)]
    left_out = 0
    for pid in persons:
        if rng.random() < 0.12 and left_out == 0:
            left_out += 1                  # left out: the builder gives it a group of its own (one at
            continue                       # most: several are appended in set-iteration order)
        order = list(range(ng))
        rng.shuffle(order)
        placed = False
        for gi in order:
            members = insts[gi][1]
            cands = list(roles)
            rng.shuffle(cands)
            for role in cands:
                cur = members.setdefault(role["plural"], [])
                if role.get("max") is None or len(cur) < role["max"]:
                    cur.append(pid)
                    placed = True
                    break
                if not cur:
                    del members[role["plural"]]
            if placed:
                break
    if rng.random() < 0.35:
        insts.insert(rng.randint(0, len(insts)), (f"{gkey[0]}mid", {}))
    if rng.random() < 0.4:
        insts.append((f"{gkey[0]}last", {}))         # a trailing empty group
    return [(gid, {k: v for k, v in m.items() if v}) for gid, m in insts]


def _pick_period(rng, unit):
    return rng.choice(PERIODS[unit])


def gen_scenario(rng: random.Random, kind: str = "any") -> dict:
    sid = rng.choice([0, 0, 0, 1, 1, 2, 2, 3, 4]) if kind == "any" else int(kind)
    _tbs, info = du.get_system(sid)
    sc: dict = {"sid": sid}
    if sid == 4 or rng.random() < 0.15:
        sc["build"] = "default"
        sc["count"] = rng.choice([1, 2, 3, 4, 4, 5, 5, 6])
        remap = {}
        for g in info["groups"]:
            if rng.random() < 0.6:
                remap[g] = [rng.randint(0, rng.choice([1, 2, 4])) for _ in range(6)]
        sc["remap"] = remap
    else:
        sc["build"] = "entities"
        n = rng.choice([1, 2, 3, 3, 4, 4, 5, 6, 7])
        persons = [f"p{i}" for i in range(n)] if rng.random() < 0.7 else [f"{chr(233)}{i}" for i in range(n)]
        rng.shuffle(persons)
        sc["persons"] = persons
        sc["groups"] = {g: _gen_groups(rng, sid, g, persons) for g in info["groups"]}
    names = sorted(info["inputs"]) + sorted(info["formulas"])
    cfg: dict = {}
    if rng.random() < 0.4:
        cfg["mem"] = {"priority": rng.sample(names, rng.randint(0, 6)), "drop": rng.sample(names, rng.randint(0, 3))}
    if rng.random() < 0.2:
        cfg["trace"] = True
    if rng.random() < 0.3:
        cfg["opt"] = True
    sc["config"] = cfg
    inputs = []
    pool = sorted(info["inputs"])
    for _ in range(rng.choice([0, 1, 2, 3, 4, 6, 8, 12])):
        var = rng.choice(pool)
        _vt, unit, _extra, _ent = info["inputs"][var]
        base = var.split("_", 1)[1] if var.split("_", 1)[0] in info["groups"] else var
        per = rng.choice(LONG[base]) if base in LONG and rng.random() < 0.8 else _pick_period(rng, unit)
        inputs.append((var, per, rng.randrange(1 << 30)))
    sc["inputs"] = inputs
    reqs = list(REQUESTS) + [(k, v.format(k=g), u) for g in info["groups"] if _roles_of(sid, g) for k, v, u in GROUP_REQUESTS]

    def pick_request():
        kind_, var, where = rng.choice(reqs)
        per = rng.choice(where) if isinstance(where, list) else _pick_period(rng, where)
        return (kind_, var, per)

    sc["requests"] = [pick_request() for _ in range(rng.randint(0, 5))]
    if sc["requests"] and rng.random() < 0.25:
        # a top-level delete_arrays (whole variable, one period, or a containing period) before the dump
        _k, var, per = rng.choice(sc["requests"])
        unit = info["inputs"][var][1] if var in info["inputs"] else info["formulas"][var][0]
        where = rng.choice([None, per, rng.choice(PERIODS["year"][:3]) if unit in ("month", "day") else per])
        sc["requests"].insert(rng.randint(1, len(sc["requests"])), ("delete_arrays", var, where))
        if inputs and rng.random() < 0.5:
            v2, p2, _s = rng.choice(inputs)
            sc["requests"].append(("delete_arrays", v2, rng.choice([None, p2])))
    sc["post"] = [pick_request() for _ in range(rng.randint(1, 3))]
    # how the two functions are called, what happens to the directory, which system restores
    sc["dump_arg"] = rng.choice(["plain", "plain", "nested", "existing", "slash", "pathlib",
                                 rng.choice(["stale", "stale-var", "stale-var", "plain", "plain"])])
    sc["restore_arg"] = rng.choice(["positional", "positional", "keyword", "pathlib", "kwargs", "slash"])
    sc["restore_tbs"] = rng.choice(["same", "same", "same", "clone", "reform"])
    sc["again"] = rng.choice([None, None, "restore2", "restore2", "redump", "redump"])
    if rng.random() < 0.2:
        extra = []
        for _ in range(rng.randint(1, 2)):
            kind_ = rng.choice(["in-var", "in-var", "in-var", "dir", "dir", "top"])
            name = rng.choice(IN_VAR_NAMES) if kind_ == "in-var" else rng.choice(TOP_NAMES) if kind_ == "top" else ""
            extra.append((kind_, rng.randrange(1 << 20), name))
        sc["extra"] = extra
    # structural fields in a non-default state (a field only generated at its default is not checked)
    roled = [g for g in info["groups"] if _roles_of(sid, g)]
    if roled and rng.random() < 0.75:
        sc["positions"] = {g: rng.randrange(1 << 30) for g in roled if rng.random() < 0.85} or \
                          {roled[0]: rng.randrange(1 << 30)}
    if roled and rng.random() < (0.6 if sc["build"] == "default" else 0.15):
        sc["roles"] = {g: rng.randrange(1 << 30) for g in roled if rng.random() < 0.8}
    if rng.random() < (0.6 if sc["build"] == "default" else 0.2):
        sc["ids"] = {k: (rng.choice(["ints", "array", "strs"]), rng.randrange(1 << 30))
                     for k in ["person"] + info["groups"] if rng.random() < 0.7}
    if roled and (sc.get("positions") or sc.get("roles") or rng.random() < 0.3):
        # NEW calculations after the restore that read positions / roles, on distinct member values
        per = rng.choice(PERIODS["month"][:5])
        sc["inputs"] = sc["inputs"] + [("f_m", per, rng.randrange(1 << 30)), ("i_m", per, rng.randrange(1 << 30))]
        g = rng.choice(sorted(sc.get("positions") or sc.get("roles") or roled))
        picks = rng.sample(POSITION_REQUESTS, rng.randint(2, 3))
        if sc.get("positions") and not any("first" in v or "nth" in v for _k, v, _u in picks):
            picks[0] = POSITION_REQUESTS[rng.randrange(2)]
        sc["post"] = sc["post"][:2] + [(k, v.format(k=g), per) for k, v, _u in picks]
    return sc


def poke_scenario(rng: random.Random) -> dict:
    """states outside the statement's quantifier, kept to tie the model's other branches:
    a twelve-month key, an array under a neutralised variable, an unaligned period"""
    sc = gen_scenario(rng, rng.choice(["0", "1", "2"]))
    which = rng.choice(["month12-in-month", "month12-in-year", "month12-and-year", "neutralised", "unaligned", "sized", "sized"])
    for k in ("extra",):
        sc.pop(k, None)
    if sc.get("dump_arg") in ("stale", "stale-var"):
        sc["dump_arg"] = "plain"
    if which == "sized":
        # keys of several units (no public call stores them): the file names are `unit:start:size` texts,
        # the restore refuses them (PeriodMismatchError); ETERNITY variables convert them
        sc["tag"] = which
        sc["post"] = []
        var, per = rng.choice([("f_y", "year/2018,1,1/2"), ("f_y", "year/2017,7,1/3"), ("f_d", "day/2018,1,30/3"),
                               ("f_d", "day/2020,2,28/10"), ("f_w", "week/2018,1,1/2"), ("f_w", "week/2018,2,26/12"),
                               ("f_w", "week/2019,12,30/3"), ("f_wd", "weekday/2018,1,3/2"), ("f_wd", "weekday/2021,1,1/4"),
                               ("f_wd", "weekday/2018,3,4/11"), ("f_m", "month/2018,1,1/3"), ("f_m", "month/2017,11,1/24"),
                               ("f_w", "week/2018,3,5/2"), ("f_w", "week/2018,12,24/2"), ("f_wd", "weekday/2018,3,5/2"),
                               ("f_wd", "weekday/2018,12,30/3"), ("f_y", "year/2018,1,1/1"),
                               ("f_et", "year/2018,1,1/2"), ("f_et", "week/2018,1,1/2")])
        sc["pokes"] = [(var, per, rng.randrange(1 << 30))]
        return sc
    sc["tag"] = which
    s = rng.randrange(1 << 30)
    if which.startswith("month12"):
        sc["post"] = []         # the value moves to the one-year key: calculations may legitimately differ
    if which == "month12-in-month":
        sc["pokes"] = [("f_m", "month/2018,1,1/12", s)]
    elif which == "month12-in-year":
        sc["pokes"] = [("f_y", rng.choice(["month/2018,3,1/12", "month/2018,1,1/12"]), s)]
    elif which == "month12-and-year":
        sc["pokes"] = [("f_y", "month/2018,1,1/12", s)]
        sc["inputs"] = [i for i in sc["inputs"] if i[0] != "f_y"]
        sc["requests"] = [("calculate", "f_m", "2018-01")]
        sc["pokes"].append(("f_y", "year/2018,1,1/1", s + 1))
    elif which == "neutralised":
        sc["pokes"] = [("neut_m", "2018-02", s)]
    else:
        var, per = rng.choice([("f_m", "month/2018,1,15/1"), ("f_y", "year/2018,3,7/1"), ("f_w", "week/2018,1,3/1")])
        sc["inputs"] = [i for i in sc["inputs"] if i[0] != var] + [(var, per, s)]
    return sc


# --------------------------------------------------------------------------------------
# running a scenario on the real code


def tamper_plan(sc, sim, tbs) -> list:
    """the foreign entries of the scenario, bound to the variables the simulation has / has not a holder for"""
    holders = sorted(n for pop in sim.populations.values() for n in pop._holders)
    free = sorted(set(tbs.variables) - set(holders))
    plan = []
    for kind, seed, name in sc.get("extra", []):
        if kind == "in-var" and holders:
            var = holders[seed % len(holders)]
            if name == "@copy":
                known = sorted(str(p) for p in sim.get_holder(var).get_known_periods())
                name = (known[seed % len(known)] if known else "2018") + ".copy.npy"
            plan.append(("X", var, name))
        elif kind == "top":
            plan.append(("XF", name))
        elif kind == "dir" and free:
            plan.append(("XD", free[seed % len(free)]))
    return list(dict.fromkeys(plan))


def _line(sc) -> str:
    """the protocol line: the system and the state the scenario reaches on the real engine"""
    run = du.Run(sc)
    try:
        toks = du.system_tokens(run.tbs) + du.state_tokens(run.sim)
        if sc.get("dump_arg") in ("stale", "stale-var"):
            toks.append("T|stale")
        for t in tamper_plan(sc, run.sim, run.tbs):
            if t[0] == "X":
                toks.append(f"X|{t[1]}|x{t[2].rstrip('/').encode().hex()}")
            elif t[0] == "XF":
                toks.append(f"XF|x{t[1].encode().hex()}")
            else:
                toks.append(f"XD|{t[1]}")
        mode = "rt2" if sc.get("again") == "redump" else "rt"
        return f"dmp {mode} {len(sc.get('post', []))} " + " ".join(toks)
    except Exception as e:                      # the original cannot even read its own store
        return f"dmp unreadable {type(e).__name__}"
    finally:
        run.close()


def _line_safe(sc):
    try:
        return _line(sc)
    except Exception:
        return "FAILED " + repr(sc)[:600] + " | " + traceback.format_exc()[-600:]


def _lines(scs) -> list:
    """the protocol lines of many scenarios, computed on the real engine in parallel"""
    from ..core import NPROC
    if len(scs) < 64 or NPROC <= 1:
        return [_line_safe(sc) for sc in scs]
    import multiprocessing as mp
    with mp.get_context("fork").Pool(NPROC) as pool:
        return pool.map(_line_safe, scs, chunksize=max(1, len(scs) // (NPROC * 8)))


_KIND = {"i": "int", "f": "float", "b": "bool", "s": "str", "d": "date", "e": "enum", "y": "bytes"}


def _state_tags(line: str) -> list:
    """what the dumped state contains, read off the protocol line (for the input histogram)"""
    tags = set()
    for tok in line.split(" "):
        f = tok.split("|")
        if f[0] == "A" and len(f) == 5:
            tags.add("held:" + _KIND.get(f[4][0], "?"))
            tags.add("unit:" + f[3].split("/")[0])
            tags.add("store:" + ("disk" if f[2] == "D" else "memory"))
            if f[3].split("/")[0] == "year" and not f[3].split("/")[1].split(",")[1] == "1":
                tags.add("rolling-year")
        elif f[0] == "P" and len(f) == 7 and f[4] != "-":
            mei = [int(x) for x in f[4].split(",")]
            seen: dict = {}
            default_pos = []
            for g in mei:
                default_pos.append(seen.get(g, 0))
                seen[g] = seen.get(g, 0) + 1
            if f[6] != "-" and [int(x) for x in f[6].split(",")] != default_pos:
                tags.add("positions-not-appearance-order")
            if f[5] != "-" and len(set(f[5].split(","))) > 1:
                tags.add("roles-mixed")
            if max(mei) + 1 < int(f[2]):
                tags.add("trailing-empty-group")
            if len(set(mei)) < max(mei) + 1:
                tags.add("inner-empty-group")
    return sorted(tags)


def make_case(sc, origin="gen", line=None) -> Case:
    tag = sc.get("tag")
    line = _line(sc) if line is None else line
    tags = [f"sid{sc['sid']}", sc["build"], "mem" if sc.get("config", {}).get("mem") else "nomem",
            f"requests{len(sc.get('requests', []))}"] + _state_tags(line)
    for k in ("positions", "roles", "ids"):
        if sc.get(k):
            tags.append(k + ":explicit")
    for k in ("dump_arg", "restore_arg", "restore_tbs", "again"):
        if sc.get(k):
            tags.append(f"{k}:{sc[k]}")
    for e in sc.get("extra", []):
        tags.append("extra:" + e[0])
    if any(r[0] == "delete_arrays" for r in sc.get("requests", [])):
        tags.append("delete_arrays")
    if tag:
        tags.append("poke:" + tag)
    return Case(line=line, payload=sc, claimed=(tag != "unaligned"), tags=tuple(tags), origin=origin)


def _same_array(a, b, same_system=True):
    """None, or what differs between two arrays (class, dtype family, enumeration, values)"""
    import numpy
    from openfisca_core.indexed_enums import EnumArray
    if b is None:
        return "missing"
    if isinstance(a, EnumArray) != isinstance(b, EnumArray):
        return f"class {type(a).__name__} vs {type(b).__name__}"
    if isinstance(a, EnumArray):
        ea, eb = a.possible_values, b.possible_values
        if ea is not eb and (same_system or ea.__name__ != eb.__name__ or [m.name for m in ea] != [m.name for m in eb]):
            return "enumeration"
    fam = lambda x: "i" if x.dtype.kind in "iu" else x.dtype.kind     # noqa: E731
    if fam(a) != fam(b):
        return f"dtype {a.dtype} vs {b.dtype}"
    if not isinstance(a, EnumArray) and a.dtype != b.dtype:
        return f"dtype {a.dtype} vs {b.dtype}"       # (the integer width of enum indices is not claimed)
    if a.shape != b.shape:
        return f"shape {a.shape} vs {b.shape}"
    va, vb = numpy.asarray(a), numpy.asarray(b)
    if a.dtype.kind == "O":
        if any(type(x) is not type(y) or x != y for x, y in zip(va, vb)):
            return f"values {va.tolist()} vs {vb.tolist()}"
    elif not numpy.array_equal(va, vb):
        return f"values {va.tolist()} vs {vb.tolist()}"
    return None


def _compare(orig, rest, sc, same_system=True):
    """the property statement on the real objects -> list of (signature, message).
    Under the very same system object the restored roles must be the same role objects and enum arrays must
    carry the same enumeration class; under a clone / a reform that changes nothing, the roles of the same key
    at the same place of the entity's role list and the enumeration of the same name and members."""
    import numpy
    out = []
    for key, po in orig.populations.items():
        pr = rest.populations.get(key)
        if pr is None:
            out.append((f"population-missing:{key}", key))
            continue
        trailing = (not po.entity.is_person and len(po.members_entity_id) > 0
                    and int(numpy.max(po.members_entity_id)) + 1 < po.count)
        if [du.id_tok(i) for i in po.ids] != [du.id_tok(i) for i in pr.ids]:
            out.append(("ids", f"{key}: ids {list(po.ids)} restored as {list(pr.ids)}"))
        if int(po.count) != int(pr.count):
            sig = "trailing-empty-group" if trailing else "count"
            out.append((sig, f"{key}: count {po.count} restored as {pr.count} (ids {list(po.ids)}, members_entity_id "
                             f"{getattr(po, 'members_entity_id', None)})"))
        if po.entity.is_person:
            continue
        if not numpy.array_equal(po.members_entity_id, pr.members_entity_id):
            out.append(("members_entity_id", f"{key}: {po.members_entity_id} restored as {pr.members_entity_id}"))
        if not numpy.array_equal(po.members_position, pr.members_position):
            out.append(("members_position", f"{key}: {po.members_position} restored as {pr.members_position}"))
        ro, rr = du.roles_of(po), du.roles_of(pr)
        flat_o = list(po.entity.flattened_roles)
        flat_r = list(pr.entity.flattened_roles)

        def same_role(a, b):
            if same_system:
                return a is b
            return (getattr(a, "key", None) == getattr(b, "key", None) and a in flat_o and b in flat_r
                    and flat_o.index(a) == flat_r.index(b))
        if len(ro) != len(rr) or any(not same_role(a, b) for a, b in zip(ro, rr)):
            out.append(("members_role", f"{key}: {[getattr(r, 'key', r) for r in ro]} restored as "
                                        f"{[getattr(r, 'key', r) for r in rr]}"))
    ko, kr = du.known_arrays(orig), du.known_arrays(rest)
    for (name, p), a in ko.items():
        why = _same_array(a, kr.get((name, p)), same_system)
        if why is not None:
            out.append((f"array:{why.split(' ')[0]}", f"{name}[{p}] held {a.tolist()} ({a.dtype}); restored: {why}"))
    for (name, p) in kr:
        if (name, p) not in ko:
            out.append(("extra-known", f"the restored simulation knows {name}[{p}], the original did not"))
    return out


def _calc(sim, req):
    kind, var, per = req
    try:
        return ("ok", getattr(sim, kind)(var, du.real_period(per)))
    except Exception as e:
        return ("raise", type(e).__name__)


_LAST: dict = {}


def _classify(e, run) -> str:
    msg = f"{type(e).__name__}: {e}"
    orig = run.sim
    has_obj = any(a is not None and a.dtype.kind == "O" for a in du.known_arrays(orig).values())
    trailing = any((not p.entity.is_person) and len(p.members_entity_id) > 0
                   and int(max(p.members_entity_id)) + 1 < p.count for p in orig.populations.values())
    if ("allow_pickle" in msg or "Object arrays" in msg) and has_obj:
        return "str-object-array"
    if "person_count" in msg and not run.tbs.group_entities:
        return "restore-person-only"
    if "int16" in msg and any(not g.flattened_roles for g in run.tbs.group_entities):
        return "restore-roleless-group"
    if trailing and isinstance(e, ValueError) and "length" in msg:
        return "trailing-empty-group"
    return f"dump-restore-raises:{type(e).__name__}"


def _dump(sd, sim, path, form):
    """dump_simulation under the argument spellings of the scenario"""
    import pathlib
    if form == "nested":                       # the parent directory does not exist either
        path = os.path.join(path + "-parent", "dump")
    elif form == "existing":
        os.mkdir(path)
    elif form in ("stale", "stale-var"):
        # the directory holds an older dump (whole, or only one variable directory of it), with a value the
        # simulation no longer has: it would leak into the restore if the directory were accepted
        import shutil
        old = path + "-old"
        sd.dump_simulation(sim, old)
        stale = {"month": "1999-01", "year": "1999", "day": "1999-01-01", "week": "1999-W01", "weekday": "1999-W01-1"}
        picked = None
        for name in sorted(os.listdir(old)):
            files = sorted(f for f in os.listdir(os.path.join(old, name)) if f.endswith(".npy")) if name != "__entities__" else []
            unit = sim.tax_benefit_system.variables[name].definition_period if files else None
            unit = getattr(unit, "value", unit)
            if files and unit in stale:
                shutil.copy(os.path.join(old, name, files[0]), os.path.join(old, name, stale[unit] + ".npy"))
                picked = name
                break
        if form == "stale" or picked is None:
            shutil.copytree(old, path)
        else:
            os.mkdir(path)
            shutil.copytree(os.path.join(old, picked), os.path.join(path, picked))
    arg = path + "/" if form == "slash" else pathlib.Path(path) if form == "pathlib" else path
    if form == "pathlib":
        sd.dump_simulation(simulation=sim, directory=arg)
    else:
        sd.dump_simulation(sim, arg)
    return path


def _restore(sd, path, tbs, form):
    import pathlib
    if form == "keyword":
        return sd.restore_simulation(directory=path, tax_benefit_system=tbs)
    if form == "pathlib":
        return sd.restore_simulation(pathlib.Path(path), tbs)
    if form == "kwargs":
        return sd.restore_simulation(path, tbs, trace=True, anything="ignored")
    if form == "slash":
        return sd.restore_simulation(path + os.sep, tbs)
    return sd.restore_simulation(path, tbs)


def _tamper(path, plan):
    for t in plan:
        if t[0] == "X":
            target = os.path.join(path, t[1], t[2].rstrip("/"))
            source = os.path.join(path, t[1], t[2][:-len(".copy.npy")] + ".npy") if t[2].endswith(".copy.npy") else None
            if t[2].endswith("/"):
                os.mkdir(target)
            elif source is not None and os.path.isfile(source):
                import shutil
                shutil.copyfile(source, target)
            else:
                with open(target, "w") as f:
                    f.write("not an array")
        elif t[0] == "XF":
            with open(os.path.join(path, t[1]), "w") as f:
                f.write("not a directory")
        else:
            os.mkdir(os.path.join(path, t[1]))


def _run(case: Case):
    """-> (canonical text, oracle verdict)"""
    sc = case.payload
    if not isinstance(sc, dict) or sc.get("bad"):
        return "BAD", None
    from openfisca_core.tools import simulation_dumper as sd
    run = du.Run(sc)
    try:
        try:
            du.state_tokens(run.sim)
        except Exception as e:
            msg = f"{type(e).__name__}: {e}"
            sig = "str-object-array" if "allow_pickle" in msg or "Object arrays" in msg else f"original-unreadable:{type(e).__name__}"
            return "ERR-STATE", (sig, "the dumped simulation cannot read its own disk store: " + msg[:200])
        poked = bool(sc.get("tag"))
        plan = tamper_plan(sc, run.sim, run.tbs)
        kind = sc.get("restore_tbs", "same")
        rtbs = du.restore_system(sc["sid"], kind)
        same_system = kind == "same"
        # ---- dump
        try:
            d = _dump(sd, run.sim, os.path.join(run.tmp, "dump"), sc.get("dump_arg", "plain"))
        except Exception as e:
            if poked or sc.get("dump_arg") in ("stale", "stale-var"):
                return "ERR", None             # a directory that is not empty is refused: nothing is restored wrongly
            return "ERR", (_classify(e, run), f"dump_simulation raised {type(e).__name__}: {e}"[:300].replace("\n", " "))
        listing = du.dir_listing(d)
        _tamper(d, plan)
        # ---- restore (twice / dump again and restore that)
        restored = []
        try:
            restored.append(_restore(sd, d, rtbs, sc.get("restore_arg", "positional")))
            if sc.get("again") == "restore2":
                restored.append(_restore(sd, d, rtbs, "positional"))
            elif sc.get("again") == "redump":
                d2 = _dump(sd, restored[0], os.path.join(run.tmp, "dump2"), "plain")
                listing = du.dir_listing(d2)
                restored.append(_restore(sd, d2, rtbs, "positional"))
        except Exception as e:
            head = "ERR" if not restored else "ERR2"
            if poked or plan:
                return f"{head} {listing}", None     # not (only) what dump_simulation wrote: the statement is silent
            return f"{head} {listing}", (_classify(e, run), "restore_simulation raised " +
                                         f"{type(e).__name__}: {e}"[:300].replace("\n", " "))
        verdicts = []
        if not poked:
            for i, rest in enumerate(restored):
                verdicts += [(sig, ("" if i == 0 else f"[{sc['again']}] ") + msg)
                             for sig, msg in _compare(run.sim, rest, sc, same_system)]
        rest = restored[-1]
        toks = du.canonical_tokens(rest, listing)      # before the further calculations add to the stores
        flags = ""
        for req in sc.get("post", []):
            a, b = _calc(run.sim, req), _calc(rest, req)
            same = a[0] == b[0] and (a[1] == b[1] if a[0] == "raise" else _same_array(a[1], b[1], same_system) is None)
            flags += "A" if same else "D"
            if not same and not poked:
                show = lambda r: r[1] if r[0] == "raise" else r[1].tolist()      # noqa: E731
                verdicts.append(("calculation-differs", f"{req}: original {show(a)}, restored {show(b)}"))
        text = " ".join(toks + ["C|" + flags])
        del rest, restored
        return text, (verdicts[0] if verdicts else None)
    finally:
        run.close()


def impl(case: Case) -> str:
    try:
        text, verdict = _run(case)
    except Exception:
        raise
    _LAST.clear()
    _LAST[case.line] = (text, verdict)
    return text


def oracle(case: Case, out: str):
    if case.line in _LAST and _LAST[case.line][0] == out:
        return _LAST[case.line][1]
    return _run(case)[1]


def nontrivial(case: Case, out: str) -> bool:
    return out.startswith("OK") and " A|" in out


# --------------------------------------------------------------------------------------
# corpus, generation


def corpus():
    # F-C19a: a trailing empty group, a group variable known
    yield make_case({"sid": 0, "build": "entities", "persons": ["a", "b"],
                     "groups": {"household": [("h1", {"parents": ["a", "b"]}), ("h2", {})]},
                     "config": {}, "inputs": [("household_f_y", "2018", 1)], "requests": [],
                     "post": [("calculate", "household_c_y", "2018")]})
    # F-C19a without any group variable: only the count differs
    yield make_case({"sid": 0, "build": "entities", "persons": ["a"],
                     "groups": {"household": [("h1", {"children": ["a"]}), ("h2", {})]},
                     "config": {}, "inputs": [], "requests": [], "post": [("calculate", "household_nb", "2018-01")]})
    # F-C19b: a str variable
    yield make_case({"sid": 0, "build": "entities", "persons": ["a"],
                     "groups": {"household": [("h1", {"children": ["a"]})]},
                     "config": {}, "inputs": [("s_m", "2018-01", 2)], "requests": [], "post": [("calculate", "c_s", "2018-01")]})
    # F-C17 / F-C19b: a str variable kept on disk by the dumped simulation
    yield make_case({"sid": 0, "build": "entities", "persons": ["a"],
                     "groups": {"household": [("h1", {"children": ["a"]})]},
                     "config": {"mem": {"priority": [], "drop": []}}, "inputs": [("s_m", "2018-01", 2)],
                     "requests": [], "post": [("calculate", "s_m", "2018-01")]})
    # F-C19c: a system with the person entity only
    yield make_case({"sid": 3, "build": "entities", "persons": ["a"], "groups": {}, "config": {},
                     "inputs": [("f_m", "2018-01", 3)], "requests": [], "post": [("calculate", "c_m", "2018-01")]})
    # F-C19d: a group entity without roles
    yield make_case({"sid": 4, "build": "default", "count": 3, "remap": {}, "config": {},
                     "inputs": [("club_f_y", "2018", 5)], "requests": [], "post": [("calculate", "c_m", "2018-01")]})
    # explicit member positions that are not the order of appearance (a survey's own ranking), explicit
    # sub-roles and identifiers; NEW position- and role-dependent calculations after the restore
    yield make_case({"sid": 0, "build": "entities", "persons": ["a", "b", "c"],
                     "groups": {"household": [("h1", {"parents": ["a", "b"], "children": ["c"]})]},
                     "config": {}, "positions": {"household": 1}, "inputs": [("f_m", "2018-01", 5), ("i_m", "2018-01", 6)],
                     "requests": [("calculate", "household_first", "2018-01")],
                     "post": [("calculate", "household_nth1", "2018-01"), ("calculate", "household_first", "2018-02"),
                              ("calculate", "household_nth2", "2018-01")]})
    yield make_case({"sid": 1, "build": "default", "count": 4, "remap": {"household": [1, 1, 0, 1], "firm": [0, 2, 2, 2]},
                     "config": {}, "positions": {"household": 3, "firm": 4}, "roles": {"household": 5, "firm": 6},
                     "ids": {"person": ("strs", 7), "household": ("ints", 8), "firm": ("array", 9)},
                     "inputs": [("f_m", "2018-01", 5)], "requests": [],
                     "post": [("calculate", "firm_first", "2018-01"), ("calculate", "household_role_sum", "2018-01"),
                              ("calculate", "household_role_nb", "2018-01")]})
    # every unit and type at once, disk store, rolling year, multi-month, weeks, eternity
    yield make_case({"sid": 1, "build": "entities", "persons": ["a", "b", "c", "d"],
                     "groups": {"household": [("h1", {"parents": ["a", "b"], "children": ["c"]}), ("h2", {"children": ["d"]}), ("h3", {})],
                                "firm": [("f1", {"bosses": ["a"], "workers": ["b", "c", "d"]}), ("f2", {})]},
                     "config": {"mem": {"priority": ["f_m"], "drop": ["c_b"]}},
                     "inputs": [("f_m", "2018-01", 1), ("s_m", "2018-01", 2), ("sl_m", "2018-02", 3), ("d_m", "2018-01", 4),
                                ("e_y", "year:2018-03", 5), ("f_d", "2020-02-29", 6), ("f_w", "2015-W53", 7),
                                ("b_wd", "2015-W53-7", 8), ("d_et", "ETERNITY", 9), ("f_et", "2018-01", 10),
                                ("div_m", "month:2017-01:3", 11), ("disp_w", "week:2018-W01:3", 12),
                                ("household_e_et", "ETERNITY", 13), ("firm_s_m", "2018-01", 14)],
                     "requests": [("calculate_add", "c_m", "2018"), ("calculate", "c_e", "2018-01"), ("calculate", "household_c_y", "2018"),
                                  ("calculate", "proj_firm", "2018"), ("calculate", "c_wd", "2015-W53-7")],
                     "post": [("calculate", "c_y", "2018"), ("calculate", "firm_c_y", "2018"), ("calculate", "c_s", "2018-01")]})
    for line in ("dmp", "dmp rt", "dmp rt x E|person|P|-", "dmp rt 0 Q|x", "dmp rt 0 E|person|G|-",
                 "dmp rt 0 E|person|P|- P|nobody|1|x61|-|-|-", "dmp zz 0"):
        yield Case(line=line, payload={"bad": True}, tags=("malformed",))


def generate(rng: random.Random, tier: str):
    n = QUICK_N if tier == "quick" else THOROUGH_N
    scs = [poke_scenario(rng) if i % 16 == 15 else gen_scenario(rng) for i in range(n)]
    for sc, line in zip(scs, _lines(scs)):
        if line.startswith("FAILED "):
            raise RuntimeError("scenario could not be run: " + line)
        yield make_case(sc, line=line)


def enumerate_thorough():
    """every input variable (value type x definition period x set_input helper x entity) x every
    period spelling of its pool x memory / disk store, on a population with an inner and a
    trailing empty group"""
    scs = []
    for sid in (0, 1, 2):
        _tbs, info = du.get_system(sid)
        gkey = info["groups"][0]
        role = _roles_of(sid, gkey)[-1]["plural"]
        for var in sorted(info["inputs"]):
            _vt, unit, _extra, ent = info["inputs"][var]
            if sid != 0 and ent == "person":
                continue                      # the person variables are the same in every system
            base = var.split("_", 1)[1] if var.split("_", 1)[0] in info["groups"] else var
            for per in PERIODS[unit] + LONG.get(base, []):
                for mem in (False, True):
                    groups = {g: [(f"{g[0]}1", {_roles_of(sid, g)[-1]["plural"]: ["a", "b"]}), (f"{g[0]}2", {}),
                                  (f"{g[0]}3", {_roles_of(sid, g)[-1]["plural"]: ["c"]}), (f"{g[0]}4", {})]
                              for g in info["groups"]}
                    scs.append({"sid": sid, "build": "entities", "persons": ["a", "b", "c"], "groups": groups,
                                "config": {"mem": {"priority": [], "drop": []}} if mem else {},
                                "positions": {g: len(scs) + 11 for g in info["groups"]},
                                "inputs": [(var, per, len(scs) + 7), ("f_m", "2018-01", len(scs) + 9)], "requests": [],
                                "post": [("calculate", "c_m", "2018-01"), ("calculate", f"{gkey}_nb", "2018-01"),
                                         ("calculate", f"{gkey}_first", "2018-01")]})
        del role
    for sc, line in zip(scs, _lines(scs)):
        if line.startswith("FAILED "):
            raise RuntimeError("scenario could not be run: " + line)
        yield make_case(sc, origin="enum", line=line)


def neighbours(case: Case):
    sc = case.payload
    if not isinstance(sc, dict) or sc.get("bad"):
        return
    for drop in ("requests", "inputs", "post"):
        if sc.get(drop):
            for i in range(len(sc[drop])):
                s2 = dict(sc)
                s2[drop] = sc[drop][:i] + sc[drop][i + 1:]
                if drop == "post" and not s2[drop]:
                    continue
                yield make_case(s2, origin="search")
    if sc.get("config"):
        s2 = dict(sc)
        s2["config"] = {}
        yield make_case(s2, origin="search")


def _cleanup():
    import shutil
    shutil.rmtree(du.SCRATCH, ignore_errors=True)


import atexit  # noqa: E402

atexit.register(_cleanup)

PROP = Prop(
    pid="C19",
    lean_targets=["OFCore.Props.C19"],
    generate=generate,
    impl=impl,
    oracle=oracle,
    nontrivial=nontrivial,
    corpus=corpus,
    neighbours=neighbours,
    search_budget_factor=3,
    enumerate_thorough=enumerate_thorough,
    exhaustive_note="every input variable of the generated systems (value types float/int/bool/str/str with max_length/date/Enum x "
                    "definition periods month/year/day/week/weekday/eternity x dispatch/divide helpers x person/group entity) x every "
                    "period spelling of its pool (plain, rolling year, multi-month, multi-week, ETERNITY) x memory/disk store, "
                    "on a population with an inner and a trailing empty group",
    driver="ofdrv_dmp",
    rule="dump_simulation then restore_simulation under the same system gives back, for every known (variable, period), "
         "an equal array of the same type, the same ids, counts, memberships, role objects and positions, knows nothing "
         "more, and further calculations return the same on both",
    assumptions=[
        "numpy.save / numpy.load (incl. pickled object arrays), os.listdir / os.mkdir and the directory clean-up are modelled as an "
        "insertion-ordered map path -> typed array, not verified",
        "numeric width of arrays (float32/int32, uint8 vs int16 enum indices) is not modelled: arrays are compared by dtype family and exact values",
        "non-finite floats (nan, inf) are not generated",
        "the state handed to the model is read from the real simulation through the holders' two stores (private attributes "
        "_memory_storage / _disk_storage); the oracle only uses public calls",
        "agreement of further calculations is a theorem only as 'any function of the observable state agrees' "
        "(C19_calculations_agree); that the engine is such a function is C01's theorem and is exercised here by the correspondence",
        "variable names are Python identifiers other than '__entities__'; entity keys and holder names are unique (dict keys)",
        "restoring under a clone / a no-op reform of the dumping system is read as 'the same tax-benefit system': roles are then "
        "compared by key and place in the entity's role list, enumerations by name and members (identity under the very object)",
        "a dump directory someone added entries to, and a target directory that is not empty, are outside the statement: the oracle "
        "is silent when such a call raises and applies in full when it succeeds; the model answers them (C19_restore_ignores_other_files, "
        "C19_restore_unknown_variable, C19_dump_refuses_nonempty) and the correspondence binds the code to it",
        "OnDiskStorage.delete (delete_arrays before the dump) only shapes the dumped state; OnDiskStorage.__del__ directory clean-up is C17's",
    ],
    partial_theorems=[],
    level_text="theorems over the model of dump/restore for all simulations (unbounded populations, stores, periods); "
               "file-system and numpy file format carried by the correspondence",
)
