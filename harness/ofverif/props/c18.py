"""C18 — a failed calculation leaves the simulation consistent and reusable."""
from __future__ import annotations

import pickle
import random

from ..core import Case, Prop
from .. import rulesys as rs
from . import c01


def _case(c: rs.SysCase, tags=(), claimed=True) -> Case:
    return Case(line=rs.to_line(c), payload=pickle.dumps(c).hex(), tags=tuple(tags), claimed=claimed)


def impl(case: Case) -> str:
    c: rs.SysCase = pickle.loads(bytes.fromhex(case.payload))
    trace = bool(c.config.get("trace"))

    def configure(sim):
        if trace:
            sim.trace = True
    leaked = []

    def after_request(sim, r, o):
        # after EVERY request, failed or not, the tracer's tree cursor is back at the root
        if trace and getattr(sim.tracer, "_current_node", None) is not None:
            leaked.append(r)
    out, sim, problems = rs.run_real(c, configure=configure, after_request=after_request)
    if trace:
        if leaked or getattr(sim.tracer, "_current_node", None) is not None:
            out += "#CURSOR"
        # the tracer is reused after the failures: one more request opens exactly one new ROOT calculation
        last = next((r for r in reversed(c.reqs) if r[0] == "calc" and r[1] < len(c.vars)), None)
        if last is not None:
            from ..perutil import parse_period_token
            before = len(sim.tracer.trees)
            try:
                sim.calculate(f"v{last[1]}", parse_period_token(last[2]))
            except Exception:
                pass
            trees = sim.tracer.trees
            if not (len(trees) == before + 1 and trees[-1].name == f"v{last[1]}" and trees[-1].parent is None
                    and getattr(sim.tracer, "_current_node", None) is None and not sim.tracer.stack):
                out += "#REUSE"
            try:
                sim.tracer.get_flat_trace()
                sim.tracer.computation_log.lines()
            except Exception as exc:
                out += f"#REUSE:{type(exc).__name__}"
    return out


def canon_equal(case: Case, impl_out: str, model_out: str) -> bool:
    model_out = model_out.replace("!", "")      # the model's ghost provenance marks (spiral stream)
    if rs.values_too_large(impl_out) or rs.values_too_large(model_out):
        return True
    return impl_out == model_out


def oracle(case: Case, out: str):
    if not case.claimed or rs.values_too_large(out):
        return None
    c: rs.SysCase = pickle.loads(bytes.fromhex(case.payload))
    if "#ALIAS:" in out:
        return ("returned-array-rewritten", "an array handed out by an earlier request (#" + out.split("#ALIAS:")[1].split(";")[0].split("|")[0].split("#")[0]
                + ") changed its values when the store was written to later: earlier results / trace values are rewritten retroactively")
    if "#CURSOR" in out:
        return ("tracer-cursor-not-restored", "FullTracer._current_node is not None after a top-level request")
    if "#REUSE" in out:
        return ("tracer-not-reusable", "after the failures a further request did not open exactly one new root calculation in the trace, or the trace cannot be read: " + out.split("#REUSE")[1][:60])
    out = out.replace("#CURSOR", "")
    res, known = out.split("|", 1)
    got = res.split(";")
    if "spiral" in case.tags:
        # self-dependent variables: results depend on the spiral heuristic, not on the meaning alone.
        # What the statement still asks: nothing left on the stack / marked after a failed request,
        # and every retained value reproducible from the inputs and the other retained values
        # (C02's oracle; its recorded finding F-C02b is C02's to report, not a consequence of a failure)
        for i, g in enumerate(got):
            if "#STATE" in g:
                return ("stack-or-invalidated-left", f"request {c.reqs[i]}: evaluation stack or invalidated set not empty after the request")
        from . import c02
        c_plain = rs.derive(c, config={})
        v = c02.oracle(Case(line=rs.to_line(c_plain), payload=pickle.dumps(c_plain).hex(), tags=("kind=spiral",), claimed=True), out)
        if v is not None and not v[0].startswith("retained-derived-from-spiral-default"):
            return v
        return None
    want = c01.expected_results(c)                       # meaning under the faults armed at that moment
    c_nofault = rs.derive(c, reqs=[r for r in c.reqs if r[0] in ("calc", "add", "div", "out", "repl")], config={})
    clean = iter([w for r, w in zip(c_nofault.reqs, c01.expected_results(c_nofault)) if r[0] != "repl"])        # meaning with no fault armed
    for i, (g, w) in enumerate(zip(got, want)):
        if "#STATE" in g:
            return ("stack-or-invalidated-left", f"request {c.reqs[i]}: evaluation stack or invalidated set not empty after the request")
        if c.reqs[i][0] == "badp" and g != "ERR":
            return ("unparsable-period-accepted", f"request {c.reqs[i]} with a period text that cannot be parsed returned {g}")
        if c.reqs[i][0] == "get":
            # get_array never computes and never fails for a known variable: nothing, or a completed value
            if isinstance(w, tuple) and g != "g:none" and not g.startswith("g:"):
                return ("get-array-failed", f"request #{i} {c.reqs[i]}: get_array returned {g}")
            continue
        if c.reqs[i][0] not in ("calc", "add", "div", "out"):
            continue
        w0 = next(clean)
        if "#STATE" in g:
            return ("stack-or-invalidated-left", f"request {c.reqs[i]}: evaluation stack or invalidated set not empty after the request")
        if w == "?" or w0 == "?":
            continue
        if g == w:
            continue
        # a value already completed before the fault was armed may be served from the cache
        if g.startswith("ok:") and g == w0:
            continue
        # which error reaches the caller depends on what is cached: a dependency completed before a
        # fault was armed is served from the cache and does not raise, so the evaluation goes on to
        # the next failing dependency (an armed fault or a true cycle). The class is pinned by the
        # model (correspondence); the statement only asks that the failure reaches the caller.
        if g in ("ERR", "CYCLE") and w in ("ERR", "CYCLE"):
            continue
        if g in ("ERR", "CYCLE") and w.startswith("ok:"):
            return ("later-request-affected-or-retry-failed", f"request #{i} {c.reqs[i]}: got {g}, a simulation where the failed requests were never made returns {w}")
        return ("value-after-failure", f"request #{i} {c.reqs[i]}: got {g}, expected {w} (or {w0} from the cache)")
    # every retained value is a completed computation: it equals the meaning with no fault armed
    from .c02 import _split_known
    c = c01.final_case(c)
    inputs = {(v, tok) for (v, tok, _) in c.inputs}
    for e in _split_known(known):
        k, vals = e.split("=", 1)
        v, tok = k.split("@")
        v = int(v)
        if (v, tok) in inputs:
            continue
        try:
            rtok = "month/2018,1,1/1" if c.vars[v].unit == "eternity" else tok
            m = c01.meaning(c, set(), v, rtok, memo={})
        except (c01._Cycle, c01._Fault):
            return ("partial-store", f"a value is recorded for v{v}@{tok} whose computation cannot complete")
        if ",".join(str(x) for x in m) != vals:
            return ("completed-value-corrupted", f"retained v{v}@{tok} = {vals}, its meaning is {m}")
    return None


def nontrivial(case: Case, out: str) -> bool:
    return ("ERR" in out or "CYCLE" in out) and "ok:" in out


def generate(rng: random.Random, tier: str):
    n = 18000 if tier == "quick" else 80000
    out = []
    for i in range(n):
        faults: list = []
        u = rng.random()
        kind = "cycle" if u < 0.2 else ("spiral" if u < 0.45 else "ranked")
        # 60%: the extended language and the further failure kinds -- a failure AFTER the dependencies completed, a formula
        # result the engine must refuse (wrong length, strings), a parameter that does not exist (yet), a DIVIDE request
        # the guards refuse, unknown variables through every entry point, failure points inside a spiral
        ext = None
        if rng.random() < 0.6:
            ext = {"spiral_faults"} if kind == "spiral" else {"divide", "params", "post_fail", "requests"}
        c = rs.gen_case(rng, kind=kind, msl=rng.choice([1, 1, 2]), fault_ids=faults, bad_rate=0.05 if rng.random() < 0.4 else 0.0, nreq=rng.randint(3, 6),
                        features=ext)
        base = list(c.reqs)
        reqs = []
        # arm each fault in turn (every node of the evaluation tree carries one with probability 15%),
        # request, disarm, retry, interleaved with other requests
        order = faults[:]
        rng.shuffle(order)
        for fid in order[:4]:
            reqs.append(("arm", fid))
            reqs += rng.sample(base, min(len(base), rng.randint(1, 3)))
            if rng.random() < 0.7:
                reqs.append(("disarm", fid))
                reqs += rng.sample(base, min(len(base), rng.randint(1, 2)))
        reqs += base
        if rng.random() < 0.3:      # requests whose period text cannot be parsed: they fail before they start
            for _ in range(rng.randint(1, 2)):
                reqs.insert(rng.randrange(len(reqs) + 1), ("badp", rng.randrange(len(c.vars))))
        if kind == "ranked" and rng.random() < 0.25:
            # the cause of the failure is a faulty DECLARATION, removed by replacing the variable in the live system: the
            # variable first reads a variable that does not exist (it, and everything that reads it, fails and stores
            # nothing); then the correct declaration replaces it and the same requests are made again
            cands = [j for j, w in enumerate(c.vars) if w.formulas and not w.neutralized and w.unit != "eternity"
                     and not any(iv == j for (iv, _, _) in c.inputs)]
            if cands:
                j = rng.choice(cands)
                good = c.vars[j]
                import dataclasses
                bad = dataclasses.replace(good, end=None, formulas=[(1, ("o2", 0, ("c", 1), ("v", len(c.vars) + 5, "same", False)))])
                c.vars[j] = bad
                k = rng.randrange(len(reqs) + 1)
                reqs = reqs[:k] + [("calc", j, rng.choice(rs.REQ_POOL[good.unit]))] + [("repl", j, good)] + reqs[max(0, k - 3):] + base
        c.reqs = reqs
        for trace in (False, True):
            c2 = rs.derive(c, config={"trace": trace})
            out.append(_case(c2, (kind, f"kind={kind}", f"trace={trace}", f"faults={len(faults)}")))
    return out


def corpus():
    M = rs.MONTHS
    v0 = rs.Var(vtype="int", unit="month", dflt=7)
    v1 = rs.Var(vtype="float", unit="month", dflt=0, formulas=[(1, ("o2", 0, ("v", 0, "same", False), ("f", 0, ("c", 1))))])
    v2 = rs.Var(vtype="float", unit="month", dflt=0, formulas=[(1, ("o2", 0, ("v", 1, "same", False), ("v", 0, "this_year", False)))])
    c = rs.SysCase(1, 1, [0], 1, [v0, v1, v2], [(0, M[1], [10])],
                   [("arm", 0), ("calc", 1, M[1]), ("calc", 0, M[2]), ("disarm", 0), ("calc", 1, M[1]), ("calc", 2, M[1]), ("calc", 0, M[1])])
    return [_case(rs.derive(c, config={"trace": t}), ("corpus",)) for t in (False, True)]


PROP = Prop(
    pid="C18",
    lean_targets=["OFCore.Props.C18"],
    driver="ofdrv_sim",
    generate=generate, impl=impl, oracle=oracle, nontrivial=nontrivial, corpus=corpus, canon_equal=canon_equal,
    rule=("rule systems of the C01 generator in which every sub-expression carries an injectable fault with probability 15% (so every node of "
          "the evaluation tree is a failure point across the stream), plus true cycles (20%), self-dependent (spiral) systems with faults and "
          "forward reads that close true cross-period cycles (25%), invalid-period / unknown-variable reads, top-level requests whose period is "
          "given as Period / text / int, and requests whose period text cannot be parsed (they must fail before anything happens); "
          "request sequences that arm a fault, issue 1-3 requests, disarm it, retry, for up to four faults in turn, then all requests again; each "
          "system runs with tracing off and on; compared with the model: error class or value of every request, stack, and the final set of known "
          "values; oracle: errors reach the caller, nothing is recorded for a computation that did not complete, retained values equal their "
          "meaning, later requests and retries equal the meaning (which error class reaches the caller is pinned by the model only); for spiral "
          "systems: nothing on the stack / marked after a failed request, every retained value reproducible. 60% of the systems carry the further "
          "failure kinds: a fault raised AFTER the dependencies of the sub-expression completed, a formula result the engine must refuse (an array one "
          "value short, an array of strings for a numeric variable: the error comes from the cast / the store, after the formula returned), a parameter "
          "that does not exist or has no value yet (ParameterNotFoundError), DIVIDE / ADD requests the guards refuse (in formulas and at top level), "
          "unknown variables through calculate / calculate_add / calculate_divide / calculate_output / get_array, failure points inside spirals (before and "
          "after the spiralling read), get_array and delete_arrays between failing requests; with tracing on the tracer's cursor is checked after EVERY "
          "request and the tracer is reused afterwards (one more request must open exactly one new root calculation, the flat trace and the log must be "
          "readable). Non-trivial = at least one failing and one succeeding request."),
    assumptions=[
        "failures are those of the DSL: an injected exception in a formula (before or after its dependencies), a formula result of the wrong length / dtype, a circular definition, a dependency on an invalid period or unknown variable or missing parameter, a refused ADD / DIVIDE request, an unparsable period argument",
        "values are small integers exactly representable in float32",
    ],
)
