"""C16 — inputs given on a longer period are conserved when spread over shorter ones.

Protocol (one self-contained history per line, a fresh simulation each time):

    sin <defUnit> <absent|dispatch|divide> <kind>[:<opt>...] <count> <op> <op> ...
        kind: num | int | bool | date | str | enum     (items of the last four travel as integer codes)
        opt : n neutralised variable | e<Y,M,D> the variable's `end` | d every array forced to the disk storage
              | h the variable belongs to a GROUP entity (<count> households; the simulation has <count>+1 persons)
              | b the leading S ops are ONE situation document (keys in the order written) given to
                  SimulationBuilder.build_from_entities, which consumes it in its own order (shortest period first)
              | v the leading S ops are ONE short-form document {variable: {period: values}} given to
                  SimulationBuilder.build_from_dict -> build_from_variables: consumed in document order
                (b, v: the construction succeeds or fails as a whole: all `ok` or all `ERR`; after a failure the
                 history continues on a fresh simulation)
              | u (with b or v, a document of ONE entry) the value is written without period and the period is the
                  builder's default period — what the YAML test runner does with a test's `period:` and `input:`
        S|<period>|<mode>|<v1;v2;...>   Simulation.set_input              -> ok | ERR
        H|<period>|<mode>|<v1;v2;...>   Holder.set_input directly         -> ok | ERR
        G|<period>[|<spelling>]         Simulation.get_array              -> v1;v2;... | none
        A|<period>[|<spelling>]         Simulation.calculate_add          -> v1;v2;... | empty | ERR
        C|<period>[|<spelling>]         Simulation.calculate (one period) -> v1;v2;... | ERR
        X                               the simulation is replaced by simulation.clone()  -> ok
        Z|<period>[|<spelling>]         calculate_add, then the harness overwrites THE ARRAY IT GOT BACK in place (+1);
                                        the answer is the value before that                 -> as A
        M|<k>                           the harness overwrites the caller's object number k in place (+1 on every item)
                                        after the calls that received it                    -> ok
        K                               every known period + value        -> [p=v1;..&p=...] (sorted)

`<mode>` = `<container>[@<k>][~<spelling>]`. Containers, i.e. how the values reach the real code: f / i lists
of Python floats / ints, t / u tuples, F float64, I int64, g float32 (exactly the dtype of a float variable),
j int32 (exactly the dtype of an int variable) arrays; s one expression string ("600*2"), x one Python scalar,
X one 0-dim array (a single entity's value); z items that are no values of the variable's type; for the other
value types l list of items, a array of exactly the variable's dtype, N names / ISO texts, I integer codes.
`@<k>` passes the caller's object number `k`: built from the values at its first use, then THE SAME OBJECT is
passed again as it then is (the values in the token are what the caller put into it). `~<spelling>` / the
third field of G and A give the period as a Period object (p), its text (s) or the bare year (i). The model
ignores the mode: an argument is an input, never scratch space. After every `set_input` the adapter compares
the caller's object with a snapshot taken before the call; when it changed the answer is `ok!<content now>` /
`ERR!<content now>`, which the oracle reports as `caller-array-mutated`.

Aliasing. At HEAD `_to_array` hands on an array that already has the variable's dtype and `_set` stores it,
so for the dispatch rule and for variables without rule the stored arrays ARE the caller's object when it
has exactly the variable's dtype, and with both rules all pieces written by one call share one array, which
is also what `get_array` / `calculate` hand out. What a later mutation of such an array does is outside
the statement (it speaks of values that were set) and is neither exercised nor judged. Exercised, because
the code makes fresh arrays there and a change that stops doing so silently corrupts values that were set:
`M` — the caller overwrites its own object after a DIVIDE input (every container), or after a dispatch input
given in a container `_to_array` must convert (lists, float64 / int64 arrays): the stored pieces must not
follow; `Z` — the caller overwrites the array `calculate_add` returned (always a fresh sum, also over a
single piece): the stored pieces must not follow.

Values are exact rationals; the generator keeps every amount, partial sum and share on the quarter-unit
lattice below 2**20, where float32 arithmetic is exact (DESIGN section 4).
"""
from __future__ import annotations

import calendar
import datetime as dt
import random
import re
from fractions import Fraction

from ..core import Case, Prop
from ..perutil import addm, fmt_date, parse_date

UNIT_IDX = {"weekday": 0, "week": 1, "day": 2, "month": 3, "year": 4, "eternity": 5}
RULES = ("absent", "dispatch", "divide")
KINDS = ("num", "int", "bool", "date", "str", "enum")
OPAQUE = ("bool", "date", "str", "enum")
INT_MODES = ("i", "I", "j", "u")
FLOAT_MODES = ("f", "F", "g", "t")
ORDER = {"day": 0, "month": 1, "year": 2}

_INT = re.compile(r"^-?[0-9]+$")
_NAT = re.compile(r"^[0-9]+$")

# --------------------------------------------------------------------------------------
# syntax (mirrors the driver's parser: anything it refuses is BAD here too)


def _parse_period(tok):
    f = tok.split("/")
    if len(f) != 3 or f[0] not in UNIT_IDX or not _INT.match(f[2]):
        return None
    d = f[1].split(",")
    if len(d) != 3 or not all(_INT.match(x) for x in d):
        return None
    return f[0], (int(d[0]), int(d[1]), int(d[2])), int(f[2])


def _parse_rat(tok):
    f = tok.split("/")
    if len(f) == 1 and _INT.match(f[0]):
        return Fraction(int(f[0]))
    if len(f) == 2 and _INT.match(f[0]) and _NAT.match(f[1]) and int(f[1]) != 0:
        return Fraction(int(f[0]), int(f[1]))
    return None


def _parse_vec(tok):
    out = [_parse_rat(x) for x in tok.split(";")]
    return None if any(x is None for x in out) else out


def _parse_op(tok):
    f = tok.split("|")
    if f[0] in ("S", "H") and len(f) == 4:
        p, v = _parse_period(f[1]), _parse_vec(f[3])
        return None if p is None or v is None else (f[0], p, f[2], v)
    if f[0] == "M" and len(f) == 2 and _NAT.match(f[1]):
        return ("M", f[1])
    if f[0] in ("G", "A", "C", "Z") and len(f) in (2, 3):
        p = _parse_period(f[1])
        return None if p is None else (f[0], p, f[2] if len(f) == 3 else "p")
    if f == ["K"]:
        return ("K",)
    if f == ["X"]:
        return ("X",)
    return None


def parse_kind(tok):
    """`<kind>[:<opt>...]` -> (kind, {"n": bool, "d": bool, "b": bool, "end": date tuple | None}) or None"""
    f = tok.split(":")
    if f[0] not in KINDS:
        return None
    o = {"n": False, "d": False, "b": False, "v": False, "h": False, "u": False, "end": None}
    for x in f[1:]:
        if x in ("n", "d", "b", "v", "h", "u"):
            o[x] = True
        elif x.startswith("e"):
            d = x[1:].split(",")
            if len(d) != 3 or not all(_INT.match(y) for y in d):
                return None
            o["end"] = (int(d[0]), int(d[1]), int(d[2]))
        else:
            return None
    return f[0], o


def parse_line(line):
    """-> (defUnit, rule, kind, count, ops, opts) or None when the line is malformed"""
    f = line.split()
    if len(f) < 6 or f[0] != "sin":
        return None
    ko = parse_kind(f[3])
    if f[1] not in UNIT_IDX or f[2] not in RULES or ko is None or not _NAT.match(f[4]):
        return None
    ops = [_parse_op(t) for t in f[5:]]
    if any(o is None for o in ops):
        return None
    return f[1], f[2], ko[0], int(f[4]), ops, ko[1]


def ptok(p):
    return f"{p[0]}/{fmt_date(p[1])}/{p[2]}"


def rtok(x: Fraction) -> str:
    return str(x.numerator) if x.denominator == 1 else f"{x.numerator}/{x.denominator}"


def vtok(v) -> str:
    return ";".join(rtok(x) for x in v)


# --------------------------------------------------------------------------------------
# the implementation, in-process

_TBS = None
_ENUM = None
ENUM_SIZE = 5
EPOCH_ORD = 719163        # ordinal of 1970-01-01


def _tbs():
    global _TBS, _ENUM
    if _TBS is None:
        from openfisca_core import entities, indexed_enums, taxbenefitsystems
        person = entities.Entity("person", "persons", "", "")
        household = entities.GroupEntity("household", "households", "", "", roles=[{"key": "member", "plural": "members"}])
        _TBS = taxbenefitsystems.TaxBenefitSystem([person, household])
        _ENUM = indexed_enums.Enum("E5", [(f"m{i}", f"member {i}") for i in range(ENUM_SIZE)])
    return _TBS


def _variable(du, rule, kind, opts) -> str:
    """the variable of this case, declared on demand in the worker's tax-benefit system"""
    import datetime
    from openfisca_core import holders, variables
    from openfisca_core.periods import DateUnit
    tbs = _tbs()
    end = opts["end"]
    name = f"{rule}_{du}_{kind}" + ("_n" if opts["n"] else "") + ("_h" if opts["h"] else "") + (f"_e{end[0]}_{end[1]}_{end[2]}" if end else "")
    if name not in tbs.variables:
        vt = {"num": float, "int": int, "bool": bool, "date": datetime.date, "str": str, "enum": _ENUM}[kind]
        attrs = dict(value_type=vt, entity=tbs.group_entities[0] if opts["h"] else tbs.person_entity, definition_period=DateUnit(du))
        if kind == "enum":
            attrs.update(value_type=__import__("openfisca_core.indexed_enums", fromlist=["Enum"]).Enum,
                         possible_values=_ENUM, default_value=list(_ENUM)[0])
        fn = {"divide": holders.set_input_divide_by_period, "dispatch": holders.set_input_dispatch_by_period, "absent": None}[rule]
        if fn is not None:
            attrs["set_input"] = fn
        if end:
            attrs["end"] = f"{end[0]:04d}-{end[1]:02d}-{end[2]:02d}"
        tbs.add_variable(type(name, (variables.Variable,), attrs))
        if opts["n"]:
            tbs.neutralize_variable(name)
    return name


def _real_period(p):
    from openfisca_core.periods import DateUnit, Instant, Period
    return Period((DateUnit(p[0]), Instant(p[1]), p[2]))


def _spelled(p, sp):
    """the period as the caller writes it: Period object, its text (only when the text denotes the same
    period), or the bare year as an int"""
    from openfisca_core import periods
    P = _real_period(p)
    if sp == "i" and p[0] == "year" and p[2] == 1 and p[1][1:] == (1, 1) and 1000 <= p[1][0] <= 9999:
        return p[1][0]
    if sp == "s":
        try:
            txt = str(P)
            if periods.period(txt) == P:
                return txt
        except Exception:
            pass
    return P


def _expr(x: Fraction) -> str:
    """an expression string numexpr evaluates to x"""
    if x.denominator == 1:
        n = x.numerator
        if n >= 4 and n % 2 == 0:
            return f"{n // 2}*2"
        if n >= 3:
            return f"{n - 1}+1"
        return str(n)
    return repr(float(x))


def _item(kind, x: Fraction):
    import datetime
    c = int(x)
    if kind == "bool":
        return c != 0
    if kind == "date":
        return datetime.date.fromordinal(c)
    if kind == "str":
        return f"s{c}"
    return list(_ENUM)[c % ENUM_SIZE]


def _to_arg(kind, mode, vals):
    import numpy
    if mode == "z":                       # items that are no values of the variable's type
        return [object() for _ in vals] if kind in ("str",) else ["abc"] * len(vals)
    if kind in OPAQUE:
        items = [_item(kind, x) for x in vals]
        if mode == "a":                   # exactly the variable's dtype
            if kind == "bool":
                return numpy.array(items, dtype=numpy.bool_)
            if kind == "date":
                return numpy.array(items, dtype="datetime64[D]")
            if kind == "str":
                return numpy.array(items, dtype=object)
            return _ENUM.encode(items)
        if mode == "t":
            return tuple(items)
        if mode == "I" and kind in ("bool", "enum"):
            return numpy.array([int(x) for x in vals], dtype=numpy.int64)
        if mode == "N" and kind == "enum":
            return numpy.array([it.name for it in items])
        if mode == "N" and kind == "date":
            return [it.isoformat() for it in items]
        return items
    if mode in ("s", "x", "X"):           # one expression string / Python scalar / 0-dim array
        x = vals[0]
        if mode == "s":
            return _expr(x)
        v = int(x) if x.denominator == 1 and kind == "int" else float(x)
        return v if mode == "x" else numpy.array(v)
    if mode in INT_MODES:
        ints = [int(x) for x in vals]
        if mode == "i":
            return ints
        if mode == "u":
            return tuple(ints)
        return numpy.array(ints, dtype=numpy.int64 if mode == "I" else numpy.int32)
    fl = [float(x) for x in vals]
    if mode == "t":
        return tuple(fl)
    if mode == "F":
        return numpy.array(fl, dtype=numpy.float64)
    if mode == "g":
        return numpy.array(fl, dtype=numpy.float32)
    return fl


def _show_arr(a, kind="num") -> str:
    import numpy
    if kind == "date":
        return ";".join(str(int(x) + EPOCH_ORD) for x in numpy.asarray(a).astype("datetime64[D]").astype("int64"))
    if kind == "str":
        return ";".join(str(x)[1:] if str(x)[:1] == "s" and str(x)[1:].isdigit() else "?" + str(x).encode().hex() for x in a)
    if kind == "enum":
        return ";".join(str(int(x)) for x in numpy.asarray(a))
    return ";".join(rtok(Fraction(float(x))) for x in a)


def _snapshot_arg(arg):
    """(type, dtype, content) of the caller's object, detached from it"""
    import numpy
    if isinstance(arg, numpy.ndarray):
        return ("ndarray", str(arg.dtype), arg.shape, arg.tolist())
    if isinstance(arg, (list, tuple)):
        return (type(arg).__name__, None, None, list(arg))
    return (type(arg).__name__, None, None, arg)


def _key(p):
    return (UNIT_IDX[p[0]], p[1][0], p[1][1], p[1][2], p[2])


def _num(x: Fraction):
    return float(x) if x.denominator != 1 else int(x)


def _group_situation(count, inputs=None):
    """<count> households, <count>+1 persons (the last household has two members)"""
    persons = {f"p{i}": {} for i in range(count + 1)}
    households = {}
    for i in range(count):
        households[f"h{i}"] = {"members": [f"p{i}"] + ([f"p{count}"] if i == count - 1 else [])}
        if inputs:
            households[f"h{i}"].update(inputs(i))
    return {"persons": persons, "households": households}


def _build_through_builder(name, count, sets, group=False, undated=False):
    """the leading inputs given at once, as a situation document (keys in the order written), to
    SimulationBuilder (buffered, then consumed by `finalize_variables_init`)"""
    from openfisca_core import simulations
    undated = undated and len(sets) == 1

    def inputs(i):
        if undated:
            return {name: _num(sets[0][3][i])}
        return {name: {str(_real_period(op[1])): _num(op[3][i]) for op in sets}}

    if group:
        doc = _group_situation(count, inputs)
    else:
        doc = {"persons": {f"p{i}": inputs(i) for i in range(count)}}
    builder = simulations.SimulationBuilder()
    if undated:
        builder.set_default_period(str(_real_period(sets[0][1])))
    return builder.build_from_dict(_tbs(), doc)


def _build_from_variables(name, count, sets, undated=False):
    """the short form `{variable: {period: [values]}}` (what a YAML test's `input:` is when it names no
    entity): `build_from_dict` -> `build_from_variables`, inputs set in document order"""
    from openfisca_core import simulations
    builder = simulations.SimulationBuilder()
    if undated and len(sets) == 1:
        builder.set_default_period(str(_real_period(sets[0][1])))
        doc = {name: [_num(x) for x in sets[0][3]]}
    else:
        doc = {name: {str(_real_period(op[1])): [_num(x) for x in op[3]] for op in sets}}
    sim = builder.build_from_dict(_tbs(), doc)
    if sim.persons.count != count:
        raise ValueError("count")
    return sim


def impl(case: Case) -> str:
    parsed = parse_line(case.line)
    if parsed is None:
        return "BAD"
    du, rule, kind, count, ops, opts = parsed
    import shutil
    from openfisca_core import simulations
    name = _variable(du, rule, kind, opts)
    out = []
    sim = None
    start = 0
    if opts["b"] or opts["v"]:
        while start < len(ops) and ops[start][0] == "S":
            start += 1
        try:
            if opts["b"]:
                sim = _build_through_builder(name, count, ops[:start], opts["h"], opts["u"])
            else:
                sim = _build_from_variables(name, count, ops[:start], opts["u"])
            out += ["ok"] * start
        except Exception:
            sim = None
            out += ["ERR"] * start
    if sim is None and opts["h"]:
        sim = simulations.SimulationBuilder().build_from_entities(_tbs(), _group_situation(count))
    if sim is None:
        sim = simulations.SimulationBuilder().build_default_simulation(_tbs(), count)
    if opts["d"]:                              # every array goes to the disk storage
        from openfisca_core import experimental
        sim.memory_config = experimental.MemoryConfig(max_memory_occupation=0)
    objects = {}          # the caller's own objects, by number (`<mode>@<k>`)
    try:
        for op in ops[start:]:
            if op[0] in ("S", "H"):
                mode, _, sp = op[2].partition("~")
                mode, _, obj = mode.partition("@")
                if obj and obj in objects:
                    arg = objects[obj]             # the very object passed before, as it is now
                else:
                    arg = _to_arg(kind, mode, op[3])
                    if obj:
                        objects[obj] = arg
                snap = _snapshot_arg(arg)
                period = _spelled(op[1], sp or "p")
                try:
                    if op[0] == "S":
                        sim.set_input(name, period, arg)
                    else:
                        sim.get_holder(name).set_input(period, arg)
                    ans = "ok"
                except Exception:
                    ans = "ERR"
                if _snapshot_arg(arg) != snap:     # an argument is an input, not scratch space
                    ans += "!" + (_show_arr(arg, kind) if mode != "z" else "changed")
                out.append(ans)
            elif op[0] == "G":
                try:
                    a = sim.get_array(name, _spelled(op[1], op[2]))
                    out.append("none" if a is None else _show_arr(a, kind))
                except Exception:
                    out.append("ERR")
            elif op[0] in ("A", "Z"):
                try:
                    a = sim.calculate_add(name, _spelled(op[1], op[2]))
                except Exception:
                    out.append("ERR")
                    continue
                out.append("empty" if isinstance(a, int) else _show_arr(a, kind))
                if op[0] == "Z" and not isinstance(a, int) and kind in ("num", "int"):
                    a += 1                         # the caller does what it likes with what it got back
            elif op[0] == "M":
                arg = objects.get(op[1])
                if kind in ("num", "int"):
                    import numpy
                    if isinstance(arg, numpy.ndarray) and arg.ndim >= 1:
                        arg += 1
                    elif isinstance(arg, list):
                        arg[:] = [x + 1 for x in arg]
                out.append("ok")
            elif op[0] == "C":
                try:
                    out.append(_show_arr(sim.calculate(name, _spelled(op[1], op[2])), kind))
                except Exception:
                    out.append("ERR")
            elif op[0] == "X":
                sim = sim.clone()
                out.append("ok")
            else:
                holder = sim.get_holder(name)
                items = []
                for k in sim.get_known_periods(name):
                    pp = (str(k[0].value if hasattr(k[0], "value") else k[0]), tuple(k[1]), k[2])
                    arr = holder.get_array(k)
                    items.append((_key(pp), ptok(pp) + "=" + ("?missing" if arr is None else _show_arr(arr, kind))))
                items.sort()
                out.append("[" + "&".join(x for _, x in items) + "]")
    finally:
        tmp = getattr(sim, "_data_storage_dir", None) if opts["d"] else None
        if tmp:
            import gc
            holder = sim = None                # the disk storages remove their own directories first
            gc.collect()
            shutil.rmtree(tmp, ignore_errors=True)
    return " ".join(out)


# --------------------------------------------------------------------------------------
# calendar, computed with datetime only (shared by the oracle and the generator)


def _valid(s):
    try:
        dt.date(*s)
        return True
    except ValueError:
        return False


def tiles(p, du):
    """the definition-period-long pieces of `p` when `p` is tiled exactly by `du` (day / month /
    year, start aligned on `du`), else None. Pure datetime arithmetic."""
    u, s, n = p
    if du == "day" and u in ("week", "weekday") and n >= 1 and _valid(s) and s[0] >= 1:
        # a week (any first day) is exactly seven days; `weekday` periods are day periods by another name
        try:
            start = dt.date(*s)
            stop = start + dt.timedelta(days=7 * n if u == "week" else n)
        except (ValueError, OverflowError):
            return None
        if stop.year > 9990:
            return None
        return [("day", ((start + dt.timedelta(days=i)).year, (start + dt.timedelta(days=i)).month, (start + dt.timedelta(days=i)).day), 1)
                for i in range((stop - start).days)]
    if u not in ORDER or du not in ORDER or ORDER[u] < ORDER[du] or n < 1 or not _valid(s) or s[0] < 1:
        return None
    if u in ("month", "year") and s[2] != 1:
        return None          # months and years start on the first of a month
    if du == "year" and (s[1] != 1):
        return None
    try:
        start = dt.date(*s)
        stop = addm(start, 12 * n) if u == "year" else addm(start, n) if u == "month" else start + dt.timedelta(days=n)
        if stop.year > 9990:
            return None
    except (ValueError, OverflowError):
        return None
    out = []
    if du == "day":
        d = start
        while d < stop:
            out.append(("day", (d.year, d.month, d.day), 1))
            d += dt.timedelta(days=1)
    else:
        step = 12 if du == "year" else 1
        i = 0
        while True:
            d = addm(start, step * i)
            if d >= stop:
                break
            out.append((du, (d.year, d.month, d.day), 1))
            i += 1
    return out


# --------------------------------------------------------------------------------------
# the oracle: the property statement, on the implementation's observations only


def _parse_snapshot(ans):
    if not (ans.startswith("[") and ans.endswith("]")):
        return None
    st = {}
    body = ans[1:-1]
    if body:
        for item in body.split("&"):
            k, v = item.split("=")
            st[k] = None if v == "?missing" else [x if x.startswith("?") else Fraction(x) for x in v.split(";")]
    return st


def _is_integral(v):
    return all(x.denominator == 1 for x in v)


def _on_lattice(v):
    """exactly representable and exactly divisible in float32 (DESIGN section 4)"""
    return all(x.denominator in (1, 2, 4) and abs(x) <= 2 ** 20 for x in v)


def oracle(case: Case, out: str):
    if not case.claimed:
        return None
    parsed = parse_line(case.line)
    if parsed is None:
        return None if out == "BAD" else ("malformed-accepted", f"malformed line answered {out[:60]}")
    du, rule, kind, count, ops, opts = parsed
    if du not in ORDER or rule not in ("dispatch", "divide"):
        return None
    if kind in OPAQUE and rule != "dispatch":
        return None           # "amounts" are numbers
    answers = out.split(" ")
    if len(answers) != len(ops):
        return ("protocol", f"{len(answers)} answers for {len(ops)} operations")
    state = {}            # store as last observed (fresh holder: empty); None = not observed
    promised = {}         # long period -> amount accepted by the divide rule
    csince = {}           # promised long period -> {piece: what `calculate` answered for it AFTER the amount was accepted}
    ndoc = 0
    if opts["b"] or opts["v"]:
        # inputs consumed in one go (in the builder's order / in document order): no snapshot in between, and
        # the construction succeeds or fails as a whole. What the statement says about it: every amount
        # of an accepted document is what the sum over its period returns.
        while ndoc < len(ops) and ops[ndoc][0] == "S":
            ndoc += 1
        if len(set(answers[:ndoc])) > 1:
            return ("protocol", "a document was neither accepted nor refused as a whole")
        if rule == "divide" and kind == "num" and not opts["n"]:
            for op, ans in zip(ops[:ndoc], answers):
                if ans == "ok" and tiles(op[1], du) is not None and len(op[3]) == count and not (
                        opts["end"] and tuple(op[1][1]) > tuple(opts["end"])):
                    promised[ptok(op[1])] = (op[3], False)
        state = None if ndoc and answers[0] == "ok" else {}
    for idx, (op, ans) in enumerate(zip(ops, answers)):
        if idx < ndoc:
            continue
        if op[0] == "K":
            state = _parse_snapshot(ans)
            lost = [t for t, v in (state or {}).items() if v is None]
            if lost:
                return ("known-period-without-value", f"{lost[0]} is listed among the known periods but get_array returns nothing for it")
            continue
        if op[0] in ("G", "X"):
            continue          # a clone starts with the values of the original (the ops that follow act on the clone)
        if op[0] == "M":
            # the caller overwrote its own object: the values that were set stay what they were
            after = _parse_snapshot(answers[idx + 1]) if idx + 1 < len(ops) and ops[idx + 1][0] == "K" else None
            if state is not None and after is not None and not opts["n"]:
                for t, v in state.items():
                    if after.get(t) != v:
                        return ("stored-value-follows-callers-object", f"{t} held {vtok(v)}; after the caller overwrote the object it had "
                                f"passed to set_input, it holds {after.get(t)}")
            continue
        if op[0] == "C":
            if ans != "ERR":
                if kind in ("num", "int"):
                    for tokP in promised:
                        csince.setdefault(tokP, {})[ptok(op[1])] = [Fraction(x) for x in ans.split(";")]
                state = None      # an unknown piece was cached with the default
            continue
        if op[0] == "Z" and ans not in ("ERR", "empty"):
            after = _parse_snapshot(answers[idx + 1]) if idx + 1 < len(ops) and ops[idx + 1][0] == "K" else None
            if state is not None and after is not None and not opts["n"]:
                for t, v in state.items():
                    if after.get(t) != v:
                        return ("stored-value-follows-returned-sum", f"{t} held {vtok(v)}; after the caller overwrote the array "
                                f"calculate_add returned for {ptok(op[1])}, it holds {after.get(t)}")
        if op[0] in ("A", "Z"):
            want = promised.get(ptok(op[1]))
            if want is not None:
                got = None if ans in ("ERR", "empty") else [Fraction(x) for x in ans.split(";")]
                if got != want[0]:
                    if kind == "int" and want[1]:
                        return ("divide-int-remainder-lost",
                                f"int variable: {vtok(want[0])} set on {ptok(op[1])}, the sum over it returns {ans}")
                    return ("add-not-amount", f"{vtok(want[0])} set on {ptok(op[1])}, calculate_add returns {ans}")
            if ans != "ERR":
                state = None      # unknown pieces were cached with the default
            continue
        # S (Simulation.set_input) / H (Holder.set_input)
        entry, p, mode, amount = op
        mode = mode.partition("~")[0].partition("@")[0]
        ans, _, mutated = ans.partition("!")
        if mutated:
            return ("caller-array-mutated", f"the caller's own {mode}-object passed to set_input on {ptok(p)} held {vtok(amount)} "
                    f"when first passed and holds {mutated} after the call")
        before = state
        after = _parse_snapshot(answers[idx + 1]) if idx + 1 < len(ops) and ops[idx + 1][0] == "K" else None
        state = after if after is not None else (before if ans == "ERR" else None)
        subs = tiles(p, du)
        if subs is None or len(amount) != count or before is None or mode == "z":
            continue
        if opts["n"]:
            continue              # a neutralised variable ignores inputs: not a variable the statement speaks of
        if opts["end"] and entry == "S" and tuple(p[1]) > tuple(opts["end"]):
            continue              # the variable no longer exists when the period starts: the input is ignored
        if kind == "int" and not _is_integral(amount):
            continue
        toks = [ptok(q) for q in subs]
        known = [t for t in toks if t in before]
        unknown = [t for t in toks if t not in before]
        if rule == "dispatch":
            if ans != "ok":
                return ("dispatch-refused", f"dispatch of {vtok(amount)} on {ptok(p)} raised")
            if after is None:
                continue
            for t, v in before.items():
                if after.get(t) != v:
                    return ("dispatch-overwritten", f"{t} held {vtok(v)} before the input on {ptok(p)}, now {after.get(t)}")
            for t in unknown:
                if after.get(t) != amount:
                    got = after.get(t)
                    return ("dispatch-value", f"{t} had no value; after dispatching {vtok(amount)} on {ptok(p)} it holds "
                            f"{'nothing' if got is None else vtok(got)}")
            continue
        # divide
        ksum = [sum((before[t][i] for t in known), Fraction(0)) for i in range(count)]
        cls = "int-input" if mode in INT_MODES else "float-input"
        if not unknown:
            if kind == "num" and not all(_on_lattice(before[t]) for t in known):
                continue          # outside the numeric policy: the total of rounded shares is not the total
            if amount == ksum:
                if ans != "ok":
                    return (f"divide-refused:{cls}", f"{vtok(amount)} ({mode}) on {ptok(p)} equals the total already set for all "
                            f"{len(toks)} pieces but raised")
            elif ans == "ok":
                return ("divide-inconsistent-accepted", f"{vtok(amount)} on {ptok(p)} contradicts the total {vtok(ksum)} already set for "
                        f"all {len(toks)} pieces but was accepted")
            if ans == "ok":
                promised[ptok(p)] = (amount, False)
            continue
        if ans != "ok":
            return (f"divide-refused:{cls}", f"{vtok(amount)} ({mode}) on {ptok(p)} with {len(unknown)} of {len(toks)} pieces unknown raised")
        share = [(amount[i] - ksum[i]) / len(unknown) for i in range(count)]
        lossy = kind == "int" and not _is_integral(share)
        if kind == "num" and not _on_lattice(share):
            # outside the numeric policy (float32 would round the share): only "untouched" is checked
            if after is not None:
                for t, v in before.items():
                    if after.get(t) != v:
                        return ("divide-overwritten", f"{t} held {vtok(v)} before the input on {ptok(p)}, now {after.get(t)}")
            continue
        promised[ptok(p)] = (amount, lossy)
        if after is None:
            continue
        for t, v in before.items():
            if after.get(t) != v:
                return ("divide-overwritten", f"{t} held {vtok(v)} before the input on {ptok(p)}, now {after.get(t)}")
        for t in unknown:
            if after.get(t) != share:
                got = after.get(t)
                if lossy:
                    return ("divide-int-remainder-lost",
                            f"int variable: share {vtok(share)} of {vtok(amount)} on {ptok(p)} stored as {'nothing' if got is None else vtok(got)} in {t}")
                return ("divide-share", f"{t} should hold the equal share {vtok(share)} of {vtok(amount)} on {ptok(p)}, holds "
                        f"{'nothing' if got is None else vtok(got)}")
        tot = [sum((after[t][i] for t in toks), Fraction(0)) for i in range(count)]
        if tot != amount:
            return ("divide-not-conserved", f"pieces of {ptok(p)} sum to {vtok(tot)}, {vtok(amount)} was set")
    # the sum taken by hand: `calculate` on every piece of a period whose amount was accepted
    for tokP, (amount, lossy) in promised.items():
        toks = [ptok(q) for q in tiles(_parse_period(tokP), du)]
        cvals = csince.get(tokP, {})
        if all(t in cvals for t in toks):
            tot = [sum((cvals[t][i] for t in toks), Fraction(0)) for i in range(count)]
            if tot != amount:
                if kind == "int" and lossy:
                    return ("divide-int-remainder-lost", f"int variable: {vtok(amount)} set on {tokP}, calculate over its pieces sums to {vtok(tot)}")
                return ("calculate-sum-not-amount", f"{vtok(amount)} set on {tokP}, calculate over its {len(toks)} pieces sums to {vtok(tot)}")
    return None


def nontrivial(case: Case, out: str) -> bool:
    parsed = parse_line(case.line)
    if parsed is None:
        return False
    du, rule, kind, count, ops, opts = parsed
    answers = out.split(" ")
    for op, ans in zip(ops, answers):
        if op[0] in ("S", "H") and ans.partition("!")[0] == "ok" and (op[1][0] != du or op[1][2] != 1):
            return True
    return False


# --------------------------------------------------------------------------------------
# generation

LEAPISH = [2016, 2018, 2019, 2020, 2024, 1900, 2000, 2100, 2400, 1999, 4, 400, 8000]


def _year(rng):
    return rng.choice(LEAPISH) if rng.random() < 0.7 else rng.randint(2, 9000)


def long_period(rng: random.Random, du: str, tier: str):
    y = _year(rng)
    m = rng.choice([1, 2, 2, 3, 4, 7, 11, 12, rng.randint(1, 12)])
    if du == "day":
        c = rng.random()
        if c < 0.45:
            return ("month", (y, m, 1), 1)
        if c < 0.6:
            return ("month", (y, m, 1), rng.choice([2, 3]))
        if c < 0.8:
            d = min(rng.choice([1, 26, 27, 28, 29, 30, 31]), calendar.monthrange(y, m)[1])
            return ("day", (y, m, d), rng.choice([2, 3, 4, 5, 7, 10, 35]))
        if c < 0.9:
            return ("year", (y, 1, 1), 1)
        if c < 0.97 or tier == "quick":
            return ("year", (y, m, 1), 1)
        return ("year", (y, m, 1), 2)
    if du == "month":
        c = rng.random()
        if c < 0.3:
            return ("year", (y, 1, 1), 1)
        if c < 0.5:
            return ("year", (y, m, 1), 1)
        if c < 0.6:
            return ("year", (y, rng.choice([1, m]), 1), rng.choice([2, 3]))
        return ("month", (y, m, 1), rng.choice([2, 3, 3, 4, 6, 11, 12, 13, 14, 24]))
    return ("year", (y, 1, 1), rng.choice([2, 2, 3, 4, 5, 10]))


def related_period(rng, du, p, subs):
    """another long period overlapping `p`: a sub-range, a shifted copy or a super-period"""
    c = rng.random()
    if c < 0.5 and len(subs) >= 2:
        i = rng.randrange(0, len(subs) - 1)
        j = rng.randint(i + 1, min(len(subs) - 1, i + 40))
        return (du, subs[i][1], j - i + 1)
    if c < 0.8:
        k = rng.randrange(0, len(subs))
        return (p[0], subs[k][1], p[2]) if tiles((p[0], subs[k][1], p[2]), du) else p
    q = (p[0], p[1], p[2] + rng.choice([1, 1, 2]))
    return q if tiles(q, du) and len(tiles(q, du)) <= 800 else p


def _lat(rng, integral):
    if integral:
        return Fraction(rng.choice([0, 1, 2, 3, 5, 8, 10, 12, 24, 40, 60, -1, -4, rng.randint(0, 64)]))
    return Fraction(rng.choice([0, 1, 2, 3, 5, 8, 10, 12, 24, 40, -4, rng.randint(-8, 256)]), rng.choice([1, 1, 2, 4]))


def _trunc(x: Fraction) -> Fraction:
    n = abs(x.numerator) // x.denominator
    return Fraction(n if x >= 0 else -n)


def simulate(du, rule, kind, count, calls):
    """what the statement prescribes for a sequence of calls (used by the generator only, to pick
    amounts that keep float32 exact): -> (store, [accepted?]), or None when a share leaves the lattice"""
    st, acc = {}, []
    for p, v in calls:
        subs = tiles(p, du)
        toks = [ptok(q) for q in subs]
        unknown = [t for t in toks if t not in st]
        if rule == "dispatch":
            for t in unknown:
                st[t] = list(v)
            acc.append(True)
            continue
        ksum = [sum((st[t][i] for t in toks if t in st), Fraction(0)) for i in range(count)]
        if not unknown:
            acc.append(v == ksum)
            continue
        share = [(v[i] - ksum[i]) / len(unknown) for i in range(count)]
        if kind == "int":
            share = [_trunc(x) for x in share]
        if any(x.denominator not in (1, 2, 4) or abs(x) > 2 ** 12 for x in share):
            return None
        for t in unknown:
            st[t] = list(share)
        acc.append(True)
    return st, acc


def build_line(du, rule, kind, count, steps, claimed=True, tags=()):
    """`kind` may carry the variable / harness options (`num:n`, `int:e2018,6,30`, `num:d`, `num:b`)"""
    toks = []
    for s in steps:
        if s[0] in ("S", "H"):
            toks.append(f"{s[0]}|{ptok(s[1])}|{s[2]}|{vtok(s[3])}")
        elif s[0] in ("G", "A", "C", "Z"):
            toks.append(f"{s[0]}|{ptok(s[1])}" + (f"|{s[2]}" if len(s) > 2 and s[2] != "p" else ""))
        elif s[0] == "M":
            toks.append(f"M|{s[1]}")
        else:
            toks.append(s[0])
    sets = [s for s in steps if s[0] in ("S", "H")]
    modes = ({"in:" + s[2].partition("~")[0].partition("@")[0] for s in sets}
             | {"reused-object" for s in sets if "@" in s[2]}
             | {"period-as:" + s[2].partition("~")[2] for s in sets if "~" in s[2]}
             | {"entry:holder" for s in sets if s[0] == "H"})
    k, _, o = kind.partition(":")
    otags = tuple("opt:" + (x if x in ("n", "d", "b", "v", "h", "u") else "end") for x in o.split(":") if x)
    otags += tuple(sorted({"op:" + s[0] for s in steps if s[0] in ("C", "X", "M", "Z")}))
    return Case(line=" ".join(["sin", du, rule, kind, str(count), *toks]), claimed=claimed,
                tags=(du, rule, k, f"n{count}") + otags + tuple(sorted(modes)) + tuple(tags))


def decorate(rng: random.Random, du, kind, count, steps, entries=True):
    """the same history through other spellings of the API: periods given as text or int, inputs given to
    the holder directly, a single entity's value given as a scalar / 0-dim array / expression string"""
    out = []
    for s in steps:
        if s[0] in ("S", "H"):
            entry = "H" if entries and rng.random() < 0.15 else s[0]
            mode = s[2]
            if count == 1 and "@" not in mode and kind in ("num", "int") and rng.random() < 0.2:
                mode = rng.choice(["s", "x", "X"])
            sp = rng.choice(["", "", "~s", "~s", "~i"])
            out.append((entry, s[1], mode + sp, s[3]))
        elif s[0] in ("G", "A", "C", "Z"):
            out.append((s[0], s[1], rng.choice(["p", "s", "s", "i"])))
        else:
            out.append(s)
    return out


def _mode(rng, integral, kind="num"):
    """every container the API accepts, chosen per operation; one time in four an array of exactly
    the variable's dtype (the only kind `_to_array` hands on without converting, hence copying)"""
    exact = "j" if kind == "int" else "g"
    if rng.random() < 0.25 and (integral or exact == "g"):
        return exact
    if integral and rng.random() < 0.45:
        return rng.choice(INT_MODES)
    return rng.choice(FLOAT_MODES)


def history(rng: random.Random, tier: str):
    """one structured history and (when exact) a re-ordering of the same calls"""
    du = rng.choice(["day", "month", "month", "year"])
    rule = "divide" if rng.random() < 0.6 else "dispatch"
    kind = "int" if rng.random() < 0.2 else "num"
    count = rng.choice([1, 1, 2, 2, 3, 4])
    integral = kind == "int" or rng.random() < 0.5
    P = long_period(rng, du, tier)
    subs = tiles(P, du)
    n = len(subs)
    tags = [f"{P[0]}>{du}"]
    # pre-set pieces
    k = rng.choice([0, 0, 1, 1, 2, n // 2, n - 1, n, rng.randint(0, n)])
    k = max(0, min(k, n, 60))
    pre = rng.sample(subs, k)
    tags.append("pre:" + ("0" if k == 0 else "all" if k == n else "1" if k == 1 else "some"))
    calls = [(q, [_lat(rng, integral) for _ in range(count)]) for q in pre]
    if pre and rng.random() < 0.1:       # the same piece given twice (same or different value)
        q, v = rng.choice(calls)
        calls.append((q, v if rng.random() < 0.5 else [x + 1 for x in v]))
    # long calls, amounts chosen against the state reached shortest-first
    longs = [P]
    for _ in range(rng.choice([0, 0, 0, 1, 1, 2])):
        longs.append(related_period(rng, du, P, subs))
    longs.sort(key=lambda q: len(tiles(q, du)))
    lossy = False
    for L in longs:
        sim = simulate(du, rule, kind, count, calls)
        if sim is None:
            break
        st, _ = sim
        toks = [ptok(q) for q in tiles(L, du)]
        unknown = [t for t in toks if t not in st]
        ksum = [sum((st[t][i] for t in toks if t in st), Fraction(0)) for i in range(count)]
        if rule == "dispatch":
            amt = [_lat(rng, integral) for _ in range(count)]
        elif unknown:
            amt = [ksum[i] + len(unknown) * _lat(rng, integral) for i in range(count)]
            if kind == "int" and len(unknown) > 1 and rng.random() < 0.25:
                amt[rng.randrange(count)] += rng.randint(1, len(unknown) - 1)
                lossy = True
        else:
            amt = list(ksum)
            if rng.random() < 0.5:
                amt[rng.randrange(count)] += rng.choice([1, -1, 8, Fraction(1, 4) if not integral else 2])
                tags.append("contradiction")
        calls.append((L, amt))
    if lossy:
        tags.append("int-lossy")
    orders = [("shortest-first", calls)]
    if len(calls) >= 2 and rng.random() < 0.6:
        perm = calls[:]
        rng.shuffle(perm)
        if simulate(du, rule, kind, count, perm) is not None:
            orders.append(("shuffled", perm))
        rev = calls[::-1]
        if rng.random() < 0.3 and simulate(du, rule, kind, count, rev) is not None:
            orders.append(("longest-first", rev))
    out = []
    big = n > 120
    for oname, seq in orders:
        steps = []
        for i, (p, v) in enumerate(seq):
            steps.append(("S", p, _mode(rng, _is_integral(v), kind), v))
            if not big or i >= len(seq) - 2 or p[2] != 1 or p[0] != du:
                steps.append(("K",))
        if rng.random() < 0.3:
            steps.append(("G", subs[rng.randrange(n)]))
            steps.append(("G", (du, addm_t(subs[-1][1], du, 1), 1)))
        if rng.random() < 0.2:
            steps = with_overwritten_argument(rng, rule, kind, steps)
        if rng.random() < 0.1:
            steps += [("K",), ("Z", subs[rng.randrange(n)]), ("K",)]      # a sum over ONE piece is a fresh array too
        for L in dict.fromkeys(longs):
            if rng.random() < 0.25:
                steps += [("K",), ("Z", L)]          # the caller overwrites the sum it got back
            else:
                steps.append(("A", L))
        steps.append(("K",))
        if rng.random() < 0.5:
            steps = decorate(rng, du, kind, count, steps)
        kopt = kind
        if n <= 40 and rng.random() < 0.04:
            kopt += ":d"                      # every array forced to the disk storage
        elif n <= 62 and rng.random() < 0.05:
            kopt += ":h"                      # a household variable (the simulation has one person more)
        out.append(build_line(du, rule, kopt, count, steps, tags=tags + [oname]))
    return out


def _fresh_copy_made(rule, kind, mode):
    """does the code at HEAD keep the caller's object out of the store? divide: always (the shares are a new
    array); otherwise only when `_to_array` must convert the container"""
    exact = "j" if kind == "int" else "g"
    return rule == "divide" or mode in ("f", "i") or (mode in ("F", "I", "g", "j") and mode != exact)


def with_overwritten_argument(rng, rule, kind, steps):
    """one of the inputs is given as the caller's object number 7, which the caller overwrites in place right
    after the store was read back: the next read must show the same values"""
    idx = [i for i, st in enumerate(steps) if st[0] in ("S", "H") and "@" not in st[2] and "~" not in st[2]
           and st[2] in ("f", "i", "F", "I", "g", "j") and _fresh_copy_made(rule, kind, st[2])
           and i + 1 < len(steps) and steps[i + 1][0] == "K"]
    if not idx:
        return steps
    i = rng.choice(idx)
    st = steps[i]
    return steps[:i] + [(st[0], st[1], st[2] + "@7", st[3]), ("K",), ("M", "7"), ("K",)] + steps[i + 2:]


def reuse_history(rng: random.Random, tier: str):
    """the caller keeps ONE object (mostly an array of exactly the variable's dtype) and passes it for
    several long periods in a row — the same yearly amount for 2018, 2019, ... — with non-zero pieces
    pre-set inside some of them. Amounts are multiples of n x (n - k) so that every share is exact."""
    du = rng.choice(["day", "month", "month", "year"])
    rule = "divide" if rng.random() < 0.75 else "dispatch"
    kind = "int" if rng.random() < 0.2 else "num"
    count = rng.choice([1, 2, 2, 3])
    while True:
        P = long_period(rng, du, "quick")
        subs = tiles(P, du)
        n = len(subs)
        if n <= 400:
            break
    # the periods that follow P, each as long as P
    periods_ = [P]
    for _ in range(rng.choice([1, 1, 2])):
        last = tiles(periods_[-1], du)[-1]
        nxt = (P[0], addm_t(last[1], du, 1), P[2])
        if tiles(nxt, du) is None or len(tiles(nxt, du)) != n:
            break
        periods_.append(nxt)
    k = rng.choice([1, 1, 2, 3]) if n > 3 else 1
    k = min(k, n - 1)
    n_u = n - k
    host = rng.randrange(len(periods_))                 # the period that holds the pre-set pieces
    pre = rng.sample(tiles(periods_[host], du), k)
    unit = Fraction(1) if (kind == "int" or rng.random() < 0.5) else Fraction(1, rng.choice([2, 4]))
    steps = []
    for q in pre:
        v = [(n_u if rule == "divide" else 1) * rng.randint(1, 8) * unit for _ in range(count)]          # non-zero
        steps.append(("S", q, _mode(rng, _is_integral(v), kind), v))
    steps.append(("K",))
    amount = [n * n_u * rng.randint(1, 3) * unit for _ in range(count)]
    if rule == "dispatch":       # the value is repeated in every piece: keep the sum over the period small
        amount = [rng.randint(1, 64) * unit for _ in range(count)]
    integral = _is_integral(amount)
    exact = "j" if kind == "int" else "g"
    mode = exact if rng.random() < 0.7 else _mode(rng, integral, kind)
    order = periods_[:]
    if rng.random() < 0.3:
        rng.shuffle(order)
    for L in order:
        steps.append(("S", L, mode + "@1", amount))
        steps.append(("K",))
    if _fresh_copy_made(rule, kind, mode) and rng.random() < 0.5:
        steps += [("M", "1"), ("K",)]              # the caller is done with its object and overwrites it
    for L in periods_:
        steps.append(("Z" if rng.random() < 0.3 else "A", L))
        steps.append(("K",))
    return build_line(du, rule, kind, count, steps,
                      tags=(f"{P[0]}>{du}", "reuse", "host-first" if order[0] == periods_[host] else "host-later"))


def opaque_history(rng: random.Random):
    """bool / date / str / enum variables with the dispatch rule: the items themselves are repeated"""
    du = rng.choice(["day", "month", "month", "year"])
    kind = rng.choice(OPAQUE)
    count = rng.choice([1, 2, 3])
    while True:
        P = long_period(rng, du, "quick")
        subs = tiles(P, du)
        if len(subs) <= 120:
            break
    n = len(subs)

    def val():
        if kind == "bool":
            return [Fraction(rng.randint(0, 1)) for _ in range(count)]
        if kind == "date":
            return [Fraction(rng.choice([730120, 736330, 737484, 693596, rng.randint(700000, 750000)])) for _ in range(count)]
        if kind == "enum":
            return [Fraction(rng.randrange(ENUM_SIZE)) for _ in range(count)]
        return [Fraction(rng.randint(0, 99)) for _ in range(count)]

    def mode():
        return rng.choice({"bool": ["l", "a", "t", "I", "l"], "date": ["l", "a", "N", "t"], "str": ["l", "a", "t"],
                           "enum": ["l", "a", "N", "I", "t"]}[kind])

    k = rng.choice([0, 1, 1, 2, n // 2, n])
    calls = [(q, val()) for q in rng.sample(subs, min(k, n))]
    longs = [P] + ([related_period(rng, du, P, subs)] if rng.random() < 0.4 else [])
    calls += [(L, val()) for L in longs]
    if rng.random() < 0.4:
        rng.shuffle(calls)
    steps = []
    for q, v in calls:
        steps.append(("S", q, mode(), v))
        steps.append(("K",))
    steps.append(("G", subs[rng.randrange(n)]))
    if rng.random() < 0.5:
        steps = decorate(rng, du, kind, count, steps)
    return build_line(du, "dispatch" if rng.random() < 0.9 else "absent", kind, count, steps, tags=("opaque", f"{P[0]}>{du}"))


def end_history(rng: random.Random):
    """a variable with an `end`: inputs that start after it are ignored by Simulation.set_input (not by
    Holder.set_input), inputs that start before it are spread as usual, also over the pieces past the end"""
    du = rng.choice(["day", "month", "month", "year"])
    rule = "divide" if rng.random() < 0.6 else "dispatch"
    count = rng.choice([1, 2])
    while True:
        P = long_period(rng, du, "quick")
        subs = tiles(P, du)
        if len(subs) <= 120 and P[1][0] > 1000:
            break
    n = len(subs)
    where = rng.choice(["before", "first-day", "inside", "inside", "last-day", "after"])
    lo = dt.date(*P[1])
    hi = dt.date(*addm_t(subs[-1][1], du, 1)) - dt.timedelta(days=1)
    e = {"before": lo - dt.timedelta(days=rng.choice([1, 1, 40])), "first-day": lo, "last-day": hi,
         "inside": lo + dt.timedelta(days=rng.randint(0, (hi - lo).days)), "after": hi + dt.timedelta(days=rng.choice([1, 400]))}[where]
    kind = f"num:e{e.year},{e.month},{e.day}"
    pre = rng.sample(subs, min(n, rng.choice([0, 1, 2])))
    steps = []
    known = 0
    ksum = [Fraction(0)] * count
    for q in pre:
        v = [Fraction(rng.randint(1, 9)) for _ in range(count)]
        entry = "H" if rng.random() < 0.3 else "S"
        steps += [(entry, q, _mode(rng, True), v), ("K",)]
        if entry == "H" or dt.date(*q[1]) <= e:          # else ignored
            known += 1
            ksum = [a + b for a, b in zip(ksum, v)]
    unk = n - known
    amt = [ksum[i] + unk * Fraction(rng.randint(0, 12)) for i in range(count)] if rule == "divide" else \
          [Fraction(rng.randint(1, 9)) for _ in range(count)]
    entry = "H" if rng.random() < 0.25 else "S"
    steps += [(entry, P, _mode(rng, True), amt), ("K",), ("A", P), ("K",)]
    if rng.random() < 0.5:
        steps = decorate(rng, du, "num", count, steps, entries=False)
    return build_line(du, rule, kind, count, steps, tags=("end", "end:" + where))


def neutral_history(rng: random.Random):
    """a neutralised variable ignores every input and answers its default (correspondence only)"""
    du = rng.choice(["day", "month", "year"])
    rule = rng.choice(["divide", "dispatch", "absent"])
    count = rng.choice([1, 2])
    P = {"day": ("month", (2020, 2, 1), 1), "month": ("year", (2018, 3, 1), 1), "year": ("year", (2018, 1, 1), 2)}[du]
    q = tiles(P, du)[rng.randrange(len(tiles(P, du)))]
    v = [Fraction(rng.randint(1, 50)) for _ in range(count)]
    steps = [("S", q, _mode(rng, True), v), ("K",), (rng.choice(["S", "H"]), P, _mode(rng, True), v), ("K",), ("G", q), ("A", P), ("K",),
             ("S", ("eternity", (-1, -1, -1), -1), "f", v), ("S", P, "z", v), ("K",)]
    return build_line(du, rule, rng.choice(["num", "int"]) + ":n", count, steps, tags=("neutralised",))


def _builder_key(p):
    w = {"day": 100, "month": 200, "year": 300}[p[0]]
    return (len(tiles(p, "day")), w)


def alias_period(P, du):
    """another period with exactly the same pieces: year Y = month:Y-01:12, month = day:...:<28..31>, ..."""
    sub = tiles(P, du)
    if du == "day" and P[0] != "day" and len(sub) <= 800:
        return ("day", P[1], len(sub))
    if P[0] == "year" and du == "month" and P[2] >= 2:
        return ("month", P[1], 12 * P[2])
    return None


def _doc_period(P):
    """a document names a period by its text, and the text of twelve months IS the text of the year"""
    return ("year", P[1], 1) if P[0] == "month" and P[2] == 12 else P


def builder_history(rng: random.Random):
    """the inputs of ONE situation document, buffered by SimulationBuilder and consumed by
    `finalize_variables_init` shortest period first — whatever the order of the keys in the document
    (year before / after / between its months). Amounts are chosen against the builder's order; one
    document in six carries the same pieces under two spellings (year:2018 and month:2018-01:12) with equal
    (accepted) or different (refused: the whole construction fails) amounts. Also on a group entity."""
    du = rng.choice(["day", "month", "month", "year"])
    rule = "divide" if rng.random() < 0.7 else "dispatch"
    count = rng.choice([1, 2, 3])
    while True:
        P = _doc_period(long_period(rng, du, "quick"))
        subs = tiles(P, du)
        if len(subs) <= 60 and 1000 <= P[1][0] <= 9000:
            break
    n = len(subs)
    e = None
    if rng.random() < 0.2:
        e = dt.date(*subs[rng.randrange(n)][1]) - dt.timedelta(days=rng.choice([0, 1]))
        if e.year < 1000:
            e = None

    def live(cs):                      # the builder drops the inputs that start after the variable's end
        return [c for c in cs if e is None or dt.date(*c[0][1]) <= e]

    pre = rng.sample(subs, min(n, rng.choice([0, 1, 2, 3])))
    calls = [(q, [Fraction(rng.randint(0, 40)) for _ in range(count)]) for q in pre]
    longs = {P}
    if rng.random() < 0.5:
        longs.add(_doc_period(related_period(rng, du, P, subs)))
    for L in sorted(longs, key=_builder_key):
        calls.sort(key=lambda c: _builder_key(c[0]))
        sim = simulate(du, rule, "num", count, live(calls))
        if sim is None:
            break
        st, _ = sim
        toks = [ptok(q) for q in tiles(L, du)]
        unknown = [t for t in toks if t not in st]
        ksum = [sum((st[t][i] for t in toks if t in st), Fraction(0)) for i in range(count)]
        if rule == "dispatch":
            amt = [Fraction(rng.randint(1, 40)) for _ in range(count)]
        else:
            amt = [ksum[i] + len(unknown) * Fraction(rng.randint(0, 24), rng.choice([1, 1, 2])) for i in range(count)]
        calls.append((L, amt))
    tags = ["builder"]
    al = alias_period(P, du)
    if al is not None and len(longs) == 1 and P in dict(calls) and rng.random() < 0.6 and len(calls) == len({c[0] for c in calls}):
        # the same pieces under another spelling: consumed before or after P (smaller weight first)
        amt = dict(calls)[P]
        if rng.random() < 0.5 or rule == "dispatch":
            calls.append((al, list(amt)))
            tags.append("alias:same")
        else:
            bad = list(amt)
            bad[rng.randrange(count)] += rng.choice([1, -1, 12])
            calls.append((al, bad))
            tags.append("alias:contradiction")
            longs = set()                     # the construction fails: nothing to sum
    if len({c[0] for c in calls}) != len(calls):
        calls = list({c[0]: c for c in calls}.values())      # a document has one value per period
    in_order = sorted(calls, key=lambda c: _builder_key(c[0]))
    rng.shuffle(calls)                                       # the order of the keys in the document
    if simulate(du, rule, "num", count, sorted(live(calls), key=lambda c: _builder_key(c[0]))) is None:
        calls = in_order          # periods of equal length met in another order: a share would leave the lattice
    if simulate(du, rule, "num", count, sorted(live(calls), key=lambda c: _builder_key(c[0]))) is None:
        calls = [(P, [Fraction(len(subs) * rng.randint(0, 9))] * count)]      # (never met: every share above is on the lattice)
        longs = {P}
    order = [c[0] for c in calls]
    first_long = min((i for i, q in enumerate(order) if q[0] != du or q[2] != 1), default=0)
    tags.append("doc:long-first" if first_long == 0 and len(calls) > 1 else "doc:long-later")
    steps = [("S", q, "f", v) for q, v in calls] + [("K",)] + [("A", L) for L in sorted(longs, key=_builder_key)] + [("K",)]
    kopt = "num:b" + (":h" if rng.random() < 0.25 else "") + (f":e{e.year},{e.month},{e.day}" if e else "")
    return build_line(du, rule, kopt, count, steps, tags=tags)


def vars_history(rng: random.Random):
    """ONE short-form document `{variable: {period: [values]}}` -> `build_from_variables`: the inputs reach
    `Simulation.set_input` in the order of the keys. Pieces first and the long period last is accepted; the
    long period first and then one of its pieces is accepted only when the piece repeats its share."""
    du = rng.choice(["day", "month", "month", "year"])
    count = rng.choice([1, 2, 3])
    rule = "divide" if rng.random() < 0.75 else "dispatch"
    while True:
        P = _doc_period(long_period(rng, du, "quick"))
        subs = tiles(P, du)
        if len(subs) <= 60 and 1000 <= P[1][0] <= 9000:
            break
    n = len(subs)
    k = min(n - 1, rng.choice([0, 1, 2, 3])) if n > 1 else 0
    pre = rng.sample(subs, k)
    calls = [(q, [Fraction(rng.randint(0, 40)) for _ in range(count)]) for q in pre]
    ksum = [sum((v[i] for _, v in calls), Fraction(0)) for i in range(count)]
    share = [Fraction(rng.randint(0, 24), rng.choice([1, 1, 2])) for _ in range(count)]
    amt = [ksum[i] + (n - k) * share[i] for i in range(count)] if rule == "divide" else share
    c = rng.random()
    tags = ["vars"]
    if c < 0.45:
        calls.append((P, amt))
        tags.append("doc:long-last")
    elif c < 0.75:
        # the long period first; the pieces written after it are already known when they arrive
        later = []
        for q, v in calls:
            later.append((q, v))
        free = [q for q in subs if q not in pre]
        q = rng.choice(free)
        same = rng.random() < 0.5
        if rule == "divide":
            # P alone spreads amt over ALL pieces: every piece then holds amt / n
            amt = [n * share[i] for i in range(count)]
            calls = [(P, amt), (q, list(share) if same else [share[0] + 1] + list(share[1:]))]
        else:
            calls = [(P, amt), (q, list(amt) if same else [amt[0] + 1] + list(amt[1:]))]
            same = True                    # the dispatch rule never refuses: the later value is ignored
        tags.append("doc:long-first:" + ("same" if same else "contradiction"))
    else:
        rng.shuffle(calls)
        calls.insert(rng.randint(0, len(calls)), (P, amt))
        tags.append("doc:shuffled")
    if simulate(du, rule, "num", count, calls) is None:      # a share would leave the lattice: pieces first
        calls = [(q, v) for q, v in calls if q != P] + [(P, amt)]
        tags[-1] = "doc:long-last"
    steps = [("S", q, "f", v) for q, v in calls] + [("K",), ("A", P), ("K",)]
    return build_line(du, rule, "num:v", count, steps, tags=tags)


def undated_history(rng: random.Random):
    """what the YAML test runner does with `period: <P>` and `input: {variable: value}`: the builder's default
    period names the long period and the value comes without period (full and short form); then pieces and
    the long period again by direct calls"""
    du = rng.choice(["day", "month", "month", "year"])
    rule = "divide" if rng.random() < 0.7 else "dispatch"
    count = rng.choice([1, 2, 3])
    route = rng.choice(["b", "v", "b:h"])
    while True:
        P = _doc_period(long_period(rng, du, "quick"))
        subs = tiles(P, du)
        if len(subs) <= 60 and 1000 <= P[1][0] <= 9000:
            break
    n = len(subs)
    share = [Fraction(rng.randint(0, 24), rng.choice([1, 1, 2])) for _ in range(count)]
    amt = [n * x for x in share] if rule == "divide" else share
    q = rng.choice(subs)
    again = list(share) if rng.random() < 0.5 else [share[0] + 1] + list(share[1:])
    steps = [("S", P, "f", amt), ("K",), ("A", P), ("S", q, _mode(rng, _is_integral(again)), again), ("K",),
             ("S", P, _mode(rng, _is_integral(amt)), amt), ("K",), ("A", P)]
    return build_line(du, rule, f"num:{route}:u", count, steps, tags=("undated", f"{P[0]}>{du}"))


def second_call_history(rng: random.Random):
    """the long input given AGAIN (same amount: accepted, nothing changes; another amount: refused), a piece
    given again after the long input (accepted only when it repeats its share), `calculate` on single pieces
    before (an unknown piece is then cached with the default, i.e. known, when the long input arrives) and
    after it, the whole read again from a clone, and the clone given the next long period."""
    du = rng.choice(["day", "month", "month", "year"])
    rule = "divide" if rng.random() < 0.75 else "dispatch"
    kind = "int" if rng.random() < 0.15 else "num"
    count = rng.choice([1, 2, 3])
    group = rng.random() < 0.2
    disk = not group and rng.random() < 0.12       # every array forced to the disk storage (then no clone: F-C13-disk)
    while True:
        P = long_period(rng, du, "quick")
        subs = tiles(P, du)
        if 2 <= len(subs) <= 62 and 1000 <= P[1][0] <= 9000:
            break
    n = len(subs)
    k = min(n - 2, rng.choice([0, 1, 2]))
    pre = rng.sample(subs, max(k, 0))
    steps = []
    ksum = [Fraction(0)] * count
    for q in pre:
        v = [Fraction(rng.randint(0, 30)) for _ in range(count)]
        steps += [("S", q, _mode(rng, True, kind), v)]
        ksum = [a + b for a, b in zip(ksum, v)]
    known = set(pre)
    tags = ["second-call"]
    if rng.random() < 0.4:                       # calculate on a piece nobody set: cached with the default
        q = rng.choice([x for x in subs if x not in known])
        steps += [("C", q), ("K",)]
        known.add(q)
        tags.append("calc-before")
    unk = n - len(known)
    share = [Fraction(rng.randint(0, 24), 1 if kind == "int" else rng.choice([1, 1, 2])) for _ in range(count)]
    amt = [ksum[i] + unk * share[i] for i in range(count)] if rule == "divide" else share
    if unk == 0:
        amt = list(ksum) if rule == "divide" else share
    steps += [("K",), ("S", P, _mode(rng, _is_integral(amt), kind), amt), ("K",)]
    for _ in range(rng.choice([1, 2, 3])):
        c = rng.random()
        if c < 0.3:
            steps += [("S", P, _mode(rng, _is_integral(amt), kind), amt), ("K",)]
            tags.append("again:same")
        elif c < 0.55:
            other = list(amt)
            other[rng.randrange(count)] += rng.choice([1, -1, 7])
            steps += [("S", P, _mode(rng, _is_integral(other), kind), other), ("K",)]
            tags.append("again:other")
        elif c < 0.8:
            q = rng.choice(subs)
            v = list(share) if q not in known else [Fraction(rng.randint(0, 30)) for _ in range(count)]
            if rng.random() < 0.4:
                v = [x + 1 for x in v]
            steps += [("S", q, _mode(rng, _is_integral(v), kind), v), ("K",)]
            tags.append("piece-again")
        else:
            q = rng.choice(subs)
            steps += [("C", q), ("K",)]
    if n <= 31 and rng.random() < 0.5:
        steps += [("C", q) for q in subs]        # the sum taken by hand
        tags.append("calc-all")
    steps += [("Z" if rng.random() < 0.3 else "A", P), ("K",)]
    if not disk and rng.random() < 0.6:
        steps += [("X",), ("K",), ("Z" if rng.random() < 0.3 else "A", P), ("K",)]
        nxt = (P[0], addm_t(subs[-1][1], du, 1), P[2])
        if tiles(nxt, du) and len(tiles(nxt, du)) <= 62:
            m = len(tiles(nxt, du))
            a2 = [m * share[i] for i in range(count)] if rule == "divide" else share
            steps += [("S", nxt, _mode(rng, _is_integral(a2), kind), a2), ("K",), ("A", nxt), ("A", P)]
        if n <= 31 and rng.random() < 0.3:
            steps += [("C", q) for q in subs]
        steps += [("K",)]
    if rng.random() < 0.4:
        steps = decorate(rng, du, kind, count, steps)
    return build_line(du, rule, kind + (":h" if group else "") + (":d" if disk else ""), count, steps, tags=tags + [f"{P[0]}>{du}"])


def week_in_days_history(rng: random.Random):
    """a DAY variable given week / weekday periods (tiled exactly by days, whatever the first day): claimed"""
    rule = "divide" if rng.random() < 0.6 else "dispatch"
    count = rng.choice([1, 2])
    y = rng.choice([2015, 2018, 2020, 2021, 2024, 2026])
    d = dt.date(y, rng.choice([1, 2, 2, 12, 12, 6]), rng.choice([1, 20, 26, 28]))
    if rng.random() < 0.6:
        d -= dt.timedelta(days=d.weekday())
    P = (rng.choice(["week", "week", "weekday"]), (d.year, d.month, d.day), rng.choice([1, 1, 2, 3, 5]))
    subs = tiles(P, "day")
    n = len(subs)
    k = min(n, rng.choice([0, 1, 2, n - 1]))
    pre = rng.sample(subs, k)
    steps = []
    ksum = [Fraction(0)] * count
    for q in pre:
        v = [Fraction(rng.randint(0, 30), rng.choice([1, 2])) for _ in range(count)]
        steps += [("S", q, "f", v), ("K",)]
        ksum = [a + b for a, b in zip(ksum, v)]
    share = [Fraction(rng.randint(0, 24), rng.choice([1, 1, 2, 4])) for _ in range(count)]
    amt = [ksum[i] + (n - k) * share[i] for i in range(count)] if rule == "divide" else share
    steps += [("S", P, _mode(rng, _is_integral(amt)), amt), ("K",), ("A", P), ("K",)]
    if P[0] == "week" and rng.random() < 0.5:
        Q = ("day", P[1], n)                    # the same days as a day range
        steps += [("S", Q, "f", amt if rule == "divide" else share), ("K",), ("A", Q)]
    if rng.random() < 0.4:
        steps = decorate(rng, "day", "num", count, steps)
    return build_line("day", rule, "num", count, steps, tags=("week-in-days", f"{P[0]}>day"))


def garbage_history(rng: random.Random):
    """items that are no values of the variable's type, scalars for several entities: refused by `_to_array`"""
    du = rng.choice(["day", "month", "year"])
    rule = rng.choice(["divide", "dispatch", "absent"])
    kind = rng.choice(["num", "int", "num", "bool", "date", "enum"])
    count = rng.choice([1, 2, 3])
    P = {"day": ("month", (2019, 2, 1), 1), "month": ("year", (2018, 1, 1), 1), "year": ("year", (2018, 1, 1), 2)}[du]
    if rule == "absent":
        P = tiles(P, du)[0]
    if kind in OPAQUE and rule == "divide":
        rule = "dispatch"
    npieces = len(tiles(P, du)) if tiles(P, du) else 1
    one = [Fraction(rng.randint(0, 1) if kind == "bool" else 730120 if kind == "date" else rng.randint(0, 4) if kind == "enum"
                    else npieces * rng.randint(0, 4))]
    full = one * count
    m = "f" if kind in ("num", "int") else "l"
    steps = [("S", P, "z", full), ("K",), ("H", P, "z~s", full), ("K",)]
    if kind in ("num", "int"):
        steps += [("S", P, rng.choice(["s", "x", "X"]), one), ("K",)]         # refused unless there is one entity
    steps += [("S", P, m, full), ("K",), ("S", P, "z", full), ("K",)]
    return build_line(du, rule, kind, count, steps, tags=("garbage",))


def week_family_history(rng: random.Random):
    """not claimed (the statement is about day / month / year variables): week and weekday variables given
    week, month and year periods, also across ISO-year boundaries and for months that are not whole weeks"""
    du = rng.choice(["week", "weekday"])
    rule = rng.choice(["divide", "dispatch"])
    count = rng.choice([1, 2])
    y = rng.choice([2015, 2018, 2020, 2021, 2026])
    c = rng.random()
    if c < 0.4:
        d = dt.date(y, rng.choice([1, 12, 12, 6]), rng.choice([1, 20, 28]))
        d -= dt.timedelta(days=d.weekday())
        P = ("week", (d.year, d.month, d.day), rng.choice([1, 2, 3, 5, 53]))
    elif c < 0.7:
        P = ("month", (y, rng.choice([1, 2, 2, 12]), 1), rng.choice([1, 1, 2]))
    elif c < 0.85:
        P = ("year", (y, 1, 1), 1)
    else:
        d = dt.date(y, 12, 29)
        P = ("weekday" if du == "weekday" else "day", (d.year, d.month, d.day), rng.choice([3, 7, 10]))
    lo = dt.date(*P[1])
    hi = addm(lo, 12 * P[2]) if P[0] == "year" else addm(lo, P[2]) if P[0] == "month" else \
        lo + dt.timedelta(days=(7 if P[0] == "week" else 1) * P[2])
    pieces = -(-(hi - lo).days // 7) if du == "week" else (hi - lo).days
    q = (du, P[1], 1)
    steps = []
    if pieces > 1 and rng.random() < 0.4:
        steps += [("S", q, "f", [Fraction(0)] * count), ("K",)]
        pieces -= 1
    v = [pieces * Fraction(rng.randint(0, 12)) for _ in range(count)]
    steps += [("S", P, "f", v), ("K",), ("A", P), ("K",)]
    return build_line(du, rule, "num", count, steps, claimed=False, tags=("unclaimed", "week-family", f"{P[0]}>{du}"))


def addm_t(s, du, k):
    d = dt.date(*s)
    d = addm(d, 12 * k) if du == "year" else addm(d, k) if du == "month" else d + dt.timedelta(days=k)
    return (d.year, d.month, d.day)


def unclaimed_history(rng: random.Random):
    """answered by the model, not binding: week / weekday / eternity variables, periods shorter than or
    not aligned on the definition period, wrong vector length, ADD before any input; binding: variables
    without a rule (an input on anything but one definition period is refused)"""
    c = rng.random()
    count = rng.choice([1, 2])
    # divisible by every number of pieces met below (1..8, 12, 14, 24, 28, 29), exact in float32
    v = [Fraction(rng.randint(0, 20)) * 584640 for _ in range(count)]
    y = rng.choice([2018, 2020, 2021])
    if c < 0.2:
        du = rng.choice(["week", "weekday"])
        mon = dt.date(y, 1, 1)
        mon -= dt.timedelta(days=mon.weekday())
        s = (mon.year, mon.month, mon.day)
        P = ("week", s, rng.choice([1, 2, 4]))
        steps = [("S", P, "f", v), ("K",), ("A", P), ("K",)]
        return build_line(du, rng.choice(["divide", "dispatch"]), "num", count, steps, claimed=False, tags=("unclaimed", "week-family"))
    if c < 0.35:
        du = "eternity"
        P = rng.choice([("eternity", (-1, -1, -1), -1), ("year", (y, 1, 1), 1), ("month", (y, 3, 1), 1)])
        steps = [("S", P, "f", v), ("K",), ("G", ("month", (y, 5, 1), 1)), ("A", P)]
        return build_line(du, rng.choice(RULES), "num", count, steps, claimed=False, tags=("unclaimed", "eternal"))
    if c < 0.55:
        du = rng.choice(["day", "month", "year"])
        P = rng.choice([(du, (y, 1, 1), 1), ("year", (y, 1, 1), 1), ("month", (y, 2, 1), 2), ("eternity", (-1, -1, -1), -1),
                        (du, (y, 1, 1), 2)])
        steps = [("S", P, "f", v), ("K",), ("S", P, "f", v), ("K",), ("A", P), ("K",)]
        # routing of Holder.set_input / _set: binding for the correspondence (the oracle stays silent: the
        # statement is about variables declared with a rule)
        return build_line(du, "absent", rng.choice(["num", "int"]), count, steps, claimed=True, tags=("no-rule",))
    if c < 0.75:
        du = rng.choice(["month", "year"])
        P = rng.choice([("day", (y, 1, 31), 60), ("month", (y, 3, 1), 1), ("day", (y, 2, 10), 3), ("year", (y, 3, 1), 2),
                        ("month", (y, 1, 31), 3), ("year", (y, 2, 29 if calendar.isleap(y) else 28), 2), ("eternity", (-1, -1, -1), -1)])
        steps = [("S", P, "f", v), ("K",), ("A", P), ("K",)]
        return build_line(du, rng.choice(["divide", "dispatch"]), "num", count, steps, claimed=False, tags=("unclaimed", "unaligned"))
    if c < 0.85:
        du = rng.choice(["day", "month"])
        P = ("month", (y, 2, 1), 1) if du == "day" else ("year", (y, 1, 1), 1)
        steps = [("S", P, "f", v + [Fraction(1)]), ("K",), ("S", P, "f", v), ("K",)]
        return build_line(du, rng.choice(["divide", "dispatch"]), "num", count, steps, claimed=False, tags=("unclaimed", "length"))
    du = rng.choice(["day", "month", "year"])
    P = {"day": ("month", (y, 2, 1), 1), "month": ("year", (y, 1, 1), 1), "year": ("year", (y, 1, 1), 2)}[du]
    rule = rng.choice(["divide", "dispatch"])
    steps = [("A", P), ("K",), ("S", P, "f", v), ("K",), ("S", P, "f", [Fraction(0)] * count), ("K",)]
    return build_line(du, rule, "num", count, steps, claimed=False, tags=("unclaimed", "add-first"))


MALFORMED = [
    "sin month divide num", "sin month divide num 1", "sin fortnight divide num 1 K", "sin month split num 1 K",
    "sin month divide real 1 K", "sin month divide num x K", "sin month divide num 1 Z|month/2018,1,1/1",
    "sin month divide num 1 S|month/2018,1,1/1|f", "sin month divide num 1 S|month/2018,1/1|f|3",
    "sin month divide num 1 S|month/2018,1,1/1|f|a", "sin month divide num 1 S|month/2018,1,1/1|f|1/0",
    "sin month divide num 1 S|month/2018,1,1/1|f|3; K", "sin month divide num 1 G|month/2018,1,1", "sin month divide num 1 K|x",
    "sin month divide num 1 A|quarter/2018,1,1/1", "sin month divide num 2 S|month/2018,1,1/x|f|3;4",
    "sin month divide num:q 1 K", "sin month divide num:bu 1 K", "sin month divide num 1 X|1", "sin month divide num 1 M", "sin month divide num 1 M|x", "sin month divide num 1 Z", "sin month divide num 1 C", "sin month divide num 1 C|month/2018,1/1", "sin month divide num:e2018,6 1 K", "sin month divide complex:n 1 K", "sin month divide num 1 G|month/2018,1,1/1|s|s",
]


def generate(rng: random.Random, tier: str):
    n = 5000 if tier == "quick" else 90000
    out = []
    for _ in range(n):
        out += history(rng, tier)
    for _ in range(n // 6):
        out.append(reuse_history(rng, tier))
    for _ in range(n // 10):
        out.append(opaque_history(rng))
        out.append(second_call_history(rng))
    for _ in range(n // 12):
        out.append(end_history(rng))
        out.append(builder_history(rng))
        out.append(vars_history(rng))
    for _ in range(n // 25):
        out.append(week_in_days_history(rng))
        out.append(undated_history(rng))
    for _ in range(n // 40):
        out.append(neutral_history(rng))
        out.append(garbage_history(rng))
        out.append(week_family_history(rng))
    for _ in range(n // 12):
        out.append(unclaimed_history(rng))
    for line in MALFORMED:
        out.append(Case(line=line, claimed=True, tags=("malformed",)))
    return out


def corpus():
    F = Fraction
    Y18 = ("year", (2018, 1, 1), 1)
    feb = ("month", (2018, 2, 1), 1)
    out = [
        # F-C16a: dispatch re-used the value found in an earlier piece for all later ones
        build_line("month", "dispatch", "num", 1, [("S", feb, "f", [F(5)]), ("K",), ("S", Y18, "f", [F(10)]), ("K",)], tags=("corpus", "F-C16a")),
        # F-C16b: divide on raw integers with a pre-set piece
        build_line("month", "divide", "num", 1, [("S", feb, "f", [F(5)]), ("K",), ("S", Y18, "I", [F(27)]), ("K",), ("A", Y18)], tags=("corpus", "F-C16b")),
        build_line("month", "divide", "num", 2, [("S", feb, "f", [F(5), F(1)]), ("K",), ("S", Y18, "i", [F(27), F(12)]), ("K",), ("A", Y18)], tags=("corpus", "F-C16b")),
        # F-C16c: int variable, each share truncated (100 over 12 months sums to 96)
        build_line("month", "divide", "int", 1, [("S", Y18, "i", [F(100)]), ("K",), ("A", Y18)], tags=("corpus", "F-C16c")),
        # seeded change C16-3: `remaining_array = array` (no copy) turns the caller's own float32 array into the
        # remainder; the same object passed for the next year then spreads the remainder instead of the amount
        build_line("month", "divide", "num", 2, [("S", ("month", (2018, 1, 1), 1), "f", [F(100), F(200)]), ("K",),
                                                 ("S", Y18, "g@1", [F(1200), F(2400)]), ("K",),
                                                 ("S", ("year", (2019, 1, 1), 1), "g@1", [F(1200), F(2400)]), ("K",),
                                                 ("A", Y18), ("A", ("year", (2019, 1, 1), 1))], tags=("corpus", "seeded-C16-3")),
        build_line("month", "divide", "int", 1, [("S", ("month", (2018, 3, 1), 1), "i", [F(11)]), ("K",),
                                                 ("S", Y18, "j@1", [F(132)]), ("K",), ("A", Y18)], tags=("corpus", "seeded-C16-3")),
        # entry points and spellings: expression string, period as text / int, holder entry, builder, end, neutralised, disk
        build_line("month", "divide", "num", 1, [("S", feb, "s~s", [F(600)]), ("K",), ("H", Y18, "x~i", [F(1700)]), ("K",), ("A", Y18, "s")], tags=("corpus",)),
        build_line("month", "divide", "num:b", 2, [("S", feb, "f", [F(5), F(8)]), ("S", Y18, "f", [F(27), F(30)]), ("K",), ("A", Y18)], tags=("corpus",)),
        build_line("month", "divide", "num:e2018,6,30", 1, [("S", ("year", (2019, 1, 1), 1), "f", [F(12)]), ("K",), ("S", Y18, "f", [F(24)]), ("K",), ("A", Y18)], tags=("corpus",)),
        build_line("month", "dispatch", "num:n", 1, [("S", Y18, "f", [F(24)]), ("K",), ("G", feb), ("A", Y18)], tags=("corpus",)),
        build_line("month", "divide", "num:d", 1, [("S", feb, "g", [F(5)]), ("K",), ("S", Y18, "g", [F(27)]), ("K",), ("A", Y18)], tags=("corpus",)),
        build_line("month", "dispatch", "enum", 2, [("S", feb, "N", [F(1), F(4)]), ("K",), ("S", Y18, "l", [F(2), F(0)]), ("K",)], tags=("corpus",)),
        # the situations of tests/core/test_holders.py and their day-level / leap / rolling analogues
        build_line("month", "divide", "num", 1, [("S", Y18, "f", [F(12000)]), ("K",), ("A", Y18)], tags=("corpus",)),
        build_line("month", "divide", "num", 1, [("S", ("month", (2018, 12, 1), 1), "f", [F(1000)]), ("K",), ("S", Y18, "f", [F(12000)]), ("K",), ("A", Y18)], tags=("corpus",)),
        build_line("month", "divide", "num", 1, [("S", Y18, "f", [F(12)]), ("K",), ("S", Y18, "f", [F(13)]), ("K",), ("S", Y18, "f", [F(12)]), ("K",)], tags=("corpus",)),
        build_line("day", "divide", "num", 2, [("S", ("day", (2020, 2, 29), 1), "f", [F(1), F(3)]), ("K",), ("S", ("month", (2020, 2, 1), 1), "f", [F(29), F(59)]), ("K",), ("A", ("month", (2020, 2, 1), 1))], tags=("corpus",)),
        build_line("month", "divide", "num", 1, [("S", ("year", (2018, 3, 1), 1), "f", [F(24)]), ("K",), ("S", ("year", (2018, 1, 1), 2), "f", [F(72)]), ("K",), ("A", ("year", (2018, 3, 1), 1)), ("A", ("year", (2018, 1, 1), 2))], tags=("corpus",)),
        build_line("year", "dispatch", "num", 1, [("S", ("year", (2019, 1, 1), 1), "f", [F(7)]), ("K",), ("S", ("year", (2018, 1, 1), 3), "f", [F(2)]), ("K",)], tags=("corpus",)),
        # round 2: the year written BEFORE its month in a situation document (the builder consumes the month first) ...
        build_line("month", "divide", "num:b", 2, [("S", Y18, "f", [F(27), F(30)]), ("S", feb, "f", [F(5), F(8)]), ("K",), ("A", Y18)], tags=("corpus", "doc-order")),
        # ... and in the short form (document order: the February value arrives when February already holds its share)
        build_line("month", "divide", "num:v", 2, [("S", Y18, "f", [F(27), F(30)]), ("S", feb, "f", [F(5), F(8)]), ("K",), ("A", Y18)], tags=("corpus", "doc-order")),
        build_line("month", "divide", "num:v", 2, [("S", Y18, "f", [F(24), F(36)]), ("S", feb, "f", [F(2), F(3)]), ("K",), ("A", Y18)], tags=("corpus", "doc-order")),
        build_line("month", "divide", "num:v", 1, [("S", feb, "f", [F(5)]), ("S", Y18, "f", [F(27)]), ("K",), ("A", Y18)], tags=("corpus", "doc-order")),
        # a month variable of a group entity (2 households, 3 persons), through the builder and by calls
        build_line("month", "divide", "num:b:h", 2, [("S", Y18, "f", [F(27), F(30)]), ("S", feb, "f", [F(5), F(8)]), ("K",), ("A", Y18)], tags=("corpus", "group")),
        build_line("month", "divide", "num:h", 2, [("S", feb, "f", [F(5), F(8)]), ("K",), ("S", Y18, "g", [F(27), F(30)]), ("K",), ("A", Y18), ("S", Y18, "f", [F(1), F(2), F(3)]), ("K",)], tags=("corpus", "group")),
        # the long input twice (same amount / another amount), calculate on a piece nobody set BEFORE the long input
        # (the default is cached: the piece is known when the year arrives), the sum by hand, a clone
        build_line("month", "divide", "num", 1, [("C", ("month", (2018, 3, 1), 1)), ("K",), ("S", Y18, "f", [F(22)]), ("K",), ("S", Y18, "f", [F(22)]), ("K",), ("S", Y18, "f", [F(23)]), ("K",),
                                                 *[("C", ("month", (2018, m, 1), 1)) for m in range(1, 13)], ("A", Y18), ("X",), ("K",), ("A", Y18),
                                                 ("S", ("year", (2019, 1, 1), 1), "f", [F(12)]), ("K",), ("A", ("year", (2019, 1, 1), 1))], tags=("corpus", "second-call")),
        # the caller overwrites its own float32 array after a divide input, then the array calculate_add returned (also over ONE piece)
        build_line("month", "divide", "num", 2, [("S", feb, "f", [F(5), F(8)]), ("K",), ("S", Y18, "g@7", [F(27), F(30)]), ("K",), ("M", "7"), ("K",),
                                                 ("Z", Y18), ("K",), ("Z", feb), ("K",), ("A", Y18)], tags=("corpus", "aliasing")),
        build_line("month", "dispatch", "num", 1, [("S", Y18, "F@7", [F(10)]), ("K",), ("M", "7"), ("K",), ("Z", ("month", (2018, 3, 1), 1)), ("K",), ("A", Y18)], tags=("corpus", "aliasing")),
        # a day variable given a week that starts on a Wednesday, then the same seven days as a day range
        build_line("day", "divide", "num", 1, [("S", ("day", (2019, 1, 3), 1), "f", [F(2)]), ("K",), ("S", ("week", (2019, 1, 2), 1), "f", [F(14)]), ("K",), ("A", ("week", (2019, 1, 2), 1)),
                                               ("S", ("day", (2019, 1, 2), 7), "f", [F(14)]), ("K",)], tags=("corpus", "week-in-days")),
    ]
    return out


def enumerate_thorough():
    """month variable x calendar year 2018 x EVERY subset of pre-set months x both rules; day variable x
    every month of 2019-2020 x (no pre-set | each single pre-set day); month variable x every rolling year
    starting in 2019-2020"""
    F = Fraction
    out = []
    Y = ("year", (2018, 1, 1), 1)
    months = tiles(Y, "month")
    for mask in range(1 << 12):
        pre = [months[i] for i in range(12) if mask >> i & 1]
        steps = [("S", q, "f", [F(4 * (i % 5))]) for i, q in enumerate(pre)]
        unk = 12 - len(pre)
        ks = sum(F(4 * (i % 5)) for i in range(len(pre)))
        for rule in ("divide", "dispatch"):
            amt = ks + unk * 3 if rule == "divide" else F(7)
            st = steps + [("K",), ("S", Y, "i" if mask % 3 == 0 else "f", [amt]), ("K",), ("A", Y)]
            out.append(build_line("month", rule, "num", 1, st, tags=("enum", "subsets")))
    for y in (2019, 2020):
        for m in range(1, 13):
            M = ("month", (y, m, 1), 1)
            days = tiles(M, "day")
            for j in [None, *range(len(days))]:
                pre = [] if j is None else [("S", days[j], "f", [F(2), F(9)])]
                unk = len(days) - len(pre)
                for rule in ("divide", "dispatch"):
                    amt = [F(2) * len(pre) + unk * 5, F(9) * len(pre) + unk * F(1, 2)] if rule == "divide" else [F(3), F(4)]
                    st = pre + [("K",), ("S", M, "f", amt), ("K",), ("A", M)]
                    out.append(build_line("day", rule, "num", 2, st, tags=("enum", "days")))
            R = ("year", (y, m, 1), 1)
            for rule in ("divide", "dispatch"):
                out.append(build_line("month", rule, "num", 1, [("S", R, "I", [F(36)]), ("K",), ("A", R)], tags=("enum", "rolling")))
    # ONE document with the year, a quarter and two months: every order of its keys, through the builder (always
    # accepted: consumed shortest first) and in the short form (accepted only when nothing arrives after a period
    # that contains it, unless it repeats what is stored)
    import itertools
    feb, jul, q1 = ("month", (2018, 2, 1), 1), ("month", (2018, 7, 1), 1), ("month", (2018, 1, 1), 3)
    for entries in ([(Y, [F(28)]), (feb, [F(5)]), (jul, [F(3)])],
                    [(Y, [F(28)]), (feb, [F(5)]), (jul, [F(3)]), (q1, [F(9)])],
                    [(Y, [F(24)]), (feb, [F(2)]), (q1, [F(6)])]):
        for perm in itertools.permutations(entries):
            for route in ("b", "v", "b:h"):
                st = [("S", q, "f", v) for q, v in perm] + [("K",), ("A", Y), ("A", q1), ("K",)]
                out.append(build_line("month", "divide", "num:" + route, 1, st, tags=("enum", "doc-orders")))
    return out


def neighbours(case: Case):
    """the same history with every long period moved by one definition period / grown by one"""
    parsed = parse_line(case.line)
    if parsed is None:
        return []
    du, rule, kind, count, ops, opts = parsed
    out = []
    for shift, grow in ((1, 0), (-1, 0), (0, 1)):
        steps = []
        ok = True
        for op in ops:
            if op[0] in ("K", "X", "M"):
                steps.append(op)
                continue
            p = op[1]
            try:
                q = (p[0], addm_t(p[1], p[0] if p[0] in ORDER else "day", shift), p[2] + (grow if p[2] > 1 else 0))
            except (ValueError, OverflowError):
                ok = False
                break
            steps.append((op[0], q, *op[2:]))
        if ok:
            out.append(build_line(du, rule, kind, count, steps, claimed=False, tags=("neighbour",)))
    return out


PROP = Prop(
    unclaimed_diffs_binding=True,   # the model transcribes the code outside the claim domain too (0 differences on every run):
                                    # `claimed=False` silences the oracle only
    pid="C16",
    lean_targets=["OFCore.Props.C16"],
    driver="ofdrv_sin",
    generate=generate, impl=impl, oracle=oracle, nontrivial=nontrivial,
    corpus=corpus, enumerate_thorough=enumerate_thorough, neighbours=neighbours,
    extra_lean_files=["OFCore/SetInput.lean"],
    rule=("one history per line on a fresh simulation: a day/month/year variable (float 80 %, int 20 %) declared with the divide (60 %) "
          "or dispatch rule, 1-4 entities; a long period (months of 28-31 days, leap Februaries incl. 1900/2000/2100/2400, calendar and "
          "rolling years, multi-year, month:Y-M:n, day ranges across month ends); 0/1/2/half/all-but-one/all of its pieces pre-set in random "
          "order (sometimes twice); 1-3 long inputs (the period, sub-ranges, shifted copies, super-periods) with amounts = known total + "
          "#unknown x lattice share (or a deliberate contradiction when everything is known, or a non-divisible amount on int variables); the "
          "same calls replayed shuffled / longest-first when every share stays on the lattice; values passed as Python floats, Python ints, "
          "float64/float32/int64/int32 arrays, tuples — chosen per operation, one in four an array of exactly the variable's dtype. After every "
          "set_input the caller's own object is compared with a snapshot taken before the call and the whole store is read back, then "
          "calculate_add over every long period. One history in six keeps ONE caller object and passes it for 2-3 consecutive long periods "
          "(pieces pre-set with non-zero values inside one of them). "
          "Half of the histories are re-spelled: periods as text / bare year, inputs given to Holder.set_input directly, a single entity's value as a "
          "scalar / 0-dim array / expression string; 4 % of the short ones run with every array forced to the disk storage. Further streams: bool / date / "
          "str / enum variables with the dispatch rule (items as lists, exact-dtype arrays, names, codes); variables with an `end` placed before / at the "
          "first day / inside / at the last day / after the long period (inputs through Simulation.set_input and Holder.set_input); situation documents "
          "consumed by SimulationBuilder (ONE document whose keys are written in any order — year before / after / between its months —, buffered and "
          "consumed shortest first by the builder: the model has the builder's sort; with and without `end`; the same pieces under two spellings with equal "
          "or contradicting amounts; also on a household variable in a simulation with one person more than households); short-form documents "
          "{variable: {period: values}} through build_from_dict -> build_from_variables (consumed in document order: a year written before one of its "
          "months is refused unless the month repeats its share); second calls: the long input given again with the same / another amount, a piece given "
          "again after it, `calculate` on a piece nobody set BEFORE the long input (cached default = known piece), `calculate` on every piece afterwards "
          "(the sum taken by hand must be the amount), everything read again from `simulation.clone()` and the clone given the next long period; DAY "
          "variables given week / weekday periods starting on any day (tiled exactly by days: claimed); neutralised variables; items `_to_array` cannot "
          "convert and scalars for several entities (refused). "
          "Plus variables without rule (routing errors, binding) and a non-binding stream (week/weekday/eternity variables, unaligned or shorter periods, wrong length, ADD first) and "
          "malformed lines. Non-trivial = at least one accepted input on a period longer than the definition period."),
    assumptions=[
        "numeric policy (DESIGN section 4): amounts, partial sums and shares are multiples of 1/4 below 2**20, so the code's float32 arithmetic is exact; rounding, int32 overflow, NaN are modelled, not verified",
        "claim domain: day/month/year variables with the divide or dispatch rule, periods of the day/month/year family aligned on the definition period (years and months start on the 1st; year variables on 1 January), sizes >= 1, years < 9990; variables without rule are binding for the correspondence only (refusal of anything but one definition period); week-family and eternal variables, unaligned or shorter periods, wrong lengths are compared but not binding",
        "the walk stopping early at year 9999 (pendulum overflow in the middle of the dispatch loop) leaves a partially filled store in the code and an unchanged one in the model; not generated",
        "variables have no formula; neutralised variables and inputs that start after a variable's `end` are binding for the correspondence only (the input is ignored: the statement does not speak of them); on-disk storage is run through but not modelled (it is not observable)",
        "documents (options b, v): the oracle only asks that every amount of an ACCEPTED document is what the sum over its period returns; which documents are accepted (the builder's order, the short form's document order) is the model's business (binding correspondence)",
        "a document names periods by their text: `month:Y-M:12` has the text of the year and is generated as the year",
        "the harness never mutates an object it passed or an array it got back: aliasing of stored arrays with the caller's exact-dtype array (dispatch rule, variables without rule) is outside the statement",
        "numpy conversions (asarray/astype, float32 true division, in-place subtract, sum of arrays) and pendulum date arithmetic are modelled, tied by this correspondence",
    ],
    partial_theorems=[
        "C16_divide_conserves_int_partial: conservation on int-typed variables only when the equal share is a whole number; "
        "the full statement is false of the code (finding F-C16c: every share is truncated on storage, 100 over 12 months sums to 96)",
    ],
    exhaustive_note=("thorough: month variable x year 2018 x all 4096 subsets of pre-set months x both rules; day variable x every month of "
                     "2019-2020 x (no / each single pre-set day) x both rules; month variable x every rolling year starting in 2019-2020; "
                     "one document {year, quarter, two months} x every order of its keys x builder / short form / household variable"),
)
