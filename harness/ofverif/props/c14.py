"""C14 — reforms and system copies leave the system they derive from untouched.

Protocol (`OFCore/Drv/Sys.lean`): one self-contained history per line,

    sys run <ents> <params> <vars> <ops> <queries> <hex json: formula bodies + simulation plan>

answered by one stage per operation (`ok:` / `ERR:` + a snapshot of every system alive, `=` when the
snapshot did not change). A snapshot holds, for every variable name, the identity class of the
object it resolves to (`own`, `bl`), whether every entity of the system resolves the name to that
same object (`via`), the attributes, the dated formulas with the identity of their functions, the
formula in force at every query date, and every parameter read at every query date.

`T!src!reforms!exts` is the YAML test runner's derivation, driven through the REAL
`openfisca_core.tools.test_runner._get_tax_benefit_system(baseline, reform paths, extension names)`:
the reforms are generated modules (a `Reform` subclass whose `apply()` performs the listed
modifications) and the extensions generated packages (a file of variable classes + a `parameters`
directory) written to a directory on `sys.path` for the duration of the run.

Correspondence: that text, extracted from the real objects, equals the Lean model's.
Oracle (independent of the model): (1) an operation changes the snapshot of no system but its
target (and the reforms stacked on the target, which share with it by construction); (2) every
derived system shows exactly "the original rules with the declared changes applied"
(`sysutil.Spec*`); (3) identical simulations on every system, run in both orders, on a pristine
copy of the base built from scratch, and with `max_spiral_loops = 3`, give the values a naive
evaluator of those rules computes. With the default `max_spiral_loops = 1` the requests that reach
an annualised formula outside January are the open finding F-C14c.
"""
from __future__ import annotations

import copy
import datetime as dt
import random
import re

from ..core import Case, Prop
from .. import sysutil as su

SEP = " ## "
NOREF = ("date", "enum", "str")          # input-only variables: never read by the generated formulas
O = lambda y, m, d: dt.date(y, m, d).toordinal()
NAMES = ["a", "b", "c", "d", "e", "g", "h", "k"]
NEWNAMES = ["n1", "n2", "n3"]
STARTS = [1, O(2015, 1, 1), O(2017, 1, 1), O(2018, 2, 1), O(2018, 7, 1), O(2019, 1, 1)]
ENDS = [O(2016, 12, 31), O(2018, 1, 31), O(2018, 6, 30), O(2020, 12, 31)]
PDATES = [O(2016, 1, 1), O(2018, 1, 1), O(2018, 2, 1), O(2018, 3, 15), O(2019, 1, 1)]

# --------------------------------------------------------------------------------------
# implementation


def impl(case: Case) -> str:
    spec = su.parse_line(case.line)
    if spec is None:
        return "BAD"
    try:
        real = su.Real(spec)
    except Exception:
        return "ERR"
    qs = spec["queries"]
    # a simulation of the base built (entities, inputs) BEFORE anything derives from it; it calculates afterwards
    early = real.prepare(real.systems[0], spec["sim"]) if spec.get("sim") else None
    prev = real.snaps(qs)
    stages = [su.stage_text("ok", [], prev)]
    for op in spec["ops"]:
        ok = real.step(op)
        cur = real.snaps(qs)
        stages.append(su.stage_text("ok" if ok else "ERR", prev, cur))
        prev = cur
    text = "|".join(stages)
    plan = spec.get("sim")
    if not plan:
        return text
    n = len(real.systems)
    sims = {}
    sims["fwd"] = [real.simulate(real.systems[k], plan, probe_absent=True) for k in range(n)]
    bwd = [None] * n
    for k in reversed(range(n)):
        bwd[k] = real.simulate(real.systems[k], plan)
    sims["bwd"] = bwd
    sims["l3"] = [real.simulate(real.systems[k], plan, spiral=3) for k in range(n)]
    sims["meta"] = [su.meta_of(t) for t in real.systems]
    sims["tags"] = [getattr(t, "ofv_tag", None) for t in real.systems]
    sims["early"] = real.simulate(real.systems[0], plan, prepared=early)
    pristine = su.Real(spec)
    sims["pristine"] = pristine.simulate(pristine.systems[0], plan)
    return text + SEP + su.hexjson(sims)


def canon_equal(case: Case, impl_out: str, model_out: str) -> bool:
    return impl_out.split(SEP)[0] == model_out


# --------------------------------------------------------------------------------------
# the statement: rules with the declared changes applied


def ftok(f) -> str:
    return f"f{f[1]}" if f[0] == "f" else "A(" + ftok(f[1]) + ")"


def unftok(t):
    return ("A", unftok(t[2:-1])) if t.startswith("A(") else ("f", int(t[1:]))


def declared_formulas(cd):
    out: dict = {}
    for d, n in cd["formulas"]:
        out[d] = ("f", n)
    return sorted(out.items())


def complete(cd) -> bool:
    return cd["vt"] is not None and cd["entity"] is not None and cd["dp"] is not None


def refused(cd) -> bool:
    """the class declares a value `Variable.__init__` refuses: the statement says nothing of such a modification"""
    return bool((cd.get("meta") or {}).get("bad"))


META = ("label", "reference", "documentation", "unit", "cerfa_field", "calculate_output",
        "is_period_size_independent", "max_length")
INHERIT_WHEN_FALSY = ("calculate_output",)      # like set_input: `if not value and baseline: inherit`


def norm_meta(m, vt):
    """what `Variable.__init__` makes of the DECLARED values (None = not declared)"""
    import textwrap
    m = m or {}
    out = {k: None for k in META}
    if "label" in m:
        out["label"] = m["label"] or None                      # set_label
    if "reference" in m:
        ref = m["reference"]
        ref = list(ref["t"]) if isinstance(ref, dict) else [ref] if isinstance(ref, str) and ref else ref
        out["reference"] = ref                                 # set_reference: a falsy value is kept as it is
    if "documentation" in m:
        out["documentation"] = textwrap.dedent(m["documentation"]) if m["documentation"] else None
    for k in ("unit", "max_length", "is_period_size_independent"):
        if k in m:
            out[k] = m[k]
    if "cerfa_field" in m:
        out["cerfa_field"] = m["cerfa_field"]["d"] if isinstance(m["cerfa_field"], dict) else m["cerfa_field"]
    if m.get("calculate_output"):
        out["calculate_output"] = m["calculate_output"]
    return out


def type_ipsi(vt):
    return vt not in ("int", "float")


def eff_end(cd):
    return cd["end"] or None


def new_var(cd):
    nm = norm_meta(cd.get("meta"), cd["vt"])
    if "is_period_size_independent" not in (cd.get("meta") or {}):
        nm["is_period_size_independent"] = type_ipsi(cd["vt"])
    return {"meta": nm, "label_open": False, "vt": cd["vt"], "default": cd["default"] if cd["default"] is not None else su.type_default_tok(cd["vt"]),
            "entity": cd["entity"], "dp": cd["dp"], "end": eff_end(cd), "si": cd["si"], "neutralized": False,
            "formulas": declared_formulas(cd), "optional": [], "has_baseline": False, "last": "new"}


def formulas_ok(formulas, end) -> bool:
    return end is None or all(d <= end for d, _ in formulas)


class SpecSys:
    def __init__(self):
        self.vars = {}
        self.params = {}          # name -> list of (a, b, v) layered on the base history
        self.base_params = {}     # name -> [(date, value)] of the base
        self.judged = True
        self.how = "base"
        self.parent = None
        self.reform = False
        self.npar = 0
        self.baseline = None      # index of the system a reform (or the copy of a reform) has as baseline
        self.lastpar = []         # the updates of the last parameter modifier

    def derive(self, how, parent):
        s = copy.deepcopy(self)
        s.how, s.parent = how, parent
        if how == "R":
            s.reform = True
            s.npar = 0               # a reform's own modifiers start from its baseline's tree
            s.baseline = parent
            s.lastpar = []
        return s

    def read(self, name, d):
        """the base value at `d`, overwritten by every later update whose span contains `d`"""
        hist = self.base_params.get(name)
        if hist is None:
            return None
        best = None
        for s, v in hist:
            if s <= d and (best is None or s > best[0]):
                best = (s, v)
        val = None if best is None else best[1]
        for a, b, v in self.params.get(name, []):
            if a <= d and (b is None or d <= b):
                val = v
        return val

    def apply(self, m):
        """-> True when the statement says the modification is well defined (must succeed)"""
        k, x = m
        if k in ("add", "rep", "upd") and refused(x):
            return False
        if k == "add":
            if x["name"] in self.vars or not complete(x) or not formulas_ok(x["formulas"], eff_end(x)):
                return False
            self.vars[x["name"]] = new_var(x)
            return True
        if k == "rep":
            if not complete(x) or not formulas_ok(x["formulas"], eff_end(x)):
                return False
            self.vars[x["name"]] = new_var(x)
            return True
        if k == "upd":
            old = self.vars.get(x["name"])
            if old is None:
                return self.apply(("add", x))
            end = (x["end"] or None) if x["end"] is not None else old["end"]      # (0: `end = ""` clears it)
            if not formulas_ok(x["formulas"], end):
                return False
            if old["neutralized"]:
                self.judged = False          # the statement does not say what this means
            decl = declared_formulas(x)
            if decl:
                first = decl[0][0]
                keep = [(d, f) for d, f in old["formulas"] if d < first]
                redecl = {d for d, _ in decl}
                opt = [(d, f) for d, f in old["formulas"] if d >= first and d not in redecl]
            else:
                keep, opt = list(old["formulas"]), []
            nm = norm_meta(x.get("meta"), x["vt"] or old["vt"])
            declared = {k2 for k2 in (x.get("meta") or {}) if not (k2 in INHERIT_WHEN_FALSY and not x["meta"][k2])}
            self.vars[x["name"]] = {
                # (an attribute declared empty IS redefined: `label = ""` gives no label)
                "meta": {k2: nm[k2] if k2 in declared else old["meta"][k2] for k2 in nm},
                "label_open": old["label_open"] and "label" not in (x.get("meta") or {}),
                "vt": x["vt"] or old["vt"], "default": x["default"] if x["default"] is not None else old["default"],
                "entity": x["entity"] or old["entity"], "dp": x["dp"] or old["dp"], "end": end,
                "si": x["si"] or old["si"], "neutralized": False, "formulas": sorted(keep + decl), "optional": opt,
                "has_baseline": True, "last": "upd"}
            return True
        if k == "neu":
            if x not in self.vars:
                return False
            self.vars[x] = dict(self.vars[x], neutralized=True, last="neu", label_open=True)   # (its label gets a prefix)
            return True
        if k == "ann":
            if x not in self.vars:
                return False
            v = self.vars[x]
            self.vars[x] = dict(v, label_open=v["label_open"], formulas=[(d, ("A", f)) for d, f in v["formulas"]],
                                optional=[(d, ("A", f)) for d, f in v["optional"]], last="ann")
            return True
        if k == "ext":
            ok = True
            for cd in x[1]:
                ok = ok and self.apply(("add", cd))
            for pn, items in x[2]:
                if pn in self.base_params:
                    ok = False
                elif ok:
                    self.base_params[pn] = items
            return ok
        if any(u["name"] not in self.base_params for u in x):
            return False
        for u in x:
            self.params.setdefault(u["name"], []).append((u["a"], u["b"], u["v"]))
        self.npar += 1
        self.lastpar = [(u["name"], u["a"], u["b"], u["v"]) for u in x]
        return True


SNAP = re.compile(r"^n=(.*?)/e=(.*?)/P=(.*?)/u=(.*?)/r=(.*?)/p=(.*?)/v=(.*)$")
VARF = ("own", "bl", "via", "vt", "default", "entity", "dp", "end", "si", "neutralized", "formulas", "at", "input", "label", "attrs")


def parse_snap(s):
    m = SNAP.match(s)
    if not m:
        return None
    names = [x for x in m.group(1).split(",") if x]
    ents = [tuple(x.split("^")) for x in m.group(2).split(",") if x]
    reads = {}
    for x in m.group(6).split(","):
        if x:
            k, v = x.rsplit("=", 1)
            n, d = k.split("@")
            reads[(n, int(d))] = None if v == "-" else v
    vars_ = {}
    for x in m.group(7).split("+"):
        if x:
            name, rest = x.split("(", 1)
            vars_[name] = dict(zip(VARF, rest[:-1].split(",")))
    return {"names": names, "ents": ents, "P": m.group(3), "unbound": m.group(4), "root": m.group(5), "reads": reads, "vars": vars_}


def parse_stages(text):
    """-> [(flag, [snapshot text per system])] with the `=` expanded"""
    out = []
    prev: list = []
    for st in text.split("|"):
        flag, body = st.split(":", 1)
        cur = []
        for i, s in enumerate(body.split(";") if body else []):
            cur.append(prev[i] if s == "=" else s)
        out.append((flag, cur))
        prev = cur
    return out


def check_system(k, spec: SpecSys, snap, qs):
    """the snapshot of a judged system against the rules; adopts what the statement leaves open"""
    if sorted(spec.vars) != snap["names"]:
        return ("derived-definition:names", f"system {k}: variables {snap['names']} but the declared changes give {sorted(spec.vars)}")
    for name, v in spec.vars.items():
        o = snap["vars"][name]
        exp = {"vt": v["vt"], "default": v["default"], "entity": v["entity"], "dp": v["dp"],
               "end": "-" if v["end"] is None else str(v["end"]), "si": v["si"] or "-",
               "neutralized": "T" if v["neutralized"] else "F"}
        for f, e in exp.items():
            if o[f] != e:
                sig = f"derived-definition:{f}"
                if f == "neutralized" and v["last"] == "ann" and e == "T":
                    sig = "derived-definition:neutralized-lost-by-annualize"
                return (sig, f"system {k}: {name}.{f} is {o[f]} but the declared changes give {e}")
        got = [] if o["formulas"] == "-" else [tuple(x.split(">")) for x in o["formulas"].split("^")]
        got = [(int(d), f) for d, f in got]
        if v["neutralized"]:
            # never run: the statement says nothing of the formulas a neutralised variable carries
            v["formulas"], v["optional"] = [(d, unftok(t)) for d, t in got], []
            continue
        must = [(d, ftok(f)) for d, f in v["formulas"]]
        may = [(d, ftok(f)) for d, f in v["optional"]]
        if any(x not in got for x in must) or any(x not in must and x not in may for x in got):
            return ("derived-definition:formulas", f"system {k}: {name} has formulas {got}; it must keep {must} (and may keep {may})")
        if may:
            back = {ftok(f): f for d, f in v["formulas"] + v["optional"]}
            v["formulas"] = sorted((d, back[t]) for d, t in got)
            v["optional"] = []
        # `is_input_variable()`: no formula at all
        if o.get("input") is not None and o["input"] != ("F" if v["formulas"] else "T"):
            return ("derived-definition:is_input_variable",
                    f"system {k}: {name}.is_input_variable() is {o['input']} with formulas {v['formulas']}")
        # the formula in force at each query date, from the (now settled) dated formulas
        ats = o["at"].split("^")
        oldest = min(v["formulas"])[1] if v["formulas"] else None
        if ats[0] != ("-" if oldest is None else ftok(oldest)):
            return ("derived-definition:formula-in-force", f"system {k}: the oldest formula of {name} is {ats[0]}, expected {'-' if oldest is None else ftok(oldest)}")
        for q, a in zip(qs, ats[1:]):
            f = su.formula_in_force(v, q)
            if a != ("-" if f is None else ftok(f)):
                return ("derived-definition:formula-in-force", f"system {k}: {name} at {q} runs {a}, expected {'-' if f is None else ftok(f)}")
    for ent in snap["ents"]:
        exp_names = "~".join(sorted(n for n, v in spec.vars.items() if v["entity"] == ent[0]))
        if len(ent) > 3 and ent[3] != exp_names:
            return ("derived-definition:names", f"system {k}: get_variables({ent[0]}) gives {ent[3]}, the declared changes give {exp_names}")
    for (n, d), val in snap["reads"].items():
        e = spec.read(n, d)
        if e != val:
            sig = "derived-parameters:earlier-modifier-lost" if spec.reform and spec.npar >= 2 else "derived-parameters:value"
            return (sig, f"system {k}: parameter {n} at {d} reads {val}, the declared changes give {e}")
    return None


def observed(snap_text):
    """a snapshot without its alias labels (`own`, `bl`, `P`), which are relative to the other
    systems' current state and only serve the correspondence with the model"""
    a = parse_snap(snap_text)
    if a is None:
        return snap_text
    return (tuple(a["names"]), tuple(a["ents"]), a["unbound"], tuple(sorted(a["reads"].items(), key=str)),
            tuple((n, tuple((f, x) for f, x in v.items() if f not in ("own", "bl"))) for n, v in sorted(a["vars"].items())))


def diff_kind(old, new) -> str:
    a, b = parse_snap(old), parse_snap(new)
    if a is None or b is None:
        return "definitions-or-parameters"
    strip = lambda s: {n: {f: x for f, x in v.items() if f != "via"} for n, v in s["vars"].items()}
    if a["names"] == b["names"] and a["reads"] == b["reads"] and a["P"] == b["P"] and strip(a) == strip(b):
        return "entities-rebound"
    return "definitions-or-parameters"


def oracle(case: Case, impl_out: str):
    spec = su.parse_line(case.line)
    if spec is None or impl_out in ("BAD", "ERR"):
        return None
    parts = impl_out.split(SEP)
    stages = parse_stages(parts[0])
    qs = spec["queries"]
    base = SpecSys()
    for cd in spec["vars"]:
        if not base.apply(("add", cd)):
            return None
    base.base_params = {n: items for n, items in spec["params"]}
    systems = [base]
    memo: set = set()
    res = check_system(0, base, parse_snap(stages[0][1][0]), qs)
    if res:
        return res
    prev = stages[0][1]
    for op, (flag, cur) in zip(spec["ops"], stages[1:]):
        ok = flag == "ok"
        # -- what the statement says about the operation
        if op[1] >= len(systems):
            valid, new, tgt = False, None, None
        elif op[0] == "C":
            valid, new, tgt = True, systems[op[1]].derive("C", op[1]), None
        elif op[0] == "R":
            new, tgt = systems[op[1]].derive("R", op[1]), None
            valid = True
            for m in op[2]:
                if not new.apply(m):
                    valid = False
                    break
        elif op[0] == "T":
            # the test runner's derivation: a copy of the source, the reforms, the extensions; memoised
            tgt = None
            key = (op[1], tuple(n for n, _ in op[2]), frozenset(n for n, _, _ in op[3]))
            if key in memo:
                valid, new = True, None
            else:
                new = systems[op[1]].derive("T", op[1])
                valid = True
                for _, mods in op[2]:
                    new.reform, new.npar, new.lastpar, new.baseline = True, 0, [], None
                    for m in mods:
                        valid = valid and new.apply(m)
                for _, cds, ps in op[3]:
                    for cd in cds:
                        valid = valid and new.apply(("add", cd))
                    for pn, items in ps:
                        if pn in new.base_params:
                            valid = False
                        else:
                            new.base_params[pn] = items
                if flag == "ok":
                    memo.add(key)
        else:
            new, tgt = None, op[1]
            before = copy.deepcopy(systems[tgt])
            valid = systems[tgt].apply(op[2])
            if not valid:
                systems[tgt] = before
                systems[tgt].judged = False
            if op[2][0] == "par" or (op[2][0] == "ext" and op[2][1][2]):   # (a modifier that raises half-way has updated in place, too)
                for j, s in enumerate(systems):     # reforms stacked on the target may share its tree
                    p = j
                    while systems[p].how == "R":
                        p = systems[p].parent
                        if p == tgt:
                            s.judged = False
        ctx_judged = op[1] < len(systems) and (before.judged if op[0] == "M" else systems[op[1]].judged)
        if valid and not ok and ctx_judged:
            mods = op[2] if op[0] == "R" else [op[2]] if op[0] == "M" else [m for _, ms in op[2] for m in ms] if op[0] == "T" else []
            src = systems[op[1]] if op[1] < len(systems) else None
            seen_upd = set()
            sig = "refused:other"
            for m in mods:
                if m[0] == "upd":
                    seen_upd.add(m[1]["name"])
                if m[0] in ("neu", "ann"):
                    was = src.vars.get(m[1]) if (src is not None and op[0] in ("R", "T")) else None
                    if op[0] == "M":
                        was = before.vars.get(m[1])
                    if m[1] in seen_upd or (was is not None and was["has_baseline"]):
                        sig = "refused:neutralize-or-annualize-after-update"
            return (sig, f"operation {su.fmt_op(op)} raised although it is well defined")
        if ok and new is not None:
            if not valid:
                new.judged = False
            systems.append(new)
        if len(cur) != len(systems):
            return ("harness:systems-misaligned", f"{len(cur)} systems alive, expected {len(systems)}")
        # -- (1) nothing but the target changes
        for j in range(len(prev)):
            if cur[j] == prev[j] or observed(cur[j]) == observed(prev[j]):
                continue
            exempt = False
            if tgt is not None:
                p = j
                exempt = p == tgt
                while not exempt and systems[p].how == "R":
                    p = systems[p].parent
                    exempt = p == tgt
            if not exempt:
                return ("origin-touched:" + diff_kind(prev[j], cur[j]),
                        f"operation {su.fmt_op(op)} changed system {j}: {prev[j][:300]}  ->  {cur[j][:300]}")
        # -- (2) the derived system is the original plus the declared changes
        for j in range(len(cur)):
            snap = parse_snap(cur[j])
            if snap["unbound"] != "T":
                return ("entity-resolution", "the entity objects handed to the constructor of the base got bound to a system")
            for ent in snap["ents"]:
                if len(ent) > 1 and ent[1] != "T":
                    return ("entity-resolution", f"system {j}: its entity {ent[0]} (as listed by entities / person_entity / "
                                                 f"group_entities) is not bound to it: its populations resolve variables elsewhere")
            for name, o in snap["vars"].items():
                if o["via"] != "ok":
                    return ("entity-resolution", f"system {j}: its entities resolve {name} to another object ({o['via']})")
            if (j >= len(prev) or cur[j] != prev[j]) and systems[j].judged:
                res = check_system(j, systems[j], snap, qs)
                if res:
                    return res
        prev = cur
    # -- (3) simulations
    if len(parts) < 2 or not spec.get("sim"):
        return None
    sims = su.unhexjson(parts[1])
    plan = spec["sim"]
    known = None
    for k, s in enumerate(systems):
        if sims["tags"][k] != sims["tags"][0]:
            return ("derived-definition:system-attribute", f"system {k} shows the attribute ofv_tag = {sims['tags'][k]!r}, the base {sims['tags'][0]!r}")
        if not s.judged:
            continue
        for name, v in s.vars.items():
            got = sims["meta"][k][name]
            for f, e in v["meta"].items():
                if f == "max_length" and v["vt"] != "str":
                    continue
                if f == "label" and (v["label_open"] or v["neutralized"]):
                    continue
                if got[f] != e:
                    return (f"derived-definition:{f}", f"system {k}: {name}.{f} is {got[f]!r} but the declared changes give {e!r}")
    for k, s in enumerate(systems):
        fwd, bwd, l3 = sims["fwd"][k], sims["bwd"][k], sims["l3"][k]
        if fwd != bwd:
            return ("simulation-order-dependent", f"system {k}: {fwd} when simulated first to last, {bwd} last to first")
        if k == 0 and fwd != sims["pristine"] and not any(op[0] == "M" and op[1] == 0 for op in spec["ops"]):
            return ("origin-calculation-changed", f"base computes {fwd}; a pristine copy built from scratch computes {sims['pristine']}")
        if k == 0 and sims.get("early") is not None and sims["early"] != sims["pristine"] \
                and not any(op[0] == "M" and op[1] == 0 for op in spec["ops"]):
            return ("origin-calculation-changed", f"a simulation of the base built before the derivations computes {sims['early']} "
                                                  f"afterwards; a pristine copy built from scratch computes {sims['pristine']}")
        if not s.judged:
            continue
        params = {n: (lambda d, n=n, s=s: s.read(n, d)) for n in s.base_params}
        exp = su.evaluate(s.vars, params, spec["fdefs"], plan)
        for i, ((e, affected), g1, g3) in enumerate(zip(exp, fwd, l3)):
            if e is None:
                continue
            same = lambda g: g == e or (e == "ERR" and g.startswith("ERR"))
            nreq = len(plan["requests"])
            req = plan["requests"][i] if i < nreq else ["calculate_output"] + plan["outputs"][i - nreq]
            if not same(g3):
                if s.reform and s.npar >= 2 and s.baseline is not None:
                    # would the value be explained by the earlier modifiers having been dropped?
                    b = systems[s.baseline]

                    def lost(n, d, b=b, s=s):
                        val = b.read(n, d)
                        for n2, a2, b2, v2 in s.lastpar:
                            if n2 == n and a2 <= d and (b2 is None or d <= b2):
                                val = v2
                        return val
                    alt = su.evaluate(s.vars, {n: (lambda d, n=n: lost(n, d)) for n in s.base_params}, spec["fdefs"], plan)
                    if alt[i][0] is not None and (g3 == alt[i][0] or (alt[i][0] == "ERR" and g3.startswith("ERR"))):
                        return ("derived-parameters:earlier-modifier-lost",
                                f"system {k}: {req} gives {g3}: the value with only the last parameter modifier applied; the rules give {e}")
                return ("derived-calculation" if k else "origin-calculation",
                        f"system {k}: {req} gives {g3} (max_spiral_loops=3), the rules give {e}")
            if not same(g1):
                if affected:
                    known = known or ("annualized:default-before-january-known",
                                      f"system {k}: {req} gives {g1} with the default max_spiral_loops, its January value gives {e}")
                else:
                    return ("derived-calculation" if k else "origin-calculation",
                            f"system {k}: {req} gives {g1}, the rules give {e}")
    return known


def nontrivial(case: Case, out: str) -> bool:
    stages = out.split(SEP)[0].split("|")
    return len(stages) >= 2 and sum(1 for s in stages[1:] if s.startswith("ok:")) >= 1 and any(
        (";" in s and s.split(":", 1)[1].replace("=", "").replace(";", "") != "") for s in stages[1:])


# --------------------------------------------------------------------------------------
# generator


class Gen:
    def __init__(self, rng: random.Random):
        self.r = rng
        self.fid = 0
        self.fdefs = {}
        self.entity_of = {}       # the base's variables: their entity
        self.si_of = {}           # ... their set_input rule

    def meta(self, vt="float"):
        """attributes outside the heap model, each absent / set / set to something falsy"""
        r = self.r
        m = {}
        if r.random() < 0.5:
            m["label"] = r.choice(["Label one", "Étiquette", ""])
        if r.random() < 0.4:
            m["reference"] = r.choice(["https://law.example/1", ["art. 1", "art. 2"], {"t": ["a", "b"]}, ""])
        if r.random() < 0.3:
            m["documentation"] = r.choice(["    Indented\n    text.\n", "One line.", ""])
        if r.random() < 0.3:
            m["unit"] = r.choice(["currency", "/1", ""])
        if r.random() < 0.25:
            m["cerfa_field"] = r.choice(["1AJ", {"d": {"0": "1AJ", "1": "1BJ"}}, ""])
        if vt in ("float", "int") and r.random() < 0.35:
            m["calculate_output"] = r.choice(["add", "divide", ""])
        if r.random() < 0.25:
            m["is_period_size_independent"] = r.choice([True, False])
        if vt == "str" and r.random() < 0.6:
            m["max_length"] = r.choice([5, 12, 0])
        if r.random() < 0.15:
            m["set_input_none"] = True
        if r.random() < 0.04:           # a declaration `Variable.__init__` refuses (wrong type, setter's own check)
            m["bad"] = r.choice(sorted(su.BAD_DECLARATIONS))
        return m or None

    def expr(self, lower, dp, params, depth=0):
        r = self.r
        leaves = [("k",)] * 2 + ([("m",)] if dp == "month" else []) + [("p",)] * (1 if params else 0) + [("v",)] * (3 if lower else 0)
        if depth < 2 and r.random() < 0.55:
            op = r.choice(["+", "+", "-", "*"])
            a = self.expr(lower, dp, params, depth + 1)
            b = ["k", r.choice([2, 3])] if op == "*" else self.expr(lower, dp, params, depth + 1)
            return [op, a, b]
        k = r.choice(leaves)[0]
        if k == "k":
            return ["k", r.randint(0, 9)]
        if k == "m":
            return ["m"]
        if k == "p":
            return ["p", r.choice(params)]
        n = r.choice(lower)
        if r.random() < 0.3 and n in self.entity_of:
            return ["w", n, r.choice(["s", "s", "j", "l", "a"]), self.entity_of[n]]     # written for the entity it has NOW
        return ["v", n, r.choice(["s", "s", "j", "l", "a"])]

    def formula(self, lower, dp, params):
        self.fid += 1
        self.fdefs[self.fid] = ["k", self.r.randint(1, 9)] if dp == "eternity" else self.expr(lower, dp, params)
        return self.fid

    def classdef(self, name, lower, params, ents, full=True, dp=None):
        r = self.r
        vt = r.choice(["float", "float", "int", "bool"])
        dp = dp or r.choice(["month", "month", "month", "year", "year", "eternity"])
        ent = r.choice(ents) if r.random() < 0.35 else ents[0]
        cd = {"name": name, "vt": vt, "entity": ent, "dp": dp, "default": None, "end": None, "si": None, "formulas": []}
        if r.random() < 0.5:
            cd["default"] = {"float": str(r.randint(-3, 9)), "int": str(r.randint(-3, 9)), "bool": r.choice("TF")}[vt]
            if vt == "float" and r.random() < 0.3:
                cd["default"] = r.choice(["1/2", "-3/4", "5/2"])
        if dp != "eternity":
            if r.random() < 0.18:
                cd["end"] = r.choice(ENDS)
            if vt != "bool" and r.random() < 0.3:
                cd["si"] = r.choice(su.SIS)
            starts = r.sample(STARTS, r.choice([0, 1, 1, 2, 2, 3]))
            if cd["end"] is not None and r.random() < 0.9:
                starts = [s for s in starts if s <= cd["end"]]
            for s in sorted(starts, key=lambda _: r.random()):
                cd["formulas"].append((s, self.formula(lower, dp, params)))
            if cd["formulas"] and r.random() < 0.06 and cd["formulas"][0][0] != 1:     # two spellings of one date
                d = cd["formulas"][0][0]
                if dt.date.fromordinal(d).day == 1:
                    cd["formulas"].append((d, self.formula(lower, dp, params)))
        elif r.random() < 0.6:
            cd["formulas"] = [(1, self.formula(lower, dp, params))]
        if r.random() < 0.06:      # an input-only date variable (never referenced)
            cd.update(vt="date", formulas=[], si=None, default=r.choice([None, f"d{O(2000, 2, 29)}"]))
        elif r.random() < 0.05:    # ... an enumeration, a string
            cd.update(vt="enum", formulas=[], si=None, default=r.choice(["Ea", "Eb", "Ec"]))
        elif r.random() < 0.04:
            cd.update(vt="str", formulas=[], si=None, default=r.choice(["Sx", "Shello"]))
        if r.random() < 0.5:
            cd["meta"] = self.meta(cd["vt"])
            if cd["meta"] is None:
                del cd["meta"]
        return cd

    def update_def(self, name, cur, lower, params):
        """a partial class for `update_variable`: `cur` = (vt, dp) of the variable as the base declares it"""
        r = self.r
        vt, dp = cur
        base_si = self.si_of.get(name)
        cd = {"name": name, "vt": None, "entity": None, "dp": None, "default": None, "end": None, "si": None, "formulas": []}
        if vt in ("float", "int") and r.random() < 0.15:
            cd["vt"] = "int" if vt == "float" else "float"
        if vt in ("enum", "str"):
            if r.random() < 0.35:
                cd["default"] = r.choice(["Ea", "Eb", "Ec"]) if vt == "enum" else r.choice(["Sy", "Sz"])
        elif vt != "date" and r.random() < 0.35:
            cd["default"] = r.choice("TF") if vt == "bool" else str(r.randint(-3, 9))
        if dp != "eternity":
            if r.random() < 0.26:
                cd["end"] = r.choice(ENDS + [0, 0])               # (0: `end = ""`, the variable no longer ends)
            if vt in ("float", "int"):
                if base_si and r.random() < 0.4:
                    cd["si"] = "divide" if base_si == "dispatch" else "dispatch"      # the OTHER rule
                elif r.random() < 0.15:
                    cd["si"] = r.choice(su.SIS)
            if vt not in NOREF and r.random() < 0.06:
                cd["entity"] = "household" if self.entity_of.get(name) == "person" else "person"
            if vt not in NOREF and r.random() < 0.06:
                cd["dp"] = "year" if dp == "month" else "month"
            if r.random() < 0.4:
                m = self.meta(cd["vt"] or vt)
                if m:
                    cd["meta"] = m
            if vt not in ("date", "enum", "str"):
                for s in r.sample(STARTS, r.choice([0, 1, 1, 1, 2])):
                    cd["formulas"].append((s, self.formula(lower, dp, params)))
        return cd

    def history(self, tier):
        r = self.r
        ents = ["person", "household"]
        pnames = r.sample(["r", "s", "t"], r.randint(1, 3))
        params = []
        for n in pnames:
            items = [(O(2010, 1, 1), str(r.randint(1, 5)))]
            for d in r.sample(PDATES, r.randint(0, 2)):
                items.append((d, str(r.randint(1, 5))))
            r.shuffle(items)
            params.append((n, items))
        if r.random() < 0.25:
            params.append(("z", [(O(2012, 1, 1), "7"), (O(2018, 1, 1), None), (O(2019, 1, 1), "1/2")]))
        nv = r.randint(3, 8)
        names = NAMES[:nv]
        vars_, info = [], {}
        for i, n in enumerate(names):
            lower = [x for x in names[:i] if info[x][0] not in NOREF]
            cd = self.classdef(n, lower, pnames, ents)
            vars_.append(cd)
            info[n] = (cd["vt"], cd["dp"])
            self.entity_of[n] = cd["entity"]
            self.si_of[n] = cd["si"]
        rank = {n: i for i, n in enumerate(names + NEWNAMES)}

        # extensions loaded directly
        dpool = []
        for i in range(2):
            xp = []
            if r.random() < 0.7:
                xp.append((f"y{i}" if r.random() < 0.95 else r.choice(pnames), [(O(2010, 1, 1), str(r.randint(1, 5)))]))
            cds = []
            if r.random() < 0.6:
                nm = f"d{i}" if r.random() < 0.95 else r.choice(names)
                cds.append(self.classdef(nm, [x for x in names if info[x][0] not in NOREF],
                                         pnames + [q for q, _ in xp if q not in pnames], ents, dp=r.choice(["month", "year"])))
            dpool.append((f"xd{i}", cds, xp))

        def lower_of(name):
            return [x for x in names if rank[x] < rank.get(name, 99) and info[x][0] not in NOREF]

        def clean(k, cd):
            """`max_length` is an attribute of string variables only (elsewhere it is an unexpected attribute)"""
            vt = cd["vt"] or info.get(cd["name"], (None,))[0]
            m = cd.get("meta")
            if m and "max_length" in m and vt != "str":
                del m["max_length"]
                if not m:
                    del cd["meta"]
            if m and "calculate_output" in m and vt not in ("float", "int"):
                del m["calculate_output"]
                if not m:
                    del cd["meta"]
            return (k, cd)

        def mod(allow_par=True):
            k, x = mod0(allow_par)
            return clean(k, x) if k in ("add", "upd", "rep") else (k, x)

        def mod0(allow_par=True):
            k = r.choices(["add", "upd", "rep", "neu", "ann", "par", "ext"], [2, 4, 2, 3, 3, 3 if allow_par else 0, 1.3])[0]
            if k == "ext":          # load_extension called directly on the system (or from a reform's apply())
                return ("ext", r.choice(dpool))
            if k == "add":
                n = r.choice(NEWNAMES) if r.random() < 0.92 else r.choice(names)
                cd = self.classdef(n, lower_of(n), pnames, ents, dp=r.choice(["month", "year"]))
                if n in NEWNAMES and cd["vt"] in NOREF:      # (the new names are added / updated with several classes:
                    cd.update(vt="float", default=None)      #  keep them in one type family)
                if r.random() < 0.05:
                    cd["vt"] = None
                return ("add", cd)
            if k == "upd":
                n = r.choice(names) if r.random() < 0.93 else r.choice(NEWNAMES)
                if n in info:
                    cd = self.update_def(n, info[n], lower_of(n), pnames)
                else:
                    cd = self.classdef(n, lower_of(n), pnames, ents, dp="month")
                    if cd["vt"] in NOREF:
                        cd.update(vt="float", default=None)
                if r.random() < 0.04 and cd["formulas"] and cd["formulas"][0][0] > 366:
                    cd["end"] = cd["formulas"][0][0] - 1          # a formula that starts after `end`: refused
                return ("upd", cd)
            if k == "rep":
                n = r.choice(names)
                dp = info[n][1] if info[n][1] == "eternity" or r.random() < 0.7 else r.choice(["month", "year"])
                cd = self.classdef(n, lower_of(n), pnames, ents, dp=dp)
                if info[n][0] != "date" and cd["vt"] == "date":      # other formulas may read it
                    cd.update(vt="float", default=None)
                # keep the type family, so that the partial classes of later updates stay well typed
                if info[n][0] == "bool" and cd["vt"] != "bool":
                    cd.update(vt="bool", si=None, default=r.choice([None, "T", "F"]))
                elif info[n][0] in ("float", "int") and cd["vt"] == "bool":
                    cd.update(vt=info[n][0], default=r.choice([None, str(r.randint(-3, 9))]))
                elif info[n][0] == "date" and cd["vt"] != "date":
                    cd.update(vt="date", formulas=[], si=None, default=None)
                if info[n][0] in ("enum", "str") and cd["vt"] != info[n][0]:
                    cd.update(vt=info[n][0], formulas=[], si=None, default="Eb" if info[n][0] == "enum" else "Sw")
                elif info[n][0] not in ("enum", "str") and cd["vt"] in ("enum", "str"):
                    cd.update(vt="float", default=None)
                if r.random() < 0.04 and cd["formulas"] and min(d for d, _ in cd["formulas"]) > 366:
                    cd["end"] = min(d for d, _ in cd["formulas"]) - 1
                return ("rep", cd)
            if k in ("neu", "ann"):
                pool = names + ([r.choice(NEWNAMES)] if r.random() < 0.08 else [])
                if k == "ann" and r.random() < 0.8:
                    pool = [n for n in names if info[n][1] == "month"] or pool
                return (k, r.choice(pool))
            us = []
            for _ in range(r.choice([1, 1, 2])):
                a = r.choice(PDATES)
                b = None if r.random() < 0.5 else a + r.choice([0, 30, 58, 364])
                n = r.choice(pnames) if r.random() < 0.96 else "nope"
                us.append({"name": n, "a": a, "b": b, "v": str(r.randint(1, 6))})
            return ("par", us)

        # what YAML tests name: reforms (by path) and extensions (by package), a few per case so that
        # the runner's cache keys recur, in the same and in another order
        runner = r.random() < 0.4
        rpool, xpool = [], []
        if runner:
            for i in range(r.randint(1, 3)):
                k = r.choice([0, 1, 1, 2])
                mods = [mod(allow_par=False) for _ in range(k)] if r.random() < 0.5 else [mod() for _ in range(k)]
                rpool.append((f"r{i}", mods))
            enames = ["e1", "e2", "e3"]
            for i in range(r.randint(1, 2)):
                xp = []
                if r.random() < 0.65:
                    pn = f"x{i}" if r.random() < 0.93 else r.choice(pnames)        # (an existing name: refused)
                    xp.append((pn, [(O(2010, 1, 1), str(r.randint(1, 5)))] + ([(r.choice(PDATES), str(r.randint(1, 5)))] if r.random() < 0.4 else [])))
                cds = []
                for n in sorted(r.sample(enames, r.randint(0, 2))):
                    nm = n if r.random() < 0.95 else r.choice(names)               # (an existing variable: refused)
                    cds.append(self.classdef(nm, [x for x in names if info[x][0] not in NOREF],
                                             pnames + [q for q, _ in xp if q not in pnames and q != "z"], ents,
                                             dp=r.choice(["month", "year"])))
                cds.sort(key=lambda c: c["name"])
                if len({c["name"] for c in cds}) < len(cds):
                    cds = cds[:1]
                xpool.append((f"x{i}", cds, xp))

        def runner_op(src):
            rs = r.sample(rpool, r.randint(0, min(2, len(rpool))))
            xs = r.sample(xpool, r.randint(0, len(xpool)))
            if not rs and not xs and r.random() < 0.8:
                xs = [r.choice(xpool)]
            return ("T", src, rs, xs)

        ops = []
        nsys = 1
        for i in range(r.randint(1, 6)):
            if i == 0 or r.random() < 0.45 or nsys == 1 or (runner and r.random() < 0.5):
                src = 0 if (i == 0 or r.random() < 0.4 or (runner and r.random() < 0.6)) else \
                    nsys - 1 if r.random() < 0.5 else r.randrange(nsys)          # (deep chains: from the latest)
                if runner and r.random() < 0.7:
                    ops.append(runner_op(src))
                elif r.random() < 0.45:
                    ops.append(("C", src))
                else:
                    ops.append(("R", src, [mod() for _ in range(r.choice([0, 1, 1, 2, 2, 3]))]))
                nsys += 1          # (a failing derivation or a cache hit creates nothing: later indices may err, on both sides)
            else:
                # (modifying the BASE once something derives from it is outside the statement: not claimed)
                ops.append(("M", 0 if r.random() < 0.06 else r.randrange(1, nsys), mod()))
        # queries: boundary dates of what the history mentions
        cand = {O(2018, 1, 1), O(2018, 3, 1)}
        for cd in vars_ + [cd for op in ops for cd in cds_of(op)]:
            for d, _ in cd["formulas"]:
                cand |= {d, d - 1} if d > 1 else {d}
            if cd["end"] is not None:
                cand |= {cd["end"], cd["end"] + 1}
        for op in ops:
            for m in mods_of(op):
                if m[0] == "par":
                    for u in m[1]:
                        cand |= {u["a"], u["a"] - 1}
                        if u["b"] is not None:
                            cand |= {u["b"], u["b"] + 1}
        for n, items in params:
            cand |= {d for d, _ in items}
        cand = {d for d in cand if d >= 1}
        queries = sorted(r.sample(sorted(cand), min(len(cand), r.randint(3, 6))))
        # simulation plan
        inputs = []
        for n in r.sample(names, min(len(names), r.randint(0, 3))):
            vt, dp = info[n]
            if vt in NOREF or dp == "eternity":
                continue
            cnt = su.COUNT[next(c["entity"] for c in vars_ if c["name"] == n)]
            vals = [r.randint(0, 1) for _ in range(cnt)] if vt == "bool" else [r.randint(-4, 20) for _ in range(cnt)]
            inputs.append([n, dp, 2018, r.choice([1, 1, 3]), vals])
        requests = [[r.choice(names + NEWNAMES[:1]) if r.random() < 0.9 else r.choice(NEWNAMES), r.choice([2018, 2018, 2019]),
                     r.choice([1, 3, 3, 12])] for _ in range(r.randint(4, 8))]
        taken = {i[0] for i in inputs}
        long_inputs = []
        for n in names:
            vt, dp = info[n]
            if dp == "month" and vt in ("float", "int") and n not in taken and r.random() < 0.45:
                cnt = su.COUNT[self.entity_of[n]]
                long_inputs.append([n, 2018, [12 * r.randint(-4, 20) for _ in range(cnt)]])
        outputs = [[r.choice(names), r.choice([2018, 2018, 2019]), r.choice([1, 3])] for _ in range(r.randint(2, 4))]
        for n in sorted({cd["name"] for _, cds, _ in xpool + dpool for cd in cds}):
            requests.insert(r.randrange(len(requests) + 1), [n, 2018, r.choice([1, 3])])
        return {"ents": ents, "params": params, "vars": vars_, "ops": ops, "queries": queries,
                "fdefs": dict(self.fdefs), "sim": {"inputs": inputs, "requests": requests, "long_inputs": long_inputs,
                                                   "outputs": outputs}}


def mods_of(op):
    """every modification an operation carries"""
    if op[0] == "R":
        return op[2]
    if op[0] == "M":
        return [op[2]]
    if op[0] == "T":
        return [m for _, ms in op[2] for m in ms]
    return []


def cds_of(op):
    """every class definition an operation carries"""
    out = [m[1] for m in mods_of(op) if m[0] in ("add", "upd", "rep")]
    out += [cd for m in mods_of(op) if m[0] == "ext" for cd in m[1][1]]
    if op[0] == "T":
        out += [cd for _, cds, _ in op[3] for cd in cds]
    return out


def case_of(spec, tags=(), origin="gen") -> Case:
    kinds = set()
    for op in spec["ops"]:
        kinds.add({"C": "clone", "R": "reform", "M": "modify", "T": "test-runner"}[op[0]])
        for m in mods_of(op):
            kinds.add(m[0])
        if op[0] in ("C", "R", "T") and op[1] > 0:
            kinds.add("chained")
        if op[0] == "T":
            kinds.add("runner:reforms" if op[2] else "runner:no-reform")
            kinds.add("runner:extensions" if op[3] else "runner:no-extension")
            if op[2] and op[3] and not any(m[0] == "par" for _, ms in op[2] for m in ms) and any(ps for _, _, ps in op[3]):
                kinds.add("runner:shared-tree+ext-params")
    depth, d = 0, {0: 0}
    n = 1
    for op in spec["ops"]:
        if op[0] in ("C", "R", "T"):
            d[n] = d.get(op[1], 0) + 1 + (len(op[2]) if op[0] == "T" else 0)
            depth = max(depth, d[n])
            n += 1
    if depth >= 3:
        kinds.add("depth>=3")
    base_modified = any(op[0] == "M" and op[1] == 0 for op in spec["ops"])
    if base_modified:
        kinds.add("base-modified")
    return Case(line=su.fmt_line(spec), tags=tuple(sorted(kinds)) + tuple(tags), origin=origin, claimed=not base_modified)


MALFORMED = [
    "sys run person - - X!0 1",
    "sys run person - a:float:-:person:month:-:- - 1",
    "sys run person r=1:2:3 - - 1",
    "sys run person - - M!0!zap~a 1",
    "sys run person - - C!x 1",
    "sys run person - - - q",
    "sys walk person - - - 1",
    "sys run person,,household - - - 1",
    "sys run person - - R!0!par~r@1@2 1",
    "sys run person",
]


def generate(rng: random.Random, tier: str):
    n = 4000 if tier == "quick" else 60000
    for i in range(n):
        g = Gen(rng)
        yield case_of(g.history(tier))
    for l in MALFORMED:
        yield Case(line=l, tags=("malformed",))
    # a base that cannot be built (the same name twice)
    yield Case(line="sys run person,household - a:float:-:person:month:-:-:-;a:int:-:person:month:-:-:- C!0 1", tags=("bad-base",))


# --------------------------------------------------------------------------------------
# regression corpus: the minimal failing input of every defect of this property


def _base_spec(ops, requests, inputs=(), params=None, fdefs=None, vars_=None):
    fdefs = fdefs or {1: ["+", ["k", 7], ["m"]], 2: ["*", ["v", "a", "s"], ["p", "r"]], 3: ["k", 100]}
    vars_ = vars_ or [
        {"name": "a", "vt": "float", "default": None, "entity": "person", "dp": "month", "end": None, "si": None, "formulas": [(1, 1)]},
        {"name": "b", "vt": "float", "default": "5", "entity": "person", "dp": "month", "end": None, "si": None, "formulas": [(1, 2)]},
    ]
    params = params or [("r", [(O(2010, 1, 1), "2"), (O(2015, 1, 1), "3")]), ("s", [(O(2010, 1, 1), "10")])]
    return {"ents": ["person", "household"], "params": params, "vars": vars_, "ops": ops,
            "queries": [O(2016, 12, 31), O(2017, 1, 1), O(2018, 3, 1)], "fdefs": fdefs,
            "sim": {"inputs": [list(i) for i in inputs], "requests": [list(q) for q in requests]}}


_FD = {1: ["+", ["k", 7], ["m"]], 2: ["*", ["v", "a", "s"], ["p", "r"]], 3: ["k", 100]}


def corpus():
    x_town = ("x0", [{"name": "town_allowance", "vt": "float", "default": None, "entity": "household", "dp": "month",
                      "end": None, "si": None, "formulas": [(1, 7)]}], [("town", [(O(2010, 1, 1), "100")])])
    upd_b = {"name": "b", "vt": None, "default": None, "entity": None, "dp": None, "end": None, "si": None,
             "formulas": [(O(2017, 1, 1), 3)]}
    pu_r = {"name": "r", "a": O(2016, 1, 1), "b": None, "v": "5"}
    pu_s = {"name": "s", "a": O(2016, 1, 1), "b": None, "v": "20"}
    out = [
        # F-C14a: after clone().neutralize_variable(a) the original's entities resolve the neutralised a
        (_base_spec([("C", 0), ("M", 1, ("neu", "a"))], [("a", 2018, 1), ("b", 2018, 1)]), "F-C14a"),
        # F-C14b: neutralising / annualising a variable that a reform updated
        (_base_spec([("R", 0, [("upd", upd_b), ("neu", "b")])], [("b", 2018, 1)]), "F-C14b"),
        (_base_spec([("C", 0), ("M", 1, ("upd", upd_b)), ("M", 1, ("ann", "b"))], [("b", 2018, 1)]), "F-C14b"),
        (_base_spec([("R", 0, [("upd", upd_b)]), ("R", 1, [("neu", "b")])], [("b", 2018, 1)]), "F-C14b"),
        # F-C14c (open): annualised monthly variable asked for March before January is known
        (_base_spec([("C", 0), ("M", 1, ("ann", "a"))], [("a", 2018, 3), ("b", 2018, 3), ("a", 2018, 1)]), "F-C14c"),
        # ... and not when January is known first
        (_base_spec([("C", 0), ("M", 1, ("ann", "a"))], [("a", 2018, 1), ("a", 2018, 3), ("b", 2018, 12)]), "annualized-jan-first"),
        # F-C14d: annualising a neutralised variable dropped the neutralisation
        (_base_spec([("C", 0), ("M", 1, ("neu", "a")), ("M", 1, ("ann", "a"))], [("a", 2018, 1), ("b", 2018, 1)]), "F-C14d"),
        # F-C14e: a second parameter modifier in a reform (or in the copy of a reform) dropped the first
        (_base_spec([("R", 0, [("par", [pu_r]), ("par", [pu_s])])], [("b", 2018, 1)]), "F-C14e"),
        (_base_spec([("R", 0, [("par", [pu_r])]), ("C", 1), ("M", 2, ("par", [pu_s]))], [("b", 2018, 1)]), "F-C14e"),
        # the YAML test runner: a reform that touches no parameter (it shares its baseline's tree), then an
        # extension that brings parameters; afterwards the same extension alone, from the same base
        (_base_spec([("T", 0, [("r0", [("neu", "a")])], [x_town]), ("T", 0, [], [x_town]), ("T", 0, [("r0", [("neu", "a")])], [x_town])],
                    [("town_allowance", 2018, 1), ("b", 2018, 1)], fdefs={**_FD, 7: ["+", ["p", "town"], ["k", 1]]}), "runner-reform-then-extension"),
        (_base_spec([("T", 0, [], [x_town]), ("T", 0, [("r1", [("par", [pu_r])]), ("r0", [("neu", "a")])], [x_town]), ("C", 0), ("T", 3, [("r0", [("neu", "a")])], [])],
                    [("town_allowance", 2018, 1), ("b", 2018, 1)], fdefs={**_FD, 7: ["+", ["p", "town"], ["k", 1]]}), "runner-extension-then-reform"),
        # F-C14f: load_extension called directly on a parameter-neutral reform (it shares its baseline's tree) ...
        (_base_spec([("R", 0, []), ("M", 1, ("ext", x_town))], [("town_allowance", 2018, 1), ("b", 2018, 1)],
                    fdefs={**_FD, 7: ["+", ["p", "town"], ["k", 1]]}), "F-C14f"),
        # ... on the second of two stacked neutral reforms after the first took its copy; and from apply()
        (_base_spec([("R", 0, []), ("R", 1, []), ("M", 1, ("ext", x_town)), ("M", 2, ("ext", ("x9", [], [("city", [(O(2010, 1, 1), "7")])]))),
                     ("R", 0, [("ext", x_town)]), ("C", 1), ("M", 5, ("ext", ("x9", [], [("city", [(O(2010, 1, 1), "7")])])))],
                    [("town_allowance", 2018, 1), ("b", 2018, 1)], fdefs={**_FD, 7: ["+", ["p", "town"], ["k", 1]]}), "F-C14f"),
        # neutralised variables ignore inputs
        (_base_spec([("R", 0, [("neu", "a")])], [("a", 2018, 1), ("b", 2018, 1)], inputs=[("a", "month", 2018, 1, [4, 5, 6])]), "neutralized-input"),
    ]
    return [case_of(s, tags=(t,), origin="corpus") for s, t in out]


def _enum_mods():
    cd = lambda **k: dict({"name": None, "vt": None, "default": None, "entity": None, "dp": None, "end": None,
                           "si": None, "formulas": []}, **k)
    return [
        ("neu", "a"), ("ann", "a"), ("neu", "b"), ("ann", "b"),
        ("upd", cd(name="a", formulas=[(O(2018, 2, 1), 11)])),
        ("upd", cd(name="b", default="4", end=O(2020, 12, 31), formulas=[(O(2017, 1, 1), 12)])),
        ("rep", cd(name="a", vt="float", entity="household", dp="year", formulas=[(1, 13)])),
        ("add", cd(name="n1", vt="int", entity="person", dp="month", default="2", formulas=[(O(2015, 1, 1), 14)])),
        ("par", [{"name": "r", "a": O(2016, 1, 1), "b": None, "v": "5"}]),
        ("par", [{"name": "s", "a": O(2018, 1, 1), "b": O(2018, 2, 28), "v": "6"}]),
    ]


def enumerate_thorough():
    """every pair and every triple of the ten modifications above, in three derivation shapes:
    on a clone (one call each), inside one reform's apply(), and spread over chained reforms"""
    import itertools
    fdefs = {1: ["+", ["k", 7], ["m"]], 2: ["*", ["v", "a", "s"], ["p", "r"]], 3: ["+", ["v", "a", "j"], ["p", "s"]],
             4: ["v", "a", "a"], 11: ["*", ["m"], ["k", 3]], 12: ["-", ["v", "a", "l"], ["k", 1]], 13: ["k", 9],
             14: ["+", ["v", "b", "s"], ["k", 1]]}
    vars_ = [
        {"name": "a", "vt": "float", "default": None, "entity": "person", "dp": "month", "end": None, "si": None, "formulas": [(1, 1)]},
        {"name": "b", "vt": "float", "default": "5", "entity": "person", "dp": "month", "end": O(2019, 12, 31), "si": None,
         "formulas": [(1, 2), (O(2018, 2, 1), 3)]},
        {"name": "c", "vt": "int", "default": None, "entity": "household", "dp": "year", "end": None, "si": None, "formulas": [(1, 4)]},
    ]
    requests = [("b", 2018, 3), ("a", 2018, 1), ("c", 2018, 1), ("a", 2018, 3), ("n1", 2018, 3), ("b", 2017, 12)]
    inputs = [("a", "month", 2018, 3, [4, 5, 6])]
    mods = _enum_mods()
    for k in (2, 3):
        for combo in itertools.product(mods, repeat=k):
            shapes = [
                [("C", 0)] + [("M", 1, m) for m in combo],
                [("R", 0, list(combo))],
                [("R", i, [m]) for i, m in enumerate(combo)],
            ]
            for ops in shapes:
                spec = _base_spec(ops, requests, inputs=inputs, fdefs=fdefs, vars_=vars_)
                spec["queries"] = [O(2016, 12, 31), O(2017, 1, 1), O(2018, 2, 1), O(2018, 2, 28), O(2021, 1, 1)]
                yield case_of(spec, tags=("enum",), origin="enum")
    yield from enumerate_runner()


def enumerate_runner():
    """every ordered pair of test-runner derivations from one base, over all combinations of
    {no reform, a parameter-neutral reform, a parameter-modifying reform, both in either order} x
    {no extension, an extension with parameters, one without, both in either order}"""
    import itertools
    cd = lambda name, fid, ent="person": {"name": name, "vt": "float", "default": None, "entity": ent, "dp": "month",
                                          "end": None, "si": None, "formulas": [(1, fid)]}
    rn = ("rn", [("neu", "a")])
    rp = ("rp", [("par", [{"name": "r", "a": O(2016, 1, 1), "b": None, "v": "5"}]), ("upd", dict(cd("b", 8), vt=None, entity=None, dp=None, formulas=[(O(2017, 1, 1), 8)]))])
    xa = ("xa", [cd("town_allowance", 7, "household")], [("town", [(O(2010, 1, 1), "100")])])
    xb = ("xb", [cd("e2", 9)], [])
    fdefs = {**_FD, 7: ["+", ["p", "town"], ["k", 1]], 8: ["+", ["v", "a", "s"], ["p", "r"]], 9: ["*", ["v", "b", "s"], ["k", 2]]}
    rsets = [[], [rn], [rp], [rn, rp], [rp, rn]]
    xsets = [[], [xa], [xb], [xa, xb], [xb, xa]]
    kinds = list(itertools.product(rsets, xsets))
    requests = [("town_allowance", 2018, 1), ("b", 2018, 1), ("e2", 2018, 3), ("a", 2018, 1)]
    for k1, k2 in itertools.product(kinds, repeat=2):
        ops = [("T", 0, k1[0], k1[1]), ("T", 0, k2[0], k2[1])]
        yield case_of(_base_spec(ops, requests, fdefs=fdefs), tags=("enum", "enum-runner"), origin="enum")


def neighbours(case: Case):
    """the same history with one operation (or one modification of a reform) removed"""
    spec = su.parse_line(case.line)
    if spec is None:
        return
    ops = spec["ops"]
    for i in range(len(ops)):
        yield case_of(dict(spec, ops=ops[:i] + ops[i + 1:]), origin="search")
        if ops[i][0] == "R":
            for j in range(len(ops[i][2])):
                o = ("R", ops[i][1], ops[i][2][:j] + ops[i][2][j + 1:])
                yield case_of(dict(spec, ops=ops[:i] + [o] + ops[i + 1:]), origin="search")


PROP = Prop(
    unclaimed_diffs_binding=True,   # the model transcribes the code outside the claim domain too (0 differences on every run):
                                    # `claimed=False` silences the oracle only
    pid="C14",
    lean_targets=["OFCore.Props.C14"],
    generate=generate,
    impl=impl,
    oracle=oracle,
    nontrivial=nontrivial,
    corpus=corpus,
    enumerate_thorough=enumerate_thorough,
    neighbours=neighbours,
    exhaustive_note=("thorough: every pair and every triple of ten representative modifications (neutralise / annualise / "
                     "update / replace / add / two parameter modifiers) in three derivation shapes (clone + calls, one reform, "
                     "chained reforms) on a fixed three-variable base: 3 300 histories; plus every ordered pair of test-runner "
                     "derivations over 5 reform lists x 5 extension lists (parameter-neutral / parameter-modifying reforms, "
                     "extensions with / without parameters): 625 histories"),
    canon_equal=canon_equal,
    driver="ofdrv_sys",
    rule=("a history of derivations (clone / reform / chained reform / the YAML test runner's _get_tax_benefit_system with "
          "reforms by path and extension packages) and modifications (add / update / replace / "
          "neutralise / annualise / parameter modifier) is replayed on the real objects and on the heap model; after "
          "every operation the snapshot of every system (resolution by name and through each entity, attributes, dated "
          "formulas, formula in force and parameters at the query dates, alias classes) must be equal on both sides, "
          "unchanged for every system but the target, and equal to the original rules with the declared changes; "
          "simulations on every system, in both orders and on a pristine base, must give the values of those rules; a "
          "simulation of the base built (entities and inputs) before anything derives from it and calculated after the whole "
          "history must give what the pristine base gives; every snapshot carries is_input_variable(), the label and the seven "
          "other descriptive / behavioural attributes of every variable"),
    assumptions=[
        "variable.entity is observed through its key only (the engine reads nothing else of it)",
        "formula functions are compared by identity (annual_formula closures through the function they wrap)",
        "simulation values are small integers / dyadic rationals: float32 arithmetic is exact; cases whose intermediate "
        "values leave |x| < 2^21 are not judged",
        "parameter histories: start <= stop (claim domain of C06); formulas never request their own variable",
        "the other attributes (label, reference, documentation, unit, cerfa_field, calculate_output, "
        "is_period_size_independent, max_length) are in the model as opaque tokens of the value Variable.__init__ makes of the "
        "declared one (that normalisation - set_label, set_documentation, set_reference - is computed by the adapter, and "
        "independently by the oracle's norm_meta); the model decides declared / inherited / default and the [Neutralized] label; "
        "an update never turns a non-string variable into a string one (max_length would be read from a baseline that has "
        "none: AttributeError, not generated); a custom system attribute read through Reform.__getattr__ is checked by the oracle only",
        "Enum / str / date variables are input-only; a class declaring a value Variable.__init__ refuses (21 kinds: wrong "
        "type for label / end / documentation / unit / cerfa_field / reference / is_period_size_independent / default_value, a "
        "value outside the allowed ones for value_type / definition_period, an entity that is not one, an unexpected attribute, "
        "a formula name that is not a date) is refused by the model too (ClassDef.invalid) and leaves the systems as the model "
        "says (replace_variable has deleted the old entry by then); the statement says nothing of such a class: the oracle "
        "only demands that nothing but the target changes",
        "histories that modify the base after something derives from it are outside the statement: correspondence "
        "only, not claimed (theorem C14_copy_independent_of_source answers for clones)",
        "the engine's evaluation of formulas is property C01; here the calculation on a system is determined by the "
        "observations, and real simulations are compared with a naive evaluator of the declared rules",
    ],
    partial_theorems=["C14_annualized_january_partial"],
    level_text=("proof: base untouched for all histories (frame), inheritance on update, neutralised = default and inputs "
                "ignored, parameter modifiers from their dates (via C06), derived = origin + declared changes, entities "
                "resolve in their own system; the annualised clause is a theorem when January is known or "
                "max_spiral_loops >= 2 (counterexample proved for the default 1: open finding F-C14c)"),
)
